//! C27 — a network of real gossipsub behaviours connected through the real wire codec.
use crate::gnode::*;
use libp2p_gossipsub as gs;
use libp2p_gossipsub::verif as gv;
use libp2p_identity::{Keypair, PeerId};
use simkit::*;
use std::collections::{BTreeMap, BTreeSet, VecDeque};
use std::time::Duration;

type F = gs::AllowAllSubscriptionFilter;

pub fn check() -> Check {
    Check {
        id: "C27",
        title: "Gossipsub delivers each published message once to every subscriber",
        level: Level::Exploration,
        rule: "3..10 real gossipsub Behaviours (signing+Strict or Anonymous, flood_publish on/off, drawn mesh parameters) on a random connected topology; every RPC leaves a node through the real wire encoder and enters its neighbour through the real decoder; per-link FIFO queues are drained in a schedule-drawn order, heartbeats are driven by the virtual clock (node units may be starved = delayed heartbeats). Workload: subscribe (some late, some unsubscribe and re-subscribe), publishes with unique payloads; faults before the final phase: link resets with reconnect, partitions and heals, stalled nodes. Always: no node's application sees a message id twice, the publisher never sees its own message, no Publish of m travels to the peer m was first received from nor to m's source. After faults stop and 10 heartbeats (more than the configured 3 s prune backoff plus slack) passed: a message published then reaches every other subscribed node exactly once within 6 heartbeats. Non-trivial = a message needed at least two hops or a fault fired; distinct = fingerprint of (n, topology class, config, operation/fault kinds)",
        assumptions: &["connection handlers and the Swarm are stubs here (the harness moves wire frames between the behaviours' send queues and on_connection_handler_event); scores are off"],
        real: &["libp2p_gossipsub::Behaviour (mesh, fanout, gossip, heartbeat, duplicate cache, mcache)", "GossipsubCodec encode/decode incl. signature validation"],
        stub: &["Swarm + connection handlers -> harness frame pump", "clock -> virtual"],
        scenarios: vec![Scenario::new("network", 250, 25_000, network)],
    }
}

pub struct Net {
    pub nodes: Vec<GNode<F>>,
    pub adj: BTreeSet<(usize, usize)>,
    pub queues: BTreeMap<(usize, usize), VecDeque<Vec<u8>>>,
    pub stalled: BTreeSet<usize>,
    /// (message data) -> (receiver idx -> first sender idx)
    pub first_from: BTreeMap<Vec<u8>, BTreeMap<usize, usize>>,
    pub source_of: BTreeMap<Vec<u8>, usize>,
    /// (message data) -> (receiver idx -> every sender it got a copy from so far)
    pub received_from: BTreeMap<Vec<u8>, BTreeMap<usize, BTreeSet<usize>>>,
    /// nodes whose application validates messages itself (validate_messages): the harness reports Accept later
    pub validates: Vec<bool>,
    /// (node, message id, propagation source) waiting for the application's verdict
    pub pending_validation: VecDeque<(usize, Vec<u8>, PeerId)>,
    pub scanned: Vec<usize>,
    /// (time, sender, receiver) of every GRAFT delivered
    pub grafts: Vec<(Duration, usize, usize)>,
    /// (message data) -> (node -> time it first held the message: published or received)
    pub held_since: BTreeMap<Vec<u8>, BTreeMap<usize, Duration>>,
    pub wire_violation: Option<Violation>,
    pub hops: u64,
    /// messages carry no source (Anonymous mode): forwarders cannot know the publisher
    pub anonymous: bool,
}

impl Net {
    pub fn idx_of(&self, p: &PeerId) -> Option<usize> {
        self.nodes.iter().position(|n| &n.peer == p)
    }
    pub fn link(&mut self, a: usize, b: usize) {
        if a == b || self.adj.contains(&(a.min(b), a.max(b))) {
            return;
        }
        self.adj.insert((a.min(b), a.max(b)));
        let (pa, pb) = (self.nodes[a].peer, self.nodes[b].peer);
        self.nodes[a].connect(pb, b, true, Some(4));
        self.nodes[b].connect(pa, a, false, Some(4));
    }
    pub fn unlink(&mut self, a: usize, b: usize) {
        if !self.adj.remove(&(a.min(b), a.max(b))) {
            return;
        }
        let (pa, pb) = (self.nodes[a].peer, self.nodes[b].peer);
        self.nodes[a].disconnect_all(pb, b);
        self.nodes[b].disconnect_all(pa, a);
        self.queues.remove(&(a, b));
        self.queues.remove(&(b, a));
    }
    /// move everything the behaviours queued onto the link queues
    pub fn collect(&mut self) {
        let pairs: Vec<(usize, usize)> = self.adj.iter().flat_map(|(a, b)| [(*a, *b), (*b, *a)]).collect();
        for (a, b) in pairs {
            let pb = self.nodes[b].peer;
            let frames = self.nodes[a].drain(&pb);
            // wire oracle, evaluated when the frame is *queued* (frames already in flight when the
            // message arrives from the other side are not "sending back")
            for f in &frames {
                if let Some(v) = view_frame(f) {
                    for m in &v.messages {
                        if let Some(src) = self.source_of.get(&m.data) {
                            if *src == b && !self.anonymous && self.wire_violation.is_none() {
                                self.wire_violation = Some(violation!("C27/sent-to-source", "n{a} sent message {:?} to n{b}, which is its source (publisher)", String::from_utf8_lossy(&m.data)));
                            }
                        }
                        if let Some(ff) = self.first_from.get(&m.data) {
                            if ff.get(&a) == Some(&b) && self.source_of.get(&m.data) != Some(&a) && self.wire_violation.is_none() {
                                self.wire_violation = Some(violation!("C27/sent-back", "n{a} queued message {:?} for n{b}, the peer it first received it from", String::from_utf8_lossy(&m.data)));
                            }
                        }
                        if let Some(rf) = self.received_from.get(&m.data) {
                            if rf.get(&a).map(|s| s.contains(&b)).unwrap_or(false) && self.source_of.get(&m.data) != Some(&a) && self.wire_violation.is_none() {
                                self.wire_violation = Some(violation!("C27/sent-back-to-duplicate-sender", "n{a} queued message {:?} for n{b}, which had already sent n{a} a copy (n{a} validates: {})", String::from_utf8_lossy(&m.data), self.validates[a]));
                            }
                        }
                    }
                }
            }
            if !frames.is_empty() {
                self.queues.entry((a, b)).or_default().extend(frames);
            }
        }
    }
    /// deliver one frame from a schedule-chosen non-empty link; false if nothing deliverable
    pub fn deliver_one(&mut self) -> bool {
        let cands: Vec<(usize, usize)> = self.queues.iter().filter(|(k, q)| !q.is_empty() && !self.stalled.contains(&k.1)).map(|(k, _)| *k).collect();
        if cands.is_empty() {
            return false;
        }
        let (a, b) = cands[choose(cands.len())];
        let frame = self.queues.get_mut(&(a, b)).unwrap().pop_front().unwrap();
        let pa = self.nodes[a].peer;
        let view = self.nodes[b].deliver(pa, &frame);
        trace!("wire n{a} -> n{b}: {}", view.as_ref().map(|v| format!("msgs {:?} subs {:?} ctl {:?}", v.messages.iter().map(|m| String::from_utf8_lossy(&m.data).to_string()).collect::<Vec<_>>(), v.subscriptions, v.controls.iter().map(|c| format!("{}:{:?}:{:?}", c.kind, c.topic, c.backoff)).collect::<Vec<_>>())).unwrap_or_else(|| "REJECTED".into()));
        if let Some(v) = view {
            if v.controls.iter().any(|c| c.kind == "graft") {
                self.grafts.push((elapsed(), a, b));
            }
            for m in v.messages.iter().chain(v.invalid_messages.iter().map(|(m, _)| m)) {
                self.hops += 1;
                self.first_from.entry(m.data.clone()).or_default().entry(b).or_insert(a);
                self.received_from.entry(m.data.clone()).or_default().entry(b).or_default().insert(a);
                self.held_since.entry(m.data.clone()).or_default().entry(b).or_insert(elapsed());
            }
        }
        true
    }
    /// queue the verdicts the validating applications owe for newly surfaced messages
    fn scan_for_validation(&mut self) {
        for i in 0..self.nodes.len() {
            let evs = self.nodes[i].evs.borrow();
            for (_, e) in evs.iter().skip(self.scanned[i]) {
                if let GEv::Message { id, propagation_source, .. } = e {
                    if self.validates[i] {
                        self.pending_validation.push_back((i, id.clone(), *propagation_source));
                    }
                }
            }
            self.scanned[i] = evs.len();
        }
    }
    fn validate_one(&mut self) {
        if let Some((i, id, src)) = self.pending_validation.pop_front() {
            probe("delayed-validation-accept");
            self.nodes[i].beh.borrow_mut().report_message_validation_result(&gs::MessageId::new(&id), &src, gs::MessageAcceptance::Accept);
            self.nodes[i].kick();
        }
    }
    pub fn pump(&mut self, max: usize) {
        for _ in 0..max {
            run_until_idle();
            self.scan_for_validation();
            // the application's verdict arrives some deliveries later
            if !self.pending_validation.is_empty() && choose(3) == 0 {
                self.validate_one();
                run_until_idle();
            }
            self.collect();
            if !self.deliver_one() {
                if self.pending_validation.is_empty() {
                    break;
                }
                self.validate_one();
            }
        }
        run_until_idle();
        self.scan_for_validation();
        while !self.pending_validation.is_empty() {
            self.validate_one();
            run_until_idle();
            self.scan_for_validation();
        }
        self.collect();
    }
    pub fn connected_component(&self, from: usize) -> BTreeSet<usize> {
        let mut seen = BTreeSet::from([from]);
        let mut stack = vec![from];
        while let Some(x) = stack.pop() {
            for (a, b) in &self.adj {
                let y = if *a == x { *b } else if *b == x { *a } else { continue };
                if seen.insert(y) {
                    stack.push(y);
                }
            }
        }
        seen
    }
}

/// Decode a wire frame for inspection (real codec, no validation, no limits).
pub fn view_frame(frame: &[u8]) -> Option<gv::DecodedRpc> {
    use asynchronous_codec::Decoder;
    let mut codec = gv::codec(usize::MAX / 4, gs::ValidationMode::None, Default::default(), usize::MAX / 4, usize::MAX / 4);
    let mut buf = bytes::BytesMut::from(frame);
    match codec.decode(&mut buf) {
        Ok(Some(ev)) => gv::view_handler_event(&ev),
        _ => None,
    }
}

fn mk_node(idx: usize, anonymous: bool, flood: bool, mesh: (usize, usize, usize), validates: bool) -> GNode<F> {
    let key = Keypair::generate_ed25519();
    let mut cb = gs::ConfigBuilder::default();
    cb.flood_publish(flood).mesh_n_low(mesh.0).mesh_n(mesh.1).mesh_n_high(mesh.2).mesh_outbound_min(mesh.0.min(mesh.1 / 2).min(1));
    if validates {
        cb.validate_messages();
    }
    // short backoffs: the final phase promises delivery only once the meshes had time to settle, i.e. after
    // every backoff started while faults were flowing (also the full PRUNE backoff a delayed GRAFT earns) has run out
    cb.prune_backoff(Duration::from_secs(3)).unsubscribe_backoff(Duration::from_secs(2)).graft_flood_threshold(Duration::from_secs(1));
    if anonymous {
        cb.validation_mode(gs::ValidationMode::Anonymous);
        // content-addressed ids (needed without source/seqno)
        cb.message_id_fn(|m: &gs::Message| gs::MessageId::from(m.data.clone()));
    }
    let config = cb.build().expect("config");
    let auth = if anonymous { gs::MessageAuthenticity::Anonymous } else { gs::MessageAuthenticity::Signed(key.clone()) };
    let beh: Beh<F> = gs::Behaviour::new_with_subscription_filter(auth, config.clone(), gs::AllowAllSubscriptionFilter {}).expect("behaviour");
    GNode::from_behaviour(idx, key, config, beh)
}

fn network() -> SimResult {
    reset_ids();
    draw_policy();
    let n = 3 + choose(8);
    let anonymous = choose(3) == 0;
    let flood = choose(2) == 0;
    let mesh = [(1usize, 2usize, 3usize), (2, 3, 4), (4, 6, 12), (5, 6, 12)][choose(4)];
    note_val("n", n as u64);
    note_val("cfg", anonymous as u64 + 2 * flood as u64 + 4 * mesh.1 as u64);
    let validating_run = choose(3) == 0;
    let validates: Vec<bool> = (0..n).map(|_| validating_run && choose(2) == 0).collect();
    let mut net = Net { nodes: (0..n).map(|i| mk_node(i, anonymous, flood, mesh, validates[i])).collect(), adj: BTreeSet::new(), queues: BTreeMap::new(), stalled: BTreeSet::new(), first_from: BTreeMap::new(), source_of: BTreeMap::new(), received_from: BTreeMap::new(), validates, pending_validation: VecDeque::new(), scanned: vec![0; n], grafts: vec![], held_since: BTreeMap::new(), wire_violation: None, hops: 0, anonymous };
    let topic = gs::IdentTopic::new("t");
    // random connected topology: spanning tree + extra edges
    for i in 1..n {
        let j = choose(i);
        net.link(i, j);
    }
    for _ in 0..choose(2 * n) {
        let (a, b) = (choose(n), choose(n));
        net.link(a, b);
    }
    let hb = Duration::from_secs(1);
    let mut subscribed: BTreeSet<usize> = BTreeSet::new();
    for i in 0..n {
        if choose(5) != 0 {
            net.nodes[i].beh.borrow_mut().subscribe(&topic).unwrap();
            subscribed.insert(i);
        }
    }
    net.pump(4000);
    let mut msg_no = 0u64;
    let mut published: Vec<(Vec<u8>, usize, bool)> = vec![]; // (data, publisher, in final phase)
    let mut publish = |net: &mut Net, from: usize, fin: bool, msg_no: &mut u64| {
        *msg_no += 1;
        let data = format!("m{}-from-n{from}", *msg_no).into_bytes();
        let r = net.nodes[from].beh.borrow_mut().publish(gs::IdentTopic::new("t"), data.clone());
        net.nodes[from].kick();
        if r.is_ok() {
            net.source_of.insert(data.clone(), from);
            net.held_since.entry(data.clone()).or_default().entry(from).or_insert(elapsed());
            published.push((data, from, fin));
        }
        r.is_ok()
    };
    // ---- phase 1: workload with faults
    let rounds = 4 + choose(10);
    for _ in 0..rounds {
        for _ in 0..choose(4) {
            let a = choose(n);
            let b = choose(n);
            match choose(9) {
                0..=2 => {
                    publish(&mut net, a, false, &mut msg_no);
                    note("publish");
                }
                3 => {
                    if subscribed.contains(&a) {
                        net.nodes[a].beh.borrow_mut().unsubscribe(&topic);
                        subscribed.remove(&a);
                    } else {
                        net.nodes[a].beh.borrow_mut().subscribe(&topic).unwrap();
                        subscribed.insert(a);
                    }
                    net.nodes[a].kick();
                    note("sub-toggle");
                }
                4 => {
                    if fault("link_reset", 400) && net.adj.contains(&(a.min(b), a.max(b))) {
                        net.unlink(a, b);
                        net.pump(200);
                        net.link(a, b);
                    }
                }
                5 => {
                    if fault("partition", 300) {
                        // cut a random node off, heal later
                        let edges: Vec<(usize, usize)> = net.adj.iter().filter(|(x, y)| *x == a || *y == a).copied().collect();
                        for (x, y) in &edges {
                            net.unlink(*x, *y);
                        }
                        net.pump(300);
                        advance(hb * (1 + choose(3) as u32));
                        net.pump(300);
                        for (x, y) in edges {
                            net.link(x, y);
                        }
                    }
                }
                6 => {
                    if fault("node_stalled", 300) {
                        net.stalled.insert(a);
                    }
                }
                7 => {
                    net.stalled.clear();
                }
                _ => {
                    if fault("heartbeat_delayed", 300) {
                        starve(net.nodes[a].unit, true);
                    }
                }
            }
            net.pump(50 + choose(300));
        }
        advance(hb);
        net.pump(2000);
        for nd in &net.nodes {
            starve(nd.unit, false);
        }
    }
    // ---- faults stop
    net.stalled.clear();
    for i in 1..n {
        // make sure the topology is connected again
        if !net.connected_component(0).contains(&i) {
            net.link(i, 0);
        }
    }
    // the statement is about a connected network of *subscribed* nodes: everybody subscribes now
    for i in 0..n {
        if !subscribed.contains(&i) {
            net.nodes[i].beh.borrow_mut().subscribe(&topic).unwrap();
            net.nodes[i].kick();
            subscribed.insert(i);
        }
    }
    for _ in 0..10 {
        advance(hb);
        net.pump(5000);
    }
    // ---- final phase: every subscriber must get these exactly once
    let final_start = elapsed();
    let final_msgs = 1 + choose(3);
    for _ in 0..final_msgs {
        let from = choose(n);
        publish(&mut net, from, true, &mut msg_no);
        net.pump(choose(500));
    }
    for _ in 0..6 {
        advance(hb);
        net.pump(5000);
    }
    if let Some(v) = net.wire_violation.take() {
        return Err(v);
    }
    // ---- oracles over application events
    let mut multi_hop = false;
    for (i, nd) in net.nodes.iter().enumerate() {
        let evs = nd.evs.borrow();
        let mut seen: BTreeMap<Vec<u8>, usize> = BTreeMap::new();
        for (_, e) in evs.iter() {
            if let GEv::Message { data, propagation_source, .. } = e {
                *seen.entry(data.clone()).or_insert(0) += 1;
                if let Some(src) = net.source_of.get(data) {
                    ensure!(*src != i, "C27/delivered-to-publisher", "n{i} published {:?} and got it delivered back from {propagation_source}", String::from_utf8_lossy(data));
                    if net.idx_of(propagation_source) != Some(*src) {
                        multi_hop = true;
                    }
                }
            }
        }
        for (d, c) in &seen {
            ensure!(*c == 1, "C27/duplicate-delivery", "n{i}'s application received message {:?} {c} times within the duplicate-cache lifetime", String::from_utf8_lossy(d));
        }
        for (data, from, fin) in &published {
            if *fin && *from != i && subscribed.contains(&i) {
                // A peer that is grafted into a mesh right after its new mesh neighbour forwarded the message gets neither
                // the forward nor (being a mesh peer now) the IHAVE gossip: the protocol itself does not promise delivery
                // across a mesh change. Only judged for nodes whose mesh links did not change during the final phase.
                // So a miss is charged only when some neighbour held the message for at least 4 heartbeats and the mesh
                // relation between the two did not change during the final phase: then either the neighbour forwarded it
                // (mesh link) or announced it by IHAVE (no mesh link) and it must have arrived.
                if !seen.contains_key(data) {
                    let end = elapsed();
                    let owes = net.adj.iter().filter_map(|(a, b)| if *a == i { Some(*b) } else if *b == i { Some(*a) } else { None }).any(|j| {
                        let held = net.held_since.get(data).and_then(|h| h.get(&j)).map(|t| *t + hb * 4 <= end).unwrap_or(false);
                        let changed = net.grafts.iter().any(|(t, a, b)| *t >= final_start && ((*a == i && *b == j) || (*a == j && *b == i)));
                        held && !changed
                    });
                    if !owes {
                        probe("delivery-excused-by-concurrent-graft");
                        continue;
                    }
                }
                ensure!(seen.contains_key(data), "C27/not-delivered", "message {:?} published by n{from} after faults stopped never reached subscriber n{i} within 6 heartbeats (n={n}, edges={:?}, subscribed={subscribed:?}, mesh of n{i}: {:?})", String::from_utf8_lossy(data), net.adj, nd.beh.borrow().mesh_peers(&topic.hash()).count());
            }
        }
        if !subscribed.contains(&i) {
            for (data, _, fin) in &published {
                if *fin {
                    ensure!(!seen.contains_key(data), "C27/delivered-to-non-subscriber", "n{i} is not subscribed but its application received {:?}", String::from_utf8_lossy(data));
                }
            }
        }
    }
    if multi_hop {
        mark_nontrivial();
        probe("multi_hop_delivery");
    }
    set_sample(|| format!("n={n} edges={} anonymous={anonymous} flood_publish={flood} mesh={mesh:?}: {} messages published ({} in the final phase), {} message hops on the wire, subscribed {subscribed:?}", net.adj.len(), published.len(), published.iter().filter(|p| p.2).count(), net.hops));
    let _ = gv::peer_kind_event;
    Ok(())
}
