#![allow(dead_code)]
//! E3 — single real NetworkBehaviours (and small networks of them) with the simulator playing
//! Swarm, connection handlers, peers and clock.
simkit::interpose_getrandom!();

mod gnet;
mod gnode;
mod gmisc;
mod gproto;
mod kadds;
mod gsingle;

fn main() {
    let mut cs = vec![gnet::check()];
    cs.extend(gsingle::checks());
    cs.extend(gmisc::checks());
    cs.extend(kadds::checks());
    simkit::main_with(cs);
}
