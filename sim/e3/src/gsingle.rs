//! C28 / C29 / C32 / C35 / C36 — one real gossipsub `Behaviour` surrounded by scripted peers.
//! The peers talk to it in wire frames (hand-encoded protobuf, decoded by the real codec), the
//! harness plays Swarm + handlers, the virtual clock drives the heartbeat. After every operation the
//! behaviour's public views (mesh_peers, all_peers, peer_protocol, peer_score) and the RPCs it queued
//! are compared with a small reference model.
use crate::gnet::view_frame;
use crate::gnode::*;
use crate::gproto::Rpc;
use libp2p_gossipsub as gs;
use libp2p_gossipsub::verif as gv;
use libp2p_gossipsub::TopicSubscriptionFilter;
use libp2p_identity::{Keypair, PeerId};
use libp2p_swarm::ConnectionId;
use simkit::*;
use std::collections::{BTreeMap, BTreeSet, HashSet};
use std::time::Duration;

/// This scenario evaluates clauses of several properties in sequence. A failing clause of another property must not end the
/// evaluation (the running check would drop it and never reach its own clauses): it is recorded and the evaluation goes on.
macro_rules! ensure {
    ($cond:expr, $clause:expr, $($arg:tt)*) => {
        if !($cond) {
            let v = simkit::Violation { clause: ($clause).to_string(), detail: format!($($arg)*) };
            if simkit::ctx::clause_is_foreign(&v.clause) {
                simkit::soft_violation(v);
            } else {
                return Err(v);
            }
        }
    };
}


const RULE: &str = "One real gossipsub Behaviour (drawn mesh parameters, prune/unsubscribe backoff, slack, flood_publish, peer scoring on/off, explicit peers, one of five subscription filters) and 4..11 scripted peers of every protocol kind (floodsub, gossipsub 1.0-1.3; inbound/outbound; up to two connections). Seeded operation sequence of 20..120 steps: connect, disconnect, SUBSCRIBE/UNSUBSCRIBE RPCs (also oversized and duplicated), GRAFT, PRUNE with drawn backoff, local subscribe/unsubscribe/publish, application scores, explicit-peer changes, heartbeats (virtual clock). After every step the public views and the queued RPCs (decoded with the real codec) are checked against the reference model";

fn mk(id: &'static str, title: &'static str, extra: &'static str) -> Check {
    let rule: &'static str = Box::leak(format!("{RULE}. {extra}").into_boxed_str());
    Check {
        id,
        title,
        level: Level::Exploration,
        rule,
        assumptions: &["connection handlers and the Swarm are stubs (the harness moves wire frames between the behaviour's per-peer send queues and on_connection_handler_event); a handler reports the peer kind before the first RPC, as the real handler does"],
        real: &["libp2p_gossipsub::Behaviour (mesh, fanout, backoff, subscription filter, scoring, heartbeat)", "GossipsubCodec encode/decode"],
        stub: &["Swarm + connection handlers -> harness", "remote peers -> scripted wire frames", "clock -> virtual"],
        scenarios: vec![Scenario::new("mesh-single", 400, 40_000, mesh_single).profiles(simkit::runner::NO_FAULTS)],
    }
}

pub fn checks() -> Vec<Check> {
    let mut c28 = mk("C28", "Gossipsub mesh membership respects eligibility rules", "C28: every mesh member is connected, of a gossipsub kind, tracked as subscribed to the topic and not explicit; a peer entering a mesh in a step is not backed off in the model, not negatively scored, not explicit; an inbound GRAFT to a full mesh (mesh_n_high), during backoff or with negative score is refused with a PRUNE. Non-trivial = at least one GRAFT was refused and one accepted");
    let c29 = mk("C29", "Connection handlers know whether their peer is in a mesh", "C29: folding the JoinedMesh/LeftMesh notifications per connection, after every step some live connection of a peer believes 'in mesh' iff the peer is in at least one topic mesh (also across a second connection, the closing of the notified connection, unsubscribe and disconnect)");
    let mut c32 = mk("C32", "Gossipsub backoff is never shortened", "C32: the model keeps expiry(topic,peer) = max over all backoff updates (PRUNE sent with backoff b, PRUNE received with backoff b or none) of time+b; no peer enters a mesh and no GRAFT is accepted before expiry, a GRAFT before expiry is answered with PRUNE (and a score penalty when scoring is on); after the last expiry plus slack plus one rotation of the backoff wheel no pair is reported backed off any more. Second scenario drives the real BackoffStorage alone with random update/heartbeat/time sequences against the same model");
    c32.scenarios.push(Scenario::new("backoff-storage", 400, 40_000, backoff_storage).profiles(simkit::runner::NO_FAULTS));
    let c35 = mk("C35", "Publishing without a subscription keeps its fanout peers", "C35: in every step that is not a heartbeat, each fanout peer of a topic that is still connected, still tracked as subscribed and not negatively scored is still in that topic's fanout set afterwards (publishing only adds); in a heartbeat step an eligible fanout peer stays as long as the node published to the topic less than fanout_ttl ago");
    let c36 = mk("C36", "Subscription filters bound what peers can make us track", "C36: after every step each peer's tracked topic set (all_peers) is a subset of what the filter allows and within max_subscribed_topics; a SUBSCRIBE/UNSUBSCRIBE request is applied exactly as the reference filter says (requests over max_subscriptions_per_request or over the topic budget change nothing, accepted ones are applied)");
    c28.title = "Gossipsub mesh membership respects eligibility rules";
    vec![c28, c29, c32, c35, c36]
}

const TOPICS: [&str; 6] = ["t0", "t1", "t2", "t3", "t4", "t5"];

#[derive(Clone, Debug)]
struct FilterModel {
    allowed: Option<BTreeSet<String>>,
    max_topics: Option<usize>,
    max_req: Option<usize>,
}

impl FilterModel {
    fn allows(&self, t: &str) -> bool {
        self.allowed.as_ref().map(|a| a.contains(t)).unwrap_or(true)
    }
}

struct PeerM {
    idx: usize,
    peer: PeerId,
    kind: u8,
    outbound: bool,
    tracked: BTreeSet<String>,
}

fn whitelist(ts: &[&str]) -> gs::WhitelistSubscriptionFilter {
    gs::WhitelistSubscriptionFilter(ts.iter().map(|t| gs::TopicHash::from_raw(*t)).collect::<HashSet<_>>())
}

fn mesh_single() -> SimResult {
    let (max_topics, max_req) = (2 + choose(3), 2 + choose(3));
    match choose(6) {
        0 | 1 => run(gs::AllowAllSubscriptionFilter {}, FilterModel { allowed: None, max_topics: None, max_req: None }),
        2 => run(whitelist(&TOPICS[..4]), FilterModel { allowed: Some(TOPICS[..4].iter().map(|s| s.to_string()).collect()), max_topics: None, max_req: None }),
        3 => run(gs::MaxCountSubscriptionFilter { filter: gs::AllowAllSubscriptionFilter {}, max_subscribed_topics: max_topics, max_subscriptions_per_request: max_req }, FilterModel { allowed: None, max_topics: Some(max_topics), max_req: Some(max_req) }),
        4 => run(gs::MaxCountSubscriptionFilter { filter: whitelist(&TOPICS[..4]), max_subscribed_topics: max_topics, max_subscriptions_per_request: max_req }, FilterModel { allowed: Some(TOPICS[..4].iter().map(|s| s.to_string()).collect()), max_topics: Some(max_topics), max_req: Some(max_req) }),
        _ => run(
            gs::CombinedSubscriptionFilters { filter1: whitelist(&TOPICS[..4]), filter2: gs::CallbackSubscriptionFilter(|t: &gs::TopicHash| t.as_str() != "t1") },
            FilterModel { allowed: Some(["t0", "t2", "t3"].iter().map(|s| s.to_string()).collect()), max_topics: None, max_req: None },
        ),
    }
}

struct Snap {
    mesh: BTreeMap<String, BTreeSet<PeerId>>,
    tracked: BTreeMap<PeerId, BTreeSet<String>>,
    fanout: BTreeMap<String, BTreeSet<PeerId>>,
    explicit: BTreeSet<PeerId>,
    score: BTreeMap<PeerId, f64>,
}

fn snap<F: TopicSubscriptionFilter + Send + 'static>(node: &GNode<F>, peers: &[PeerM]) -> Snap {
    let b = node.beh.borrow();
    let mut mesh = BTreeMap::new();
    let mut fanout = BTreeMap::new();
    for t in TOPICS {
        let th = gs::TopicHash::from_raw(t);
        let m: BTreeSet<PeerId> = b.mesh_peers(&th).copied().collect();
        if !m.is_empty() {
            mesh.insert(t.to_string(), m);
        }
        let f: BTreeSet<PeerId> = b.verif_fanout_peers(&th).into_iter().collect();
        if !f.is_empty() {
            fanout.insert(t.to_string(), f);
        }
    }
    let tracked = b.all_peers().map(|(p, ts)| (*p, ts.into_iter().map(|t| t.as_str().to_owned()).collect())).collect();
    let explicit = b.verif_explicit_peers().into_iter().collect();
    let score = peers.iter().filter_map(|p| b.peer_score(&p.peer).map(|s| (p.peer, s))).collect();
    Snap { mesh, tracked, fanout, explicit, score }
}

#[derive(Debug, Clone)]
enum Op {
    Connect(usize),
    Disconnect(usize, usize),
    Subs(usize, Vec<(bool, String)>),
    Graft(usize, Vec<String>),
    Prune(usize, String, Option<u64>),
    LocalSub(String),
    LocalUnsub(String),
    Publish(String),
    Score(usize, f64),
    Explicit(usize, bool),
    Heartbeat,
}

fn run<F: TopicSubscriptionFilter + Send + 'static>(filter: F, fm: FilterModel) -> SimResult {
    reset_ids();
    draw_policy();
    let hb = Duration::from_secs(1);
    let (lo, n, hi, out_min) = [(1usize, 2usize, 3usize, 0usize), (2, 3, 4, 1), (4, 6, 12, 2), (2, 2, 2, 1), (1, 1, 1, 0), (0, 1, 2, 0)][choose(6)];
    let prune_backoff = 2 + choose(10) as u64;
    let unsub_backoff = 1 + choose(5) as u64;
    let slack = choose(3) as u32;
    let flood = choose(3) == 0;
    let scoring = choose(2) == 0;
    let key = Keypair::generate_ed25519();
    let fanout_ttl = Duration::from_secs([2u64, 3, 5, 8, 20, 35][choose(6)]);
    let mut cb = gs::ConfigBuilder::default();
    cb.heartbeat_interval(hb)
        .heartbeat_initial_delay(hb)
        .mesh_n_low(lo)
        .mesh_n(n)
        .mesh_n_high(hi)
        .mesh_outbound_min(out_min)
        .prune_backoff(Duration::from_secs(prune_backoff))
        .unsubscribe_backoff(Duration::from_secs(unsub_backoff))
        .backoff_slack(slack)
        .flood_publish(flood)
        .fanout_ttl(fanout_ttl)
        .validation_mode(gs::ValidationMode::Permissive);
    if choose(3) == 0 {
        cb.do_px().prune_peers(3);
    }
    if choose(2) == 0 {
        // opportunistic grafting on every 1st..3rd heartbeat instead of every 60th, so that this branch of the heartbeat runs
        cb.opportunistic_graft_ticks(1 + choose(3) as u64).opportunistic_graft_peers(1 + choose(3));
    }
    let config = cb.build().map_err(|e| violation!("harness/config", "{e:?}"))?;
    let mut beh: Beh<F> = gs::Behaviour::new_with_subscription_filter(gs::MessageAuthenticity::Signed(key.clone()), config.clone(), filter).map_err(|e| violation!("harness/behaviour", "{e}"))?;
    let graylist = -80.0;
    if scoring {
        let params = gs::PeerScoreParams { app_specific_weight: 1.0, behaviour_penalty_weight: -1.0, behaviour_penalty_threshold: 0.0, behaviour_penalty_decay: 0.9, ..Default::default() };
        beh.with_peer_score(params, gs::PeerScoreThresholds::default()).map_err(|e| violation!("harness/score", "{e}"))?;
    }
    note_val("cfg", (lo + 4 * n + 64 * hi) as u64 + 1000 * (flood as u64) + 2000 * (scoring as u64) + 4000 * slack as u64);
    note_val("filter", fm.allowed.as_ref().map(|a| a.len()).unwrap_or(9) as u64 + 16 * fm.max_topics.unwrap_or(0) as u64);
    let mut node = GNode::from_behaviour(0, key, config.clone(), beh);
    let k = 4 + choose(8);
    let mut peers: Vec<PeerM> = (0..k)
        .map(|i| {
            let key = Keypair::generate_ed25519();
            PeerM { idx: i + 1, peer: key.public().to_peer_id(), kind: [1u8, 2, 3, 3, 4, 5, 5][choose(7)], outbound: choose(2) == 0, tracked: BTreeSet::new() }
        })
        .collect();
    // explicit peers configured up front (as the API intends), before any connection exists
    for p in peers.iter() {
        if choose(8) == 0 {
            node.beh.borrow_mut().add_explicit_peer(&p.peer);
        }
    }
    run_until_idle();
    node.evs.borrow_mut().clear();

    let mut my_subs: BTreeSet<String> = BTreeSet::new();
    let mut belief: BTreeMap<(PeerId, ConnectionId), bool> = BTreeMap::new();
    let mut expiry: BTreeMap<(String, PeerId), Duration> = BTreeMap::new();
    let mut msg_no = 0u64;
    // when the node last published to a topic through its fanout (not subscribed, no flood publishing)
    let mut last_fanout_pub: BTreeMap<String, Duration> = BTreeMap::new();
    let steps = 20 + choose(100);
    let (mut refused, mut accepted, mut fanout_kept, mut rejected_reqs) = (0u32, 0u32, 0u32, 0u32);

    let idx_of = |peers: &[PeerM], p: &PeerId| peers.iter().position(|x| x.peer == *p);
    let mut step = 0usize;
    loop {
        // ---- pick the operation -------------------------------------------------------------
        let op = if step >= steps {
            // after the last drawn operation: regular heartbeats until every backoff has expired and must be forgotten
            let last = expiry.values().max().copied().unwrap_or(Duration::ZERO);
            let wheel = (prune_backoff as usize) + 2 * slack as usize + 3;
            if elapsed() >= last + hb * wheel as u32 || step > steps + 400 {
                break;
            }
            Op::Heartbeat
        } else {
            let connected: Vec<usize> = (0..k).filter(|i| node.conns.get(&peers[*i].peer).map(|v| !v.is_empty()).unwrap_or(false)).collect();
            let w = choose(100);
            if connected.is_empty() || w < 12 {
                Op::Connect(choose(k))
            } else if w < 17 {
                let i = connected[choose(connected.len())];
                let nconn = node.conns[&peers[i].peer].len();
                Op::Disconnect(i, choose(nconn))
            } else if w < 37 {
                let i = connected[choose(connected.len())];
                let cnt = match choose(10) {
                    0 => 5 + choose(3),
                    _ => 1 + choose(3),
                };
                let dup = choose(12) == 0;
                let mut subs = vec![];
                let mut used = BTreeSet::new();
                for _ in 0..cnt {
                    let t = TOPICS[choose(TOPICS.len())];
                    if !dup && !used.insert(t) {
                        continue;
                    }
                    subs.push((choose(4) != 0, t.to_string()));
                }
                Op::Subs(i, subs)
            } else if w < 52 {
                let i = connected[choose(connected.len())];
                let mut ts = vec![TOPICS[choose(TOPICS.len())].to_string()];
                if choose(4) == 0 {
                    ts.push(TOPICS[choose(TOPICS.len())].to_string());
                }
                Op::Graft(i, ts)
            } else if w < 60 {
                let i = connected[choose(connected.len())];
                let b = match choose(4) {
                    0 => None,
                    1 => Some(0),
                    _ => Some(choose(2 * prune_backoff as usize + 1) as u64),
                };
                Op::Prune(i, TOPICS[choose(TOPICS.len())].to_string(), b)
            } else if w < 67 {
                Op::LocalSub(TOPICS[choose(TOPICS.len())].to_string())
            } else if w < 71 {
                Op::LocalUnsub(TOPICS[choose(TOPICS.len())].to_string())
            } else if w < 79 {
                Op::Publish(TOPICS[choose(TOPICS.len())].to_string())
            } else if w < 84 {
                if scoring {
                    Op::Score(choose(k), [-30.0, -5.0, -1.0, 0.0, 3.0, 25.0][choose(6)])
                } else {
                    Op::Heartbeat
                }
            } else if w < 86 {
                Op::Explicit(choose(k), choose(2) == 0)
            } else {
                Op::Heartbeat
            }
        };
        step += 1;
        trace!("op {op:?}");
        let before = snap(&node, &peers);
        let now_before = elapsed();
        // ---- apply ---------------------------------------------------------------------------
        let mut c36_expect: Option<(usize, Option<BTreeSet<String>>)> = None; // (peer, Some(exact expected set) | None = rejected: unchanged)
        let mut c36_loose: Option<(usize, Vec<String>)> = None; // GRAFT: tracked may grow only by allowed graft topics
        let mut c36_dups = false;
        match &op {
            Op::Connect(i) => {
                let p = &peers[*i];
                let existing = node.conns.get(&p.peer).map(|v| v.len()).unwrap_or(0);
                if existing < 2 {
                    let c = node.connect(p.peer, p.idx, p.outbound ^ (existing == 1 && choose(2) == 0), Some(p.kind));
                    belief.insert((p.peer, c), false);
                    if existing == 1 {
                        probe("second-connection");
                    }
                }
            }
            Op::Disconnect(i, ci) => {
                let p = &peers[*i];
                let c = node.conns[&p.peer][*ci];
                node.disconnect(p.peer, p.idx, c);
                belief.remove(&(p.peer, c));
                if node.conns[&p.peer].is_empty() {
                    peers[*i].tracked.clear();
                } else {
                    probe("closed-one-of-two");
                }
            }
            Op::Subs(i, subs) => {
                let cur = peers[*i].tracked.clone();
                let distinct: BTreeSet<&String> = subs.iter().map(|s| &s.1).collect();
                c36_dups = distinct.len() != subs.len();
                let too_many = fm.max_req.map(|m| subs.len() > m).unwrap_or(false);
                let filtered: Vec<&(bool, String)> = subs.iter().filter(|s| fm.allows(&s.1)).collect();
                let new_sub = filtered.iter().filter(|s| s.0 && !cur.contains(&s.1)).count();
                let unsub = filtered.iter().filter(|s| !s.0 && cur.contains(&s.1)).count();
                let over = fm.max_topics.map(|m| new_sub + cur.len() > m + unsub).unwrap_or(false);
                if too_many || over {
                    c36_expect = Some((*i, None));
                    rejected_reqs += 1;
                } else {
                    let mut next = cur.clone();
                    for s in filtered {
                        if s.0 {
                            next.insert(s.1.clone());
                        } else {
                            next.remove(&s.1);
                        }
                    }
                    c36_expect = Some((*i, Some(next)));
                }
                let rpc = Rpc { subs: subs.clone(), ..Default::default() };
                let from = peers[*i].peer;
                node.deliver(from, &rpc.frame());
            }
            Op::Graft(i, ts) => {
                c36_loose = Some((*i, ts.clone()));
                let rpc = Rpc { graft: ts.clone(), ..Default::default() };
                let from = peers[*i].peer;
                node.deliver(from, &rpc.frame());
            }
            Op::Prune(i, t, b) => {
                let from = peers[*i].peer;
                let rpc = Rpc { prune: vec![(t.clone(), *b, vec![])], ..Default::default() };
                if node.deliver(from, &rpc.frame()).is_some() {
                    let graylisted = before.score.get(&from).map(|s| *s < graylist).unwrap_or(false);
                    if !graylisted {
                        let d = Duration::from_secs(b.map(|b| b.min(3600)).unwrap_or(prune_backoff));
                        let e = expiry.entry((t.clone(), from)).or_insert(Duration::ZERO);
                        *e = (*e).max(now_before + d);
                    }
                }
            }
            Op::LocalSub(t) => {
                if let Ok(true) = node.beh.borrow_mut().subscribe(&gs::IdentTopic::new(t.clone())) {
                    my_subs.insert(t.clone());
                }
                node.kick();
            }
            Op::LocalUnsub(t) => {
                if node.beh.borrow_mut().unsubscribe(&gs::IdentTopic::new(t.clone())) {
                    my_subs.remove(t);
                }
                node.kick();
            }
            Op::Publish(t) => {
                if !flood && !my_subs.contains(t) {
                    last_fanout_pub.insert(t.clone(), elapsed());
                }
                msg_no += 1;
                let _ = node.beh.borrow_mut().publish(gs::IdentTopic::new(t.clone()), format!("m{msg_no}").into_bytes());
                node.kick();
            }
            Op::Score(i, s) => {
                node.beh.borrow_mut().set_application_score(&peers[*i].peer, *s);
            }
            Op::Explicit(i, add) => {
                let p = peers[*i].peer;
                // only for peers that are in no mesh right now (explicit peering is configuration, see DESIGN)
                if before.mesh.values().all(|m| !m.contains(&p)) {
                    if *add {
                        node.beh.borrow_mut().add_explicit_peer(&p);
                    } else {
                        node.beh.borrow_mut().remove_explicit_peer(&p);
                    }
                    node.kick();
                }
            }
            Op::Heartbeat => {
                advance(hb);
            }
        }
        run_until_idle();
        let now = elapsed();
        // ---- collect what the behaviour did --------------------------------------------------
        for (_, ev) in node.evs.borrow_mut().drain(..) {
            if let GEv::Notify { peer, conn: Some(c), joined } = ev {
                if let Some(b) = belief.get_mut(&(peer, c)) {
                    *b = joined;
                }
            }
        }
        let mut pruned_to: BTreeSet<(String, PeerId)> = BTreeSet::new();
        let mut new_backoffs: Vec<((String, PeerId), Duration)> = vec![];
        for p in peers.iter() {
            if node.conns.get(&p.peer).map(|v| v.is_empty()).unwrap_or(true) {
                continue;
            }
            for frame in node.drain(&p.peer) {
                let Some(v) = view_frame(&frame) else {
                    return Err(violation!("harness/undecodable", "frame to peer {} does not decode", p.idx));
                };
                for c in v.controls {
                    if c.kind == "prune" {
                        let t = c.topic.clone().unwrap_or_default();
                        pruned_to.insert((t.clone(), p.peer));
                        if let Some(b) = c.backoff {
                            new_backoffs.push(((t, p.peer), now + Duration::from_secs(b)));
                        }
                    }
                }
            }
        }
        let after = snap(&node, &peers);
        let is_hb = matches!(op, Op::Heartbeat);
        trace!("  mesh {:?} fanout {:?}", after.mesh.iter().map(|(t, m)| (t.clone(), m.iter().filter_map(|p| idx_of(&peers, p)).map(|i| peers[i].idx).collect::<Vec<_>>())).collect::<Vec<_>>(), after.fanout.iter().map(|(t, m)| (t.clone(), m.iter().filter_map(|p| idx_of(&peers, p)).map(|i| peers[i].idx).collect::<Vec<_>>())).collect::<Vec<_>>());

        // ---- C28 / C32: mesh membership ------------------------------------------------------
        for (t, members) in &after.mesh {
            ensure!(my_subs.contains(t), "C28/mesh-for-unsubscribed-topic", "mesh for {t} has members {members:?} but the node is not subscribed (after {op:?})");
            for m in members {
                let Some(i) = idx_of(&peers, m) else {
                    return Err(violation!("C28/unknown-mesh-member", "mesh {t} contains unknown peer {m}"));
                };
                let connected = node.conns.get(m).map(|v| !v.is_empty()).unwrap_or(false);
                ensure!(connected, "C28/member-not-connected", "peer p{} is in mesh {t} but not connected (after {op:?})", peers[i].idx);
                ensure!(peers[i].kind >= 2, "C28/member-not-gossipsub", "peer p{} speaks floodsub only but is in mesh {t} (after {op:?})", peers[i].idx);
                ensure!(after.tracked.get(m).map(|s| s.contains(t)).unwrap_or(false), "C28/member-not-subscribed", "peer p{} is in mesh {t} but not tracked as subscribed to it (after {op:?})", peers[i].idx);
                ensure!(!after.explicit.contains(m), "C28/member-explicit", "explicit peer p{} is in mesh {t} (after {op:?})", peers[i].idx);
                let was = before.mesh.get(t).map(|s| s.contains(m)).unwrap_or(false);
                if !was {
                    // entered the mesh in this step
                    let exp = expiry.get(&(t.clone(), *m)).copied().unwrap_or(Duration::ZERO);
                    if exp > now {
                        // the same fact breaks C28 (eligibility) and C32 (backoff never shortened): report it under both
                        soft_violation(violation!("C28/added-while-backed-off", "peer p{} entered mesh {t} at {now:?} but is backed off until {exp:?} (op {op:?})", peers[i].idx));
                    }
                    ensure!(exp <= now, "C32/added-while-backed-off", "peer p{} entered mesh {t} at {now:?} but is backed off until {exp:?} (op {op:?})", peers[i].idx);
                    let (sb, sa) = (before.score.get(m).copied().unwrap_or(0.0), after.score.get(m).copied().unwrap_or(0.0));
                    ensure!(!(sb < 0.0 && sa < 0.0), "C28/added-negative-score", "peer p{} entered mesh {t} with score {sb} -> {sa} (op {op:?})", peers[i].idx);
                    ensure!(!before.explicit.contains(m), "C28/added-explicit", "explicit peer p{} entered mesh {t} (op {op:?})", peers[i].idx);
                }
            }
        }
        if let Op::Graft(i, ts) = &op {
            let p = peers[*i].peer;
            let sb = before.score.get(&p).copied().unwrap_or(0.0);
            let graylisted = sb < graylist;
            for t in ts.iter().collect::<BTreeSet<_>>() {
                let mb = before.mesh.get(t).cloned().unwrap_or_default();
                if !my_subs.contains(t) || before.explicit.contains(&p) || mb.contains(&p) || graylisted {
                    continue;
                }
                let exp = expiry.get(&(t.clone(), p)).copied().unwrap_or(Duration::ZERO);
                let backed_off = exp > now_before;
                let full = mb.len() >= hi;
                let in_after = after.mesh.get(t).map(|s| s.contains(&p)).unwrap_or(false);
                if backed_off || sb < 0.0 || full {
                    refused += 1;
                    let why = if backed_off { "C32/graft-accepted-in-backoff" } else if full { "C28/graft-accepted-full-mesh" } else { "C28/graft-accepted-negative-score" };
                    ensure!(!in_after, why, "GRAFT {t} from p{} accepted although backed_off={backed_off} (until {exp:?}, now {now_before:?}) score={sb} mesh size {} of mesh_n_high {hi}", peers[*i].idx, mb.len());
                    let why = if backed_off { "C32/graft-in-backoff-not-pruned" } else { "C28/refused-graft-not-pruned" };
                    // (a floodsub-only peer cannot be answered with a control message; ignoring it is the refusal)
                    ensure!(peers[*i].kind < 2 || pruned_to.contains(&(t.clone(), p)), why, "GRAFT {t} from p{} refused (backed_off={backed_off}, score={sb}, mesh {}/{hi}) but no PRUNE was sent", peers[*i].idx, mb.len());
                    if backed_off && scoring && peers[*i].kind >= 2 {
                        let sa = after.score.get(&p).copied().unwrap_or(0.0);
                        ensure!(sa < sb, "C32/graft-in-backoff-not-penalised", "GRAFT {t} from p{} during backoff: score {sb} -> {sa}, expected a penalty", peers[*i].idx);
                    }
                } else if in_after {
                    accepted += 1;
                }
            }
        }

        // a mesh peer that unsubscribes is dropped from the mesh and backed off for prune_backoff (no PRUNE is exchanged)
        if let Op::Subs(i, subs) = &op {
            let p = peers[*i].peer;
            for (sub, t) in subs {
                let was = before.mesh.get(t).map(|m| m.contains(&p)).unwrap_or(false);
                let is = after.mesh.get(t).map(|m| m.contains(&p)).unwrap_or(false);
                if !*sub && was && !is {
                    new_backoffs.push(((t.clone(), p), now + Duration::from_secs(prune_backoff)));
                }
            }
        }
        // backoffs the node started in this step (PRUNEs it sent) count from now on
        for (k2, e) in new_backoffs {
            let x = expiry.entry(k2).or_insert(Duration::ZERO);
            *x = (*x).max(e);
        }

        // ---- C29: handler belief -------------------------------------------------------------
        for p in peers.iter() {
            let conns = node.conns.get(&p.peer).cloned().unwrap_or_default();
            if conns.is_empty() {
                continue;
            }
            let in_mesh = after.mesh.values().any(|m| m.contains(&p.peer));
            let believers: Vec<ConnectionId> = conns.iter().copied().filter(|c| belief.get(&(p.peer, *c)).copied().unwrap_or(false)).collect();
            if in_mesh {
                ensure!(!believers.is_empty(), "C29/in-mesh-not-told", "p{} is in a mesh but none of its {} connection handler(s) was told JoinedMesh (after {op:?})", p.idx, conns.len());
            } else {
                ensure!(believers.is_empty(), "C29/not-in-mesh-still-believes", "p{} is in no mesh but handler(s) {believers:?} still believe JoinedMesh (after {op:?})", p.idx);
            }
            if conns.len() > 1 && in_mesh {
                probe("mesh-peer-with-two-connections");
            }
        }

        // ---- C35: fanout ---------------------------------------------------------------------
        // A heartbeat may expire a fanout set, but only fanout_ttl after the last publish to the topic: while the node keeps
        // publishing, the peers selected earlier stay.
        if is_hb {
            for (t, fb) in &before.fanout {
                let Some(lp) = last_fanout_pub.get(t) else { continue };
                if my_subs.contains(t) || *lp + fanout_ttl <= elapsed() {
                    continue;
                }
                for m in fb {
                    let connected = node.conns.get(m).map(|v| !v.is_empty()).unwrap_or(false);
                    let tracked = after.tracked.get(m).map(|s| s.contains(t)).unwrap_or(false);
                    let ok_score = after.score.get(m).map(|s| *s >= 0.0).unwrap_or(true) && before.score.get(m).map(|s| *s >= 0.0).unwrap_or(true);
                    if connected && tracked && ok_score {
                        let still = after.fanout.get(t).map(|s| s.contains(m)).unwrap_or(false);
                        ensure!(still, "C35/fanout-expired-while-publishing", "fanout peer p{:?} of {t} is still eligible and the node last published to {t} {:?} ago (fanout_ttl {fanout_ttl:?}), yet a heartbeat removed it from the fanout set (before {:?} after {:?})", idx_of(&peers, m).map(|i| peers[i].idx), elapsed() - *lp, fb.len(), after.fanout.get(t).map(|s| s.len()).unwrap_or(0));
                        probe("fanout-kept-across-heartbeat");
                    }
                }
            }
        }
        if !is_hb {
            for (t, fb) in &before.fanout {
                if my_subs.contains(t) {
                    continue; // joining moves fanout peers into the mesh
                }
                for m in fb {
                    let connected = node.conns.get(m).map(|v| !v.is_empty()).unwrap_or(false);
                    let tracked = after.tracked.get(m).map(|s| s.contains(t)).unwrap_or(false);
                    let ok_score = after.score.get(m).map(|s| *s >= 0.0).unwrap_or(true) && before.score.get(m).map(|s| *s >= 0.0).unwrap_or(true);
                    if connected && tracked && ok_score {
                        let still = after.fanout.get(t).map(|s| s.contains(m)).unwrap_or(false);
                        ensure!(still, "C35/fanout-peer-dropped", "fanout peer p{:?} of {t} is still connected, subscribed and scored >= 0 but left the fanout set outside a heartbeat (op {op:?}; before {:?} after {:?})", idx_of(&peers, m).map(|i| peers[i].idx), fb.len(), after.fanout.get(t).map(|s| s.len()).unwrap_or(0));
                        if matches!(op, Op::Publish(_)) {
                            fanout_kept += 1;
                        }
                    }
                }
            }
        }

        // ---- C36: tracked topics -------------------------------------------------------------
        for (i, p) in peers.iter_mut().enumerate() {
            let connected = node.conns.get(&p.peer).map(|v| !v.is_empty()).unwrap_or(false);
            let actual = after.tracked.get(&p.peer).cloned().unwrap_or_default();
            if !connected {
                continue;
            }
            for t in &actual {
                ensure!(fm.allows(t), "C36/tracked-not-allowed", "p{} is tracked as subscribed to {t}, which the subscription filter does not allow (after {op:?})", p.idx);
            }
            if let Some(m) = fm.max_topics {
                ensure!(actual.len() <= m, "C36/tracked-over-max", "p{} has {} tracked topics, max_subscribed_topics is {m} (after {op:?})", p.idx, actual.len());
            }
            match (&c36_expect, &c36_loose) {
                (Some((j, exp)), _) if *j == i && !c36_dups => match exp {
                    None => ensure!(actual == p.tracked, "C36/rejected-request-changed-state", "request {op:?} must be rejected by the filter but p{}'s tracked topics changed {:?} -> {actual:?}", p.idx, p.tracked),
                    Some(e) => ensure!(&actual == e, "C36/accepted-request-not-applied", "after {op:?} p{}'s tracked topics are {actual:?}, the filter semantics give {e:?} (was {:?})", p.idx, p.tracked),
                },
                (Some((j, _)), _) if *j == i => {}
                (_, Some((j, ts))) if *j == i => {
                    for t in actual.difference(&p.tracked) {
                        ensure!(ts.contains(t), "C36/tracked-grew-unasked", "p{} gained tracked topic {t} from {op:?}", p.idx);
                    }
                    ensure!(p.tracked.is_subset(&actual), "C36/graft-removed-topic", "p{} lost tracked topics on {op:?}", p.idx);
                }
                _ => ensure!(actual == p.tracked, "C36/tracked-changed-without-request", "p{}'s tracked topics changed {:?} -> {actual:?} without a request from it (op {op:?})", p.idx, p.tracked),
            }
            p.tracked = actual;
        }
    }
    // ---- C32: forgetting ------------------------------------------------------------------------
    {
        let b = node.beh.borrow();
        let wheel = (prune_backoff as usize) + 2 * slack as usize + 3;
        for ((t, p), exp) in &expiry {
            // only entries whose expiry lies a full wheel rotation back must be gone (the closing heartbeats may themselves
            // prune peers - e.g. after opportunistic grafting - and start new backoffs)
            if elapsed() < *exp + hb * wheel as u32 {
                continue;
            }
            let still = b.verif_is_backed_off(&gs::TopicHash::from_raw(t.clone()), p);
            ensure!(!still, "C32/backoff-never-forgotten", "({t}, p{:?}) expired at {exp:?}; at {:?} (slack {slack}, prune_backoff {prune_backoff}s) it is still reported backed off", idx_of(&peers, p).map(|i| peers[i].idx), elapsed());
        }
    }
    if refused > 0 && accepted > 0 {
        mark_nontrivial();
    }
    if refused > 0 {
        probe("graft-refused");
    }
    if fanout_kept > 0 {
        probe("fanout-peer-kept-on-publish");
    }
    if rejected_reqs > 0 {
        probe("subscription-request-rejected");
    }
    if !expiry.is_empty() {
        probe("backoff-recorded");
    }
    Ok(())
}

// ------------------------------------------------------------------------------------------------
// BackoffStorage alone
// ------------------------------------------------------------------------------------------------
fn backoff_storage() -> SimResult {
    let hb = Duration::from_millis([100u64, 700, 1000][choose(3)]);
    let prune = Duration::from_millis(500 + 500 * choose(12) as u64);
    let slack = choose(3) as u32;
    let mut st = gv::BackoffStorage::new(prune, hb, slack);
    let peers: Vec<PeerId> = (0..3).map(|_| Keypair::generate_ed25519().public().to_peer_id()).collect();
    let topics = ["a", "b"];
    let mut expiry: BTreeMap<(usize, usize), Duration> = BTreeMap::new();
    let mut last_hb = elapsed();
    let wheel = (prune.as_nanos().div_ceil(hb.as_nanos())) as u32 + slack + 1;
    let steps = 10 + choose(80);
    for _ in 0..steps {
        match choose(10) {
            0..=3 => {
                let (t, p) = (choose(2), choose(3));
                let d = match choose(4) {
                    0 => prune,
                    1 => Duration::ZERO,
                    _ => Duration::from_millis(choose(2 * prune.as_millis() as usize + 1) as u64),
                };
                st.update_backoff(topics[t], &peers[p], d);
                let e = expiry.entry((t, p)).or_insert(Duration::ZERO);
                *e = (*e).max(elapsed() + d);
            }
            4..=7 => {
                // a heartbeat: on time, or late (a starved task)
                let late = if choose(5) == 0 { Duration::from_millis(choose(300) as u64) } else { Duration::ZERO };
                let due = last_hb + hb + late;
                if due > elapsed() {
                    advance(due - elapsed());
                }
                last_hb = elapsed();
                st.heartbeat();
            }
            _ => {
                advance(Duration::from_millis(choose(400) as u64));
            }
        }
        for ((t, p), e) in &expiry {
            if *e > elapsed() {
                ensure!(st.is_backoff_with_slack(topics[*t], &peers[*p]), "C32/backoff-shortened", "({}, peer {p}) must be backed off until {e:?} but at {:?} the storage reports it free", topics[*t], elapsed());
            }
        }
    }
    // regular heartbeats from here on: every entry must be forgotten after expiry + slack + one wheel rotation
    let last = expiry.values().max().copied().unwrap_or(Duration::ZERO).max(elapsed());
    let until = last + hb * (2 * slack + wheel + 2);
    while elapsed() < until {
        let due = last_hb + hb;
        if due > elapsed() {
            advance(due - elapsed());
        }
        last_hb = elapsed();
        st.heartbeat();
        for ((t, p), e) in &expiry {
            if *e > elapsed() {
                ensure!(st.is_backoff_with_slack(topics[*t], &peers[*p]), "C32/backoff-shortened", "({}, peer {p}) must be backed off until {e:?} but at {:?} the storage reports it free", topics[*t], elapsed());
            }
        }
    }
    for ((t, p), e) in &expiry {
        ensure!(!st.is_backoff_with_slack(topics[*t], &peers[*p]), "C32/backoff-never-forgotten", "({}, peer {p}) expired at {e:?}, still backed off at {:?} (slack {slack}, wheel {wheel})", topics[*t], elapsed());
    }
    if expiry.len() > 1 {
        mark_nontrivial();
    }
    note_val("cfg", hb.as_millis() as u64 + prune.as_millis() as u64 * 7 + slack as u64 * 100_000);
    note_val("n", expiry.len() as u64 + 10 * (steps as u64 / 10));
    Ok(())
}
