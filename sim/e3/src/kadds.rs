//! C37 (k-bucket routing table), C39 (iterative lookup iterators), C41 (memory record store):
//! the real kad data structures behind the cfg(libp2p_verif) facade, driven by seeded operation /
//! response / time sequences on the virtual clock and compared with reference models.
use libp2p_identity::{Keypair, PeerId};
use libp2p_kad as kad;
use libp2p_kad::store::RecordStore;
use libp2p_kad::verif as kv;
use simkit::runner::NO_FAULTS;
use simkit::*;
use std::collections::{BTreeMap, BTreeSet};
use std::time::Duration;

pub fn checks() -> Vec<Check> {
    vec![
        Check {
            id: "C37",
            title: "K-bucket routing table keeps its structural invariants",
            level: Level::Exploration,
            rule: "The real KBucketsTable (bucket size 1..3, pending timeout 1..60 s) over 12..40 peer ids receives seeded sequences of insert (connected/disconnected), status updates, removals, lookups and virtual time steps (around the pending timeout). A reference model follows the table's own answers (Inserted / Pending / Full; applied pending entries) and records for every key the time of its last (dis)connection. After every operation: each bucket holds at most bucket_size entries, every key is in the table at most once and in the bucket of its log2 distance, the local key is absent, the table's content equals the model's, all disconnected entries precede all connected ones and each group is ordered by last update (least recent first). For every applied pending entry: it was pending in the model, at least pending_timeout passed since it became pending, and the evicted entry (if any) was the first (least recently updated) disconnected entry of that bucket",
            assumptions: &["keys are SHA-256 hashed peer ids, so bucket indices are those of random 256-bit distances (about half of all keys share the farthest bucket, which small bucket sizes overflow quickly)"],
            real: &["kad::kbucket::{KBucketsTable, KBucket, Entry API}"],
            stub: &["clock -> virtual"],
            scenarios: vec![Scenario::new("kbucket-table", 800, 100_000, kbucket_table).profiles(NO_FAULTS)],
        },
        Check {
            id: "C39",
            title: "Iterative lookups are bounded, terminate and return the closest responders",
            level: Level::Exploration,
            rule: "A random peer graph (8..40 peers; each answers with a seeded list of closer peers, fails, or stays silent) is searched by the real ClosestPeersIter, ClosestDisjointPeersIter and FixedPeersIter (parallelism 1..4, num_results 1..6, peer timeout 10 s; the fixed iterator's caller-supplied list may name a peer several times and every peer is still handed out at most once). The harness plays the query pool: it calls next(now), records the peers handed out, and in a seeded order delivers successes (also late ones after a timeout), failures and time steps. Always: requests in flight <= max(num_results, parallelism) (plain), <= parallelism (fixed), <= parallelism * max(num_results, parallelism) (disjoint: one plain iterator per path); the run reaches Finished within a step budget once every outstanding request is answered or timed out; results contain only peers whose success was delivered, in increasing distance to the target, at most num_results of them (plain iterator; the disjoint iterator documents that it returns the union of its paths' results, so its bound is parallelism * num_results). When the plain iterator finishes on its own, every peer it learned of that is closer than the farthest returned peer (all learned peers if fewer than num_results were returned) has been contacted and resolved",
            assumptions: &["the in-flight bound for the disjoint iterator is the product form, because each of its `parallelism` paths is a plain iterator configured with the same parallelism (documented behaviour of this code base)"],
            real: &["kad::query::peers::{closest::ClosestPeersIter, closest::disjoint::ClosestDisjointPeersIter, fixed::FixedPeersIter}"],
            stub: &["query pool, network and peers -> harness", "clock -> virtual"],
            scenarios: vec![Scenario::new("closest-iter", 800, 100_000, closest_iter).profiles(NO_FAULTS), Scenario::new("disjoint-iter", 400, 50_000, disjoint_iter).profiles(NO_FAULTS), Scenario::new("fixed-iter", 400, 50_000, fixed_iter).profiles(NO_FAULTS)],
        },
        Check {
            id: "C41",
            title: "The memory record store behaves like a bounded map",
            level: Level::Exploration,
            rule: "The real MemoryStore (max_records 1..4, max_value_bytes 4..12, max_providers_per_key 1..3, max_provided_keys 1..3) receives seeded sequences of put / get / remove / add_provider / providers / provided / remove_provider over 5 keys and 4 providers (one of them the local node) and is compared with a reference map after every operation: put replaces and get returns the latest value; a new key is refused at max_records, a value of max_value_bytes or more is refused; providers per key never exceed the limit, re-adding a provider updates it in place; provided() is exactly the set of the local node's current provider records",
            assumptions: &["no clock, schedule or fault is involved in this store; the check is an operation-sequence comparison kept here for uniform replay and evidence"],
            real: &["kad::store::MemoryStore"],
            stub: &[],
            scenarios: vec![Scenario::new("memory-store", 800, 100_000, memory_store).profiles(NO_FAULTS)],
        },
    ]
}

fn peer() -> PeerId {
    Keypair::generate_ed25519().public().to_peer_id()
}

// ------------------------------------------------------------------------------------------------
// C37
// ------------------------------------------------------------------------------------------------

#[derive(Clone, Debug)]
struct MEntry {
    connected: bool,
    last_update: u64,
}

fn kbucket_table() -> SimResult {
    let local = peer();
    let size = 1 + choose(3);
    let timeout = Duration::from_secs([1u64, 5, 60][choose(3)]);
    let mut t = kv::Table::new(local, size, timeout);
    let n = 12 + choose(29);
    let peers: Vec<PeerId> = (0..n).map(|_| peer()).collect();
    let idx = |p: &PeerId| peers.iter().position(|x| x == p);
    // model: present entries and pending entries (per bucket at most one)
    let mut present: BTreeMap<PeerId, MEntry> = BTreeMap::new();
    let mut pending: BTreeMap<PeerId, (bool, Duration)> = BTreeMap::new(); // (connected, since)
    let mut seq = 0u64;
    let steps = 20 + choose(120);
    let (mut applied_n, mut full_n) = (0u32, 0u32);
    for step in 0..steps {
        seq += 1;
        let p = if choose(40) == 0 { local } else { peers[choose(n)] };
        let op = choose(10);
        match op {
            0..=3 => {
                let connected = choose(2) == 0;
                let r = t.insert(p, seq as u32, connected);
                match r {
                    kv::Inserted::SelfEntry => ensure!(p == local, "C37/self-entry-misreported", "insert of a foreign key answered SelfEntry"),
                    kv::Inserted::Present => ensure!(present.contains_key(&p) || pending.contains_key(&p), "C37/present-misreported", "insert of absent key p{:?} answered Present", idx(&p)),
                    kv::Inserted::Inserted => {
                        ensure!(p != local, "C37/local-key-stored", "the local key was inserted");
                        ensure!(!present.contains_key(&p), "C37/duplicate-key", "p{:?} inserted twice", idx(&p));
                        present.insert(p, MEntry { connected, last_update: seq });
                    }
                    kv::Inserted::Pending(victim) => {
                        ensure!(connected, "C37/disconnected-pending", "a disconnected entry became pending");
                        ensure!(present.get(&victim).map(|v| !v.connected).unwrap_or(false), "C37/pending-victim-not-disconnected", "pending entry announced victim p{:?}, which is not a disconnected entry of the model", idx(&victim));
                        pending.insert(p, (connected, elapsed()));
                    }
                    kv::Inserted::Full => full_n += 1,
                }
            }
            4 | 5 => {
                let connected = choose(2) == 0;
                if t.update(p, connected) {
                    if let Some(e) = present.get_mut(&p) {
                        e.connected = connected;
                        e.last_update = seq;
                    } else if let Some(e) = pending.get_mut(&p) {
                        e.0 = connected;
                    } else {
                        return Err(violation!("C37/update-of-absent", "update of p{:?} succeeded but the model does not hold it", idx(&p)));
                    }
                }
            }
            6 => {
                if t.remove(p) {
                    ensure!(present.remove(&p).is_some() || pending.remove(&p).is_some(), "C37/remove-of-absent", "remove of p{:?} succeeded but the model does not hold it", idx(&p));
                }
            }
            7 => {
                let l = t.lookup(p);
                match l {
                    kv::Lookup::SelfEntry => ensure!(p == local, "C37/lookup", "foreign key looked up as self"),
                    _ => {}
                }
            }
            _ => {
                let d = match choose(4) {
                    0 => timeout,
                    1 => timeout / 2,
                    2 => timeout + Duration::from_millis(1),
                    _ => Duration::from_millis(choose(2 * timeout.as_millis() as usize) as u64 + 1),
                };
                advance(d);
            }
        }
        // ---- snapshot (applies due pending entries, as every table access does)
        let view = t.view();
        // a victim that reconnected cancels the pending entry of its bucket: follow the table for pending membership
        let now = elapsed();
        for (inserted, evicted) in t.take_applied_pending() {
            applied_n += 1;
            let Some((conn, since)) = pending.remove(&inserted) else {
                return Err(violation!("C37/applied-not-pending", "p{:?} was applied as pending entry but the model has no such pending entry", idx(&inserted)));
            };
            ensure!(now >= since + timeout, "C37/pending-applied-early", "pending p{:?} (since {since:?}) replaced an entry at {now:?}, pending_timeout is {timeout:?}", idx(&inserted));
            if let Some(ev) = evicted {
                let b = t.bucket_index(ev);
                let Some(victim) = present.get(&ev).cloned() else {
                    return Err(violation!("C37/evicted-unknown", "evicted p{:?} is not in the model", idx(&ev)));
                };
                ensure!(!victim.connected, "C37/evicted-connected-entry", "pending p{:?} evicted p{:?}, which is connected", idx(&inserted), idx(&ev));
                let older = present.iter().filter(|(k, e)| t.bucket_index(**k) == b && !e.connected && e.last_update < victim.last_update).count();
                ensure!(older == 0, "C37/evicted-not-least-recent", "pending p{:?} evicted p{:?} although {older} disconnected entries of the bucket were updated less recently", idx(&inserted), idx(&ev));
                present.remove(&ev);
            }
            present.insert(inserted, MEntry { connected: conn, last_update: seq });
        }
        // pending entries the table dropped (victim reconnected, bucket no longer full ...): resynchronise by lookup
        let stale: Vec<PeerId> = pending.keys().copied().filter(|p| !matches!(t.lookup(*p), kv::Lookup::Pending(_))).collect();
        for p in stale {
            match t.lookup(p) {
                kv::Lookup::Absent => {
                    pending.remove(&p);
                }
                kv::Lookup::Present(_) => {
                    // applied during this lookup: handled by the next take_applied_pending
                }
                _ => {}
            }
        }
        for (inserted, evicted) in t.take_applied_pending() {
            applied_n += 1;
            let Some((conn, since)) = pending.remove(&inserted) else {
                return Err(violation!("C37/applied-not-pending", "p{:?} was applied as pending entry but the model has no such pending entry", idx(&inserted)));
            };
            ensure!(elapsed() >= since + timeout, "C37/pending-applied-early", "pending p{:?} applied before its timeout", idx(&inserted));
            if let Some(ev) = evicted {
                ensure!(present.get(&ev).map(|v| !v.connected).unwrap_or(false), "C37/evicted-connected-entry", "evicted p{:?} is not a disconnected entry", idx(&ev));
                present.remove(&ev);
            }
            present.insert(inserted, MEntry { connected: conn, last_update: seq });
        }
        let view = if applied_n > 0 { t.view() } else { view };
        // ---- invariants
        let mut seen: BTreeSet<PeerId> = BTreeSet::new();
        for (bi, entries, _) in &view {
            ensure!(entries.len() <= size, "C37/bucket-over-capacity", "bucket {bi} holds {} entries, capacity {size} (step {step})", entries.len());
            let mut seen_connected = false;
            let mut last: Option<u64> = None;
            for (p, _, connected) in entries {
                ensure!(*p != local, "C37/local-key-stored", "the local key is stored in bucket {bi}");
                ensure!(seen.insert(*p), "C37/duplicate-key", "p{:?} appears twice in the table", idx(p));
                ensure!(t.bucket_index(*p) == Some(*bi), "C37/wrong-bucket", "p{:?} sits in bucket {bi}, its log2 distance is {:?}", idx(p), t.bucket_index(*p));
                let Some(m) = present.get(p) else {
                    return Err(violation!("C37/table-has-unknown-entry", "table holds p{:?} which the model does not (step {step})", idx(p)));
                };
                ensure!(m.connected == *connected, "C37/status-mismatch", "p{:?}: table says connected={connected}, model {}", idx(p), m.connected);
                if *connected {
                    if !seen_connected {
                        last = None;
                    }
                    seen_connected = true;
                } else {
                    ensure!(!seen_connected, "C37/disconnected-after-connected", "bucket {bi}: disconnected p{:?} follows a connected entry", idx(p));
                }
                if let Some(l) = last {
                    ensure!(l <= m.last_update, "C37/not-lru-ordered", "bucket {bi}: entries of one status group are not ordered by last update (p{:?} updated at {} follows an entry updated at {l})", idx(p), m.last_update);
                }
                last = Some(m.last_update);
            }
        }
        ensure!(seen.len() == present.len(), "C37/table-lost-entry", "table holds {} entries, the model {} (step {step})", seen.len(), present.len());
    }
    if applied_n > 0 && full_n > 0 {
        mark_nontrivial();
    }
    note_val("cfg", size as u64 + 8 * timeout.as_secs());
    note_val("steps", (steps / 8) as u64);
    note_val("shape", (applied_n.min(7) as u64) + 8 * (full_n.min(15) as u64) + 128 * (present.len() as u64) + 8192 * (pending.len() as u64));
    Ok(())
}

// ------------------------------------------------------------------------------------------------
// C39
// ------------------------------------------------------------------------------------------------

#[derive(Clone, Copy, PartialEq, Debug)]
enum Behave {
    Answer,
    Fail,
    Silent,
    Late,
}

struct Graph {
    target: PeerId,
    peers: Vec<PeerId>,
    behave: BTreeMap<PeerId, Behave>,
    closer: BTreeMap<PeerId, Vec<PeerId>>,
}

fn graph() -> Graph {
    let n = 8 + choose(33);
    let peers: Vec<PeerId> = (0..n).map(|_| peer()).collect();
    let target = peer();
    let mut behave = BTreeMap::new();
    let mut closer = BTreeMap::new();
    let profile = choose(4);
    for p in &peers {
        let b = match (profile, choose(10)) {
            (0, _) => Behave::Answer,
            (1, 0..=2) => Behave::Fail,
            (2, 0..=2) => Behave::Silent,
            (3, 0) => Behave::Fail,
            (3, 1) => Behave::Silent,
            (3, 2) => Behave::Late,
            _ => Behave::Answer,
        };
        behave.insert(*p, b);
        let k = choose(6);
        closer.insert(*p, (0..k).map(|_| peers[choose(n)]).collect::<Vec<_>>());
    }
    Graph { target, peers, behave, closer }
}

fn closest_iter() -> SimResult {
    let g = graph();
    let parallelism = 1 + choose(4);
    let num_results = 1 + choose(6);
    let timeout = Duration::from_secs(10);
    let known: Vec<PeerId> = (0..1 + choose(5)).map(|_| g.peers[choose(g.peers.len())]).collect();
    let mut it = kv::Closest::new(g.target, known.clone(), parallelism, num_results, timeout);
    // every peer the iterator has learned of (the keys of its closest_peers map)
    let mut learned: BTreeSet<PeerId> = known.iter().copied().collect();
    let mut in_flight: Vec<(PeerId, Duration)> = vec![];
    let mut contacted: BTreeSet<PeerId> = BTreeSet::new();
    let mut succeeded: BTreeSet<PeerId> = BTreeSet::new();
    let mut resolved: BTreeSet<PeerId> = BTreeSet::new();
    // peers whose request timed out and whose answer is still to come
    let mut late_ready: Vec<PeerId> = vec![];
    // reference of the documented stall rule: `parallelism` consecutive answers without progress stall the
    // iterator, which raises the allowed parallelism to max(num_results, parallelism) until progress is made again
    let mut no_progress = 0usize;
    let mut stalled = false;
    let mut late_delivered = 0u32;
    let budget = 40 * g.peers.len() + 200;
    let mut finished = false;
    let dist_sorted = |set: &BTreeSet<PeerId>| {
        let mut v: Vec<PeerId> = set.iter().copied().collect();
        v.sort_by(|a, b| kv::closer(g.target, *a, *b));
        v
    };
    // mirrors ClosestPeersIter::on_success' notion of progress; returns the new learned set
    let mut deliver_success = |it: &mut kv::Closest, p: PeerId, learned: &mut BTreeSet<PeerId>, succeeded: &mut BTreeSet<PeerId>, no_progress: &mut usize, stalled: &mut bool| {
        let closer: Vec<PeerId> = g.closer[&p].clone();
        let before = dist_sorted(learned);
        let cur_range = before.get(num_results - 1).or(before.last()).copied();
        let mut progress = before.len() < num_results;
        if it.on_success(&p, closer.clone()) {
            succeeded.insert(p);
            for c in closer {
                if learned.insert(c) {
                    if let Some(r) = cur_range {
                        if kv::closer(g.target, c, r) == std::cmp::Ordering::Less {
                            progress = true;
                        }
                    }
                }
            }
            if *stalled {
                if progress {
                    *stalled = false;
                    *no_progress = 0;
                }
            } else {
                *no_progress = if progress { 0 } else { *no_progress + 1 };
                if *no_progress >= parallelism {
                    *stalled = true;
                }
            }
        }
    };
    for _ in 0..budget {
        let now = web_time::Instant::now();
        // requests older than the peer timeout no longer count (the iterator calls them unresponsive)
        let live_before = in_flight.iter().filter(|(_, since)| elapsed() < *since + timeout).count();
        let st = it.next(now);
        trace!("next -> {:?}; live {live_before}, iterator waits for {}, stalled {stalled}", match &st { kv::IterState::Waiting(Some(p)) => format!("contact p{:?} ({:?})", g.peers.iter().position(|x| x == p), g.behave.get(p)), o => format!("{o:?}") }, it.num_waiting());
        match st {
            kv::IterState::Finished => {
                finished = true;
                for (p, since) in &in_flight {
                    if elapsed() >= *since + timeout {
                        resolved.insert(*p);
                    }
                }
                break;
            }
            kv::IterState::Waiting(Some(p)) => {
                ensure!(contacted.insert(p), "C39/peer-contacted-twice", "the iterator asked to contact the same peer twice");
                ensure!(learned.contains(&p), "C39/unknown-peer-contacted", "the iterator wants to contact a peer it never learned of");
                let cap = if stalled { num_results.max(parallelism) } else { parallelism };
                ensure!(live_before < cap, "C39/too-many-in-flight", "a new request was started with {live_before} requests already in flight; parallelism {parallelism}, num_results {num_results}, stalled (by the reference rule): {stalled}");
                in_flight.push((p, elapsed()));
            }
            kv::IterState::Waiting(None) | kv::IterState::WaitingAtCapacity => {
                // timeouts first (the iterator has marked them unresponsive by now)
                in_flight.retain(|(p, since)| {
                    if elapsed() >= *since + timeout {
                        resolved.insert(*p);
                        if g.behave[p] == Behave::Late {
                            late_ready.push(*p);
                        }
                        false
                    } else {
                        true
                    }
                });
                // an answer that arrives after its request timed out, while the lookup is still running
                if !late_ready.is_empty() && (in_flight.is_empty() || choose(3) == 0) {
                    let p = late_ready.remove(choose(late_ready.len()));
                    late_delivered += 1;
                    deliver_success(&mut it, p, &mut learned, &mut succeeded, &mut no_progress, &mut stalled);
                    continue;
                }
                if in_flight.is_empty() {
                    advance(timeout);
                    continue;
                }
                let k = choose(in_flight.len());
                let (p, _) = in_flight[k];
                match g.behave[&p] {
                    Behave::Answer => {
                        in_flight.remove(k);
                        resolved.insert(p);
                        deliver_success(&mut it, p, &mut learned, &mut succeeded, &mut no_progress, &mut stalled);
                    }
                    Behave::Fail => {
                        in_flight.remove(k);
                        resolved.insert(p);
                        it.on_failure(&p);
                    }
                    Behave::Silent | Behave::Late => {
                        // nothing arrives yet; let time pass (possibly all the way to the timeout)
                        advance([Duration::from_secs(1), Duration::from_secs(4), timeout][choose(3)]);
                    }
                }
            }
        }
        let bound = num_results.max(parallelism);
        ensure!(it.num_waiting() <= bound, "C39/too-many-in-flight", "the iterator waits for {} requests; parallelism {parallelism}, num_results {num_results}", it.num_waiting());
    }
    ensure!(finished, "C39/no-termination", "the closest-peers iterator did not finish within {budget} steps although every request was answered, failed or timed out ({} peers)", g.peers.len());
    let result = it.into_result();
    ensure!(result.len() <= num_results, "C39/too-many-results", "{} results, num_results {num_results}", result.len());
    for w in result.windows(2) {
        ensure!(kv::closer(g.target, w[0], w[1]) != std::cmp::Ordering::Greater, "C39/results-not-sorted", "results are not in increasing distance to the target");
    }
    for r in &result {
        ensure!(succeeded.contains(r), "C39/unresponsive-peer-returned", "a returned peer never delivered a successful response");
    }
    // completeness on natural termination
    let farthest = result.last().copied();
    for p in &learned {
        if *p == g.target {
            continue;
        }
        let relevant = match (result.len() >= num_results, farthest) {
            (true, Some(f)) => kv::closer(g.target, *p, f) == std::cmp::Ordering::Less,
            _ => true,
        };
        if relevant {
            ensure!(contacted.contains(p), "C39/closer-peer-never-contacted", "the iterator finished although a learned peer closer than the farthest result ({} results of {num_results}) was never contacted", result.len());
            ensure!(resolved.contains(p) || succeeded.contains(p), "C39/closer-peer-still-waiting", "the iterator finished while a closer peer was still waiting");
        }
    }
    if result.len() >= 2 && contacted.len() > result.len() {
        mark_nontrivial();
    }
    if late_delivered > 0 {
        probe("late-answer-during-lookup");
    }
    note_val("cfg", (parallelism + 8 * num_results) as u64);
    note_val("n", (g.peers.len() / 4) as u64);
    note_val("shape", result.len() as u64 + 8 * (contacted.len() as u64) + 512 * (succeeded.len() as u64) + 32768 * (resolved.len().min(31) as u64));
    Ok(())
}

fn disjoint_iter() -> SimResult {
    let g = graph();
    let parallelism = 1 + choose(3);
    let num_results = 1 + choose(6);
    let timeout = Duration::from_secs(10);
    let known: Vec<PeerId> = (0..1 + choose(6)).map(|_| g.peers[choose(g.peers.len())]).collect();
    let mut it = kv::Disjoint::new(g.target, known.clone(), parallelism, num_results, timeout);
    let mut in_flight: Vec<(PeerId, Duration)> = vec![];
    let mut contacted: BTreeSet<PeerId> = BTreeSet::new();
    let mut succeeded: BTreeSet<PeerId> = BTreeSet::new();
    let bound = parallelism * num_results.max(parallelism);
    let budget = 60 * g.peers.len() + 300;
    let mut finished = false;
    let mut expired = 0usize;
    for _ in 0..budget {
        match it.next(web_time::Instant::now()) {
            kv::IterState::Finished => {
                finished = true;
                break;
            }
            kv::IterState::Waiting(Some(p)) => {
                ensure!(contacted.insert(p), "C39/peer-contacted-twice", "the disjoint iterator asked to contact the same peer twice");
                in_flight.push((p, elapsed()));
            }
            _ => {
                let before = in_flight.len();
                in_flight.retain(|(_, since)| elapsed() < *since + timeout);
                expired += before - in_flight.len();
                if in_flight.is_empty() {
                    // A path parked on a request that another path issued keeps its own, later deadline for it: waiting with
                    // nothing in flight is legitimate only after some request ran into the peer timeout. If every request was
                    // answered (success or failure), all paths have been told and the iterator must move on.
                    ensure!(expired > 0, "C39/no-termination", "the disjoint iterator waits although every request it handed out has been answered and none timed out ({} contacted, {} succeeded, {parallelism} paths, num_results {num_results})", contacted.len(), succeeded.len());
                    advance(timeout);
                    continue;
                }
                let k = choose(in_flight.len());
                let (p, _) = in_flight[k];
                match g.behave[&p] {
                    Behave::Answer | Behave::Late => {
                        in_flight.remove(k);
                        // the response is remembered for all paths, whatever the path that asked makes of it
                        succeeded.insert(p);
                        it.on_success(&p, g.closer[&p].clone());
                    }
                    Behave::Fail => {
                        in_flight.remove(k);
                        it.on_failure(&p);
                    }
                    Behave::Silent => advance([Duration::from_secs(2), timeout][choose(2)]),
                }
            }
        }
        // requests older than the peer timeout no longer count (the iterator calls them unresponsive)
        let live = in_flight.iter().filter(|(_, since)| elapsed() < *since + timeout).count();
        ensure!(live <= bound, "C39/too-many-in-flight", "{live} requests in flight on {parallelism} disjoint paths (num_results {num_results})");
    }
    ensure!(finished, "C39/no-termination", "the disjoint iterator did not finish within {budget} steps ({} peers)", g.peers.len());
    let result = it.into_result();
    // documented contract of the disjoint iterator: the distance-ordered union of what each path returns (each at most num_results)
    ensure!(result.len() <= parallelism * num_results, "C39/too-many-results", "{} results from {parallelism} paths, num_results {num_results}", result.len());
    for w in result.windows(2) {
        ensure!(kv::closer(g.target, w[0], w[1]) != std::cmp::Ordering::Greater, "C39/results-not-sorted", "disjoint results are not in increasing distance to the target");
    }
    for r in &result {
        ensure!(succeeded.contains(r), "C39/unresponsive-peer-returned", "a peer returned by the disjoint iterator never delivered a successful response");
    }
    let uniq: BTreeSet<&PeerId> = result.iter().collect();
    ensure!(uniq.len() == result.len(), "C39/duplicate-result", "the disjoint iterator returned a peer twice");
    if result.len() >= 2 {
        mark_nontrivial();
    }
    note_val("cfg", (parallelism + 8 * num_results) as u64);
    Ok(())
}

fn fixed_iter() -> SimResult {
    let n = 1 + choose(12);
    let distinct: Vec<PeerId> = (0..n).map(|_| peer()).collect();
    // caller-supplied lists (put_record_to, get_providers follow-ups) may name a peer more than once
    let mut peers = distinct.clone();
    if choose(3) == 0 {
        for _ in 0..1 + choose(4) {
            let dup = distinct[choose(n)];
            peers.insert(choose(peers.len() + 1), dup);
        }
        probe("fixed_list_with_repeats");
    }
    let parallelism = 1 + choose(4);
    let mut it = kv::Fixed::new(peers.clone(), parallelism);
    let mut handed: BTreeSet<PeerId> = BTreeSet::new();
    let mut in_flight: Vec<PeerId> = vec![];
    let mut succeeded: BTreeSet<PeerId> = BTreeSet::new();
    let mut finished = false;
    for _ in 0..10 * peers.len() + 50 {
        match it.next() {
            kv::IterState::Finished => {
                finished = true;
                break;
            }
            kv::IterState::Waiting(Some(p)) => {
                ensure!(peers.contains(&p) && !in_flight.contains(&p), "C39/peer-contacted-twice", "the fixed iterator handed out an unknown peer or one whose request is still in flight");
                ensure!(handed.insert(p), "C39/peer-contacted-twice", "the fixed iterator handed out a peer a second time (list with {} entries, {n} distinct)", peers.len());
                in_flight.push(p);
            }
            _ => {
                ensure!(!in_flight.is_empty(), "C39/no-termination", "the fixed iterator waits although nothing is in flight");
                let p = in_flight.remove(choose(in_flight.len()));
                if choose(3) == 0 {
                    it.on_failure(&p);
                } else if it.on_success(&p) {
                    succeeded.insert(p);
                }
            }
        }
        ensure!(in_flight.len() <= parallelism, "C39/too-many-in-flight", "{} requests in flight, parallelism {parallelism} (fixed iterator)", in_flight.len());
    }
    ensure!(finished, "C39/no-termination", "the fixed iterator did not finish");
    let result = it.into_result();
    for r in &result {
        ensure!(succeeded.contains(r), "C39/unresponsive-peer-returned", "the fixed iterator returned a peer that did not succeed");
    }
    ensure!(result.len() == succeeded.len(), "C39/responder-missing", "{} peers succeeded, {} returned", succeeded.len(), result.len());
    if n > parallelism {
        mark_nontrivial();
    }
    note_val("cfg", (n + 16 * parallelism) as u64);
    Ok(())
}

// ------------------------------------------------------------------------------------------------
// C41
// ------------------------------------------------------------------------------------------------

fn memory_store() -> SimResult {
    let local = peer();
    let cfg = kad::store::MemoryStoreConfig { max_records: 1 + choose(4), max_value_bytes: 4 + choose(9), max_providers_per_key: 1 + choose(3), max_provided_keys: 1 + choose(3) };
    let mut s = kad::store::MemoryStore::with_config(local, cfg.clone());
    let keys: Vec<kad::RecordKey> = (0..5u8).map(|i| kad::RecordKey::new(&[b'k', i])).collect();
    let provs: Vec<PeerId> = vec![local, peer(), peer(), peer()];
    let mut recs: BTreeMap<usize, (Vec<u8>, Option<PeerId>, Option<web_time::Instant>)> = BTreeMap::new();
    let t0 = web_time::Instant::now();
    let mut pmodel: BTreeMap<usize, Vec<(usize, u32)>> = BTreeMap::new(); // key -> [(provider, generation)]
    let mut gen = 0u32;
    let steps = 15 + choose(100);
    let (mut refused, mut replaced) = (0u32, 0u32);
    for _ in 0..steps {
        let k = choose(keys.len());
        match choose(10) {
            0..=2 => {
                // a fresh value, or (replication style) the value already stored with another publisher / expiry
                let resend = choose(3) == 0 && recs.contains_key(&k);
                let value = if resend {
                    probe("put_same_value_again");
                    recs[&k].0.clone()
                } else {
                    let len = choose(cfg.max_value_bytes + 3);
                    gen += 1;
                    let mut value = vec![0u8; len];
                    if len > 0 {
                        value[0] = gen as u8;
                    }
                    value
                };
                let len = value.len();
                let publisher = if choose(3) == 0 { Some(provs[choose(provs.len())]) } else { None };
                let expires = if choose(2) == 0 { Some(t0 + std::time::Duration::from_secs(1 + choose(5000) as u64)) } else { None };
                let r = s.put(kad::Record { key: keys[k].clone(), value: value.clone(), publisher, expires });
                let too_large = len >= cfg.max_value_bytes;
                let full = !recs.contains_key(&k) && recs.len() >= cfg.max_records;
                if too_large || full {
                    refused += 1;
                    ensure!(r.is_err(), "C41/put-accepted-over-limit", "put of {len} bytes (max_value_bytes {}) with {} of {} records stored was accepted", cfg.max_value_bytes, recs.len(), cfg.max_records);
                } else {
                    ensure!(r.is_ok(), "C41/put-refused", "put of {len} bytes within all limits was refused: {r:?}");
                    if recs.insert(k, (value, publisher, expires)).is_some() {
                        replaced += 1;
                    }
                }
            }
            3 | 4 => {
                let got = s.get(&keys[k]).map(|r| (r.value.clone(), r.publisher, r.expires));
                ensure!(got.as_ref() == recs.get(&k), "C41/get-mismatch", "get returned (value, publisher, expires) {got:?}, the latest put is {:?}", recs.get(&k));
            }
            5 => {
                s.remove(&keys[k]);
                recs.remove(&k);
            }
            6 | 7 => {
                let p = choose(provs.len());
                gen += 1;
                let addr: libp2p_core::Multiaddr = format!("/ip4/10.0.0.1/tcp/{}", 1000 + gen).parse().unwrap();
                let r = s.add_provider(kad::ProviderRecord { key: keys[k].clone(), provider: provs[p], expires: None, addresses: vec![addr] });
                let known_key = pmodel.contains_key(&k);
                if !known_key && pmodel.len() >= cfg.max_provided_keys {
                    ensure!(r.is_err(), "C41/provider-key-over-limit", "a provider for a new key was accepted although {} keys have providers (max_provided_keys {})", pmodel.len(), cfg.max_provided_keys);
                    refused += 1;
                } else {
                    ensure!(r.is_ok(), "C41/add-provider-refused", "add_provider within the key limit failed: {r:?}");
                    let e = pmodel.entry(k).or_default();
                    if let Some(x) = e.iter_mut().find(|(q, _)| *q == p) {
                        x.1 = gen;
                        replaced += 1;
                    } else if e.len() < cfg.max_providers_per_key {
                        e.push((p, gen));
                    }
                }
            }
            8 => {
                let p = choose(provs.len());
                s.remove_provider(&keys[k], &provs[p]);
                if let Some(e) = pmodel.get_mut(&k) {
                    e.retain(|(q, _)| *q != p);
                    if e.is_empty() {
                        pmodel.remove(&k);
                    }
                }
            }
            _ => {}
        }
        // ---- cross-invariants
        let total = s.records().count();
        ensure!(total == recs.len() && total <= cfg.max_records, "C41/record-count", "store lists {total} records, model {}, max_records {}", recs.len(), cfg.max_records);
        let mut provided_model: BTreeSet<(usize, u32)> = BTreeSet::new();
        for (ki, key) in keys.iter().enumerate() {
            let got: BTreeSet<(usize, u32)> = s.providers(key).into_iter().map(|r| (provs.iter().position(|q| *q == r.provider).unwrap_or(99), port_gen(&r))).collect();
            let want: BTreeSet<(usize, u32)> = pmodel.get(&ki).map(|v| v.iter().copied().collect()).unwrap_or_default();
            ensure!(got.len() <= cfg.max_providers_per_key, "C41/providers-over-limit", "key {ki} lists {} providers, max_providers_per_key {}", got.len(), cfg.max_providers_per_key);
            ensure!(got == want, "C41/providers-mismatch", "key {ki}: store lists providers (index, generation) {got:?}, model {want:?}");
            for (p, g) in &want {
                if *p == 0 {
                    provided_model.insert((ki, *g));
                }
            }
        }
        let provided: BTreeSet<(usize, u32)> = s.provided().map(|r| (keys.iter().position(|q| *q == r.key).unwrap_or(99), port_gen(&r))).collect();
        ensure!(provided == provided_model, "C41/provided-mismatch", "provided() = {provided:?} (key, generation), the local node's current provider records are {provided_model:?}");
    }
    if refused > 0 && replaced > 0 {
        mark_nontrivial();
    }
    note_val("cfg", (cfg.max_records + 8 * cfg.max_providers_per_key + 32 * cfg.max_provided_keys) as u64);
    note_val("steps", (steps / 10) as u64);
    Ok(())
}

fn port_gen(r: &kad::ProviderRecord) -> u32 {
    r.addresses
        .first()
        .and_then(|a| {
            a.iter().find_map(|p| match p {
                libp2p_core::multiaddr::Protocol::Tcp(p) => Some(p as u32 - 1000),
                _ => None,
            })
        })
        .unwrap_or(0)
}
