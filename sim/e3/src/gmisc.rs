//! C30 (validation modes at the wire codec), C33 (duplicate cache / message cache windows),
//! C34 (accepted configs keep the heartbeat alive).
use crate::gnode::*;
use crate::gproto::{Msg, Rpc};
use asynchronous_codec::Decoder;
use libp2p_gossipsub as gs;
use libp2p_gossipsub::verif as gv;
use libp2p_identity::{Keypair, PeerId, PublicKey};
use simkit::runner::NO_FAULTS;
use simkit::*;
use std::collections::{BTreeMap, BTreeSet};
use std::time::Duration;

pub fn checks() -> Vec<Check> {
    vec![
        Check {
            id: "C30",
            title: "Gossipsub accepts only messages valid for the validation mode",
            level: Level::Exploration,
            rule: "Frames with 1..4 publish messages are built by an independent encoder: ed25519 / secp256k1 / ecdsa authors, key field present/absent/foreign, forgeries whose `from` names a victim while key and signature are the attacker's, from/seqno/signature present, absent, empty or malformed, and 0..2 seeded mutations (bit flips in from/data/seqno/topic/signature, field removal, field swap between messages) applied after signing. Each frame is decoded by the real GossipsubCodec in Strict, Permissive, Anonymous mode. An independent verifier (libp2p_identity verify over 'libp2p-pubsub:'+re-encoded fields) decides what may be surfaced as valid: Strict => source, 8-byte-or-empty seqno, signature by the source's key over exactly these fields; Anonymous => none of source/seqno/signature; Permissive => whatever is present is valid. An untouched signed message must be accepted in Strict (non-vacuity), a mutated one must be reported invalid",
            assumptions: &["the oracle re-implements only the signing-bytes layout (protobuf field order from,data,seqno,topic) and uses libp2p_identity for signature verification"],
            real: &["GossipsubCodec::decode with validation (protocol.rs)", "libp2p_identity signature verification"],
            stub: &["message construction -> hand-written protobuf encoder"],
            scenarios: vec![Scenario::new("validation-modes", 1500, 200_000, validation_modes).profiles(NO_FAULTS)],
        },
        Check {
            id: "C33",
            title: "Gossipsub caches keep exactly their documented windows",
            level: Level::Exploration,
            rule: "The real DuplicateCache and MessageCache (through the cfg facade) are driven with seeded sequences of insert/contains/time jumps resp. put/validate/shift/gossip-ids/IWANT/remove over a handful of ids, two topics and three peers, and compared after every operation with a reference model: an id is seen exactly while now < first insertion + ttl (re-insertion neither refreshes nor is reported new); gossip ids = validated messages of the topic in the newest history_gossip windows; IWANT returns a message only while it is validated and within history_length windows, and its per-peer counter counts exactly",
            assumptions: &["cache objects are driven directly (they are pure data structures over the virtual clock); the behaviour-level use is covered by C27"],
            real: &["time_cache::DuplicateCache", "mcache::MessageCache"],
            stub: &["clock -> virtual"],
            scenarios: vec![Scenario::new("duplicate-cache", 800, 100_000, duplicate_cache).profiles(NO_FAULTS), Scenario::new("message-cache", 800, 100_000, message_cache).profiles(NO_FAULTS)],
        },
        Check {
            id: "C34",
            title: "Accepted gossipsub configs never break the behaviour",
            level: Level::Exploration,
            rule: "A ConfigBuilder receives a seeded subset of setters (default and per-topic mesh_n_low/mesh_n/mesh_n_high/mesh_outbound_min from 0..14, default and per-topic max_transmit_size around 100, history_length/history_gossip 0..6). If build() accepts: the documented inequalities must hold for the default parameters and for every topic (configured or not), max_transmit_size >= 100, history_gossip <= history_length. Then a real Behaviour with that config subscribes to the topics, 0..24 peers connect (inbound/outbound), subscribe, GRAFT, some disconnect, and 2..8 heartbeats run on the virtual clock: any panic is a violation",
            assumptions: &["binary built with overflow checks, so an arithmetic underflow in the heartbeat is a panic as in a debug build"],
            real: &["ConfigBuilder::build", "Behaviour heartbeat / mesh maintenance"],
            stub: &["Swarm + handlers -> harness", "clock -> virtual"],
            scenarios: vec![Scenario::new("config-space", 800, 100_000, config_space).profiles(NO_FAULTS)],
        },
    ]
}

// ------------------------------------------------------------------------------------------------
// C30
// ------------------------------------------------------------------------------------------------

fn keypair(kind: usize) -> Keypair {
    match kind {
        0 => Keypair::generate_ed25519(),
        1 => Keypair::generate_secp256k1(),
        _ => Keypair::generate_ecdsa(),
    }
}

/// Independent verdict: is `m`'s signature a signature by m.from's key over exactly its fields?
fn signature_ok(m: &Msg) -> bool {
    let (Some(from), Some(sig)) = (&m.from, &m.signature) else { return false };
    let Ok(source) = PeerId::from_bytes(from) else { return false };
    let key = match m.key.as_deref().map(PublicKey::try_decode_protobuf) {
        Some(Ok(k)) => k,
        _ => {
            // identity-hashed peer ids carry the key
            let b = source.to_bytes();
            if b.len() < 3 || b[0] != 0 {
                return false;
            }
            match PublicKey::try_decode_protobuf(&b[2..]) {
                Ok(k) => k,
                Err(_) => return false,
            }
        }
    };
    if key.to_peer_id() != source {
        return false;
    }
    key.verify(&m.signing_bytes(), sig)
}

fn flip(v: &mut Vec<u8>) {
    if v.is_empty() {
        v.push(1);
    } else {
        let i = choose(v.len());
        v[i] ^= 1 << choose(8);
    }
}

fn validation_modes() -> SimResult {
    let nmsgs = 1 + choose(4);
    let mut msgs: Vec<Msg> = vec![];
    let mut pristine: Vec<bool> = vec![];
    let mut mutated_signed: Vec<bool> = vec![];
    for i in 0..nmsgs {
        let kind = choose(3);
        let kp = keypair(kind);
        let peer = kp.public().to_peer_id();
        let style = choose(8);
        let mut m = Msg { topic: ["t", "u"][choose(2)].to_string(), data: Some(format!("payload-{i}-{}", choose(1000)).into_bytes()), ..Default::default() };
        let mut signed = false;
        match style {
            // anonymous message
            0 => {}
            // author only
            1 => {
                m.from = Some(peer.to_bytes());
                m.seqno = Some((choose(1 << 30) as u64).to_be_bytes().to_vec());
            }
            // forgery: `from` names a victim, the attached key is the attacker's and the signature is a correct
            // signature by that attached key over the message (so nothing about the signature itself is wrong)
            2 => {
                let victim = keypair(choose(3)).public().to_peer_id();
                m.from = Some(victim.to_bytes());
                m.seqno = Some((choose(1 << 30) as u64).to_be_bytes().to_vec());
                m.key = Some(kp.public().encode_protobuf());
                let sig = kp.sign(&m.signing_bytes()).map_err(|e| violation!("harness/sign", "{e:?}"))?;
                m.signature = Some(sig);
                probe("forged-source-with-attackers-key");
            }
            // fully signed (the normal Strict message)
            _ => {
                m.from = Some(peer.to_bytes());
                m.seqno = Some(match choose(14) {
                    0 => vec![],
                    1 => vec![1, 2, 3],
                    // longer than a u64: signed over as it is, so only the length rule can refuse it
                    2 => vec![9, 8, 7, 6, 5, 4, 3, 2, 1],
                    3 => (0..12 + choose(8) as u8).collect(),
                    _ => (choose(1 << 30) as u64).to_be_bytes().to_vec(),
                });
                if choose(12) == 0 {
                    m.seqno = None;
                }
                let sig = kp.sign(&m.signing_bytes()).map_err(|e| violation!("harness/sign", "{e:?}"))?;
                m.signature = Some(sig);
                // ecdsa peer ids do not carry the key: it has to travel in the key field
                m.key = match (kind, choose(4)) {
                    (2, 0) => None,
                    (2, _) => Some(kp.public().encode_protobuf()),
                    (_, 0) => Some(kp.public().encode_protobuf()),
                    (_, 1) => Some(keypair(choose(2)).public().encode_protobuf()),
                    _ => None,
                };
                signed = true;
            }
        }
        // mutations after signing
        let nmut = [0, 0, 1, 1, 2][choose(5)];
        let mut changed = false;
        for _ in 0..nmut {
            let before = m.clone();
            match choose(9) {
                0 => {
                    if let Some(x) = m.from.as_mut() {
                        flip(x)
                    }
                }
                1 => {
                    if let Some(x) = m.data.as_mut() {
                        flip(x)
                    }
                }
                2 => {
                    if let Some(x) = m.seqno.as_mut() {
                        flip(x)
                    }
                }
                3 => {
                    let mut t = m.topic.clone().into_bytes();
                    t.push(b'x');
                    m.topic = String::from_utf8(t).unwrap();
                }
                4 => {
                    if let Some(x) = m.signature.as_mut() {
                        flip(x)
                    }
                }
                5 => m.signature = None,
                6 => m.from = None,
                7 => m.seqno = None,
                _ => {
                    // graft another message's signature/from on this one
                    if let Some(o) = msgs.last() {
                        m.signature = o.signature.clone();
                    }
                }
            }
            if m != before {
                changed = true;
            }
        }
        note_val("msg", (kind + 3 * style + 24 * nmut) as u64 + 100 * changed as u64);
        pristine.push(signed && !changed);
        mutated_signed.push(signed && changed);
        msgs.push(m);
    }
    note_val("n", nmsgs as u64);
    let frame = Rpc { msgs: msgs.clone(), ..Default::default() }.frame();
    let mut any_mut = false;
    for (mode_name, mode) in [("strict", gs::ValidationMode::Strict), ("permissive", gs::ValidationMode::Permissive), ("anonymous", gs::ValidationMode::Anonymous)] {
        let mut codec = gv::codec(1 << 20, mode, Default::default(), 100, 1 << 20);
        let mut buf = bytes::BytesMut::from(&frame[..]);
        let view = match codec.decode(&mut buf) {
            Ok(Some(ev)) => gv::view_handler_event(&ev),
            Ok(None) => None,
            Err(_) => None, // the whole RPC was rejected: nothing surfaced
        };
        let Some(view) = view else {
            // nothing surfaced as valid; an all-pristine frame must decode in Strict
            ensure!(!(mode_name == "strict" && pristine.iter().all(|p| *p) && msgs.iter().all(|m| m.seqno.as_ref().map(|s| s.len() == 8 || s.is_empty()).unwrap_or(false))), "C30/strict-rejected-valid-frame", "a frame of correctly signed messages was rejected as a whole in Strict mode");
            continue;
        };
        ensure!(view.messages.len() + view.invalid_messages.len() == msgs.len(), "C30/message-count", "{mode_name}: {} messages in, {} valid + {} invalid out", msgs.len(), view.messages.len(), view.invalid_messages.len());
        // attribute surfaced messages to inputs by (data, topic): payloads are unique per message
        for v in &view.messages {
            let Some((i, m)) = msgs.iter().enumerate().find(|(_, m)| m.data.as_deref() == Some(&v.data[..]) && m.topic == v.topic) else {
                return Err(violation!("C30/surfaced-unknown", "{mode_name}: surfaced a message with data {:?} topic {:?} that was not sent", String::from_utf8_lossy(&v.data), v.topic));
            };
            match mode_name {
                "strict" => {
                    ensure!(m.from.is_some() && v.source.is_some(), "C30/strict-no-source", "Strict surfaced message {i} without a source: {m:?}");
                    ensure!(m.signature.is_some(), "C30/strict-no-signature", "Strict surfaced message {i} without a signature: {m:?}");
                    ensure!(signature_ok(m), "C30/strict-bad-signature", "Strict surfaced message {i} whose signature does not verify for its source over its fields: {m:?}");
                    ensure!(m.seqno.as_ref().map(|s| s.len() == 8 || s.is_empty()).unwrap_or(false), "C30/strict-bad-seqno", "Strict surfaced message {i} with sequence number bytes {:?}", m.seqno);
                    ensure!(v.source.map(|s| s.to_bytes()) == m.from, "C30/source-mismatch", "surfaced source differs from the wire");
                    ensure!(!mutated_signed[i] || signature_ok(m), "C30/strict-accepted-mutation", "Strict accepted mutated message {i}");
                }
                "anonymous" => {
                    ensure!(m.from.is_none() && m.seqno.is_none() && m.signature.is_none(), "C30/anonymous-accepted-identified", "Anonymous surfaced message {i} carrying from/seqno/signature: {m:?}");
                    ensure!(v.source.is_none() && v.sequence_number.is_none() && v.signature.is_none(), "C30/anonymous-surfaced-fields", "Anonymous surfaced identifying fields");
                }
                _ => {
                    if m.signature.is_some() {
                        ensure!(signature_ok(m), "C30/permissive-bad-signature", "Permissive surfaced message {i} with a present but invalid signature: {m:?}");
                    }
                    if let Some(s) = &m.seqno {
                        ensure!(s.len() == 8 || s.is_empty(), "C30/permissive-bad-seqno", "Permissive surfaced message {i} with sequence number bytes {s:?}");
                    }
                    if let Some(f) = &m.from {
                        ensure!(f.is_empty() || PeerId::from_bytes(f).is_ok(), "C30/permissive-bad-source", "Permissive surfaced message {i} with an unparsable source");
                    }
                }
            }
        }
        if mode_name == "strict" {
            for (i, m) in msgs.iter().enumerate() {
                let surfaced = view.messages.iter().any(|v| m.data.as_deref() == Some(&v.data[..]) && m.topic == v.topic);
                if pristine[i] && m.seqno.as_ref().map(|s| s.len() == 8 || s.is_empty()).unwrap_or(false) && signature_ok(m) {
                    ensure!(surfaced, "C30/strict-rejected-valid", "Strict reported correctly signed, untouched message {i} as invalid: {m:?}");
                }
                if mutated_signed[i] && !signature_ok(m) {
                    any_mut = true;
                    ensure!(!surfaced, "C30/strict-accepted-mutation", "Strict accepted mutated message {i}: {m:?}");
                }
            }
        }
    }
    if any_mut {
        mark_nontrivial();
    }
    Ok(())
}

// ------------------------------------------------------------------------------------------------
// C33
// ------------------------------------------------------------------------------------------------

fn duplicate_cache() -> SimResult {
    let ttl = Duration::from_millis([50u64, 1000, 60_000][choose(3)]);
    let mut c = gv::DuplicateCache::new(ttl);
    let ids: Vec<Vec<u8>> = (0..5u8).map(|i| vec![b'i', i]).collect();
    let mut first: BTreeMap<usize, Duration> = BTreeMap::new();
    let steps = 10 + choose(60);
    let mut expired_seen = false;
    for _ in 0..steps {
        let i = choose(ids.len());
        let seen_model = |first: &BTreeMap<usize, Duration>, i: usize| first.get(&i).map(|f| elapsed() < *f + ttl).unwrap_or(false);
        match choose(5) {
            0 | 1 => {
                let was_seen = seen_model(&first, i);
                let new = c.insert(&ids[i]);
                ensure!(new == !was_seen, "C33/duplicate-insert", "insert(id{i}) at {:?} returned new={new}, first insertion at {:?}, ttl {ttl:?}", elapsed(), first.get(&i));
                if !was_seen {
                    if first.contains_key(&i) {
                        expired_seen = true;
                    }
                    first.insert(i, elapsed());
                }
            }
            2 | 3 => {
                let was_seen = seen_model(&first, i);
                let got = c.contains(&ids[i]);
                ensure!(got == was_seen, "C33/duplicate-contains", "contains(id{i}) at {:?} = {got}, but the id was first inserted at {:?} and the ttl is {ttl:?}", elapsed(), first.get(&i));
            }
            _ => {
                let d = match choose(4) {
                    0 => ttl,
                    1 => ttl / 2,
                    2 => ttl + Duration::from_millis(1),
                    _ => Duration::from_millis(choose(ttl.as_millis() as usize + 1) as u64),
                };
                advance(d);
            }
        }
    }
    if expired_seen {
        mark_nontrivial();
    }
    note_val("ttl", ttl.as_millis() as u64);
    note_val("steps", steps as u64);
    note_val("ids", first.len() as u64);
    Ok(())
}

fn message_cache() -> SimResult {
    let length = 1 + choose(6);
    let gossip = 1 + choose(length);
    let mut c = gv::MessageCache::new(gossip, length);
    let topics = ["a", "b"];
    let peers: Vec<PeerId> = (0..3).map(|_| Keypair::generate_ed25519().public().to_peer_id()).collect();
    #[derive(Clone)]
    struct M {
        topic: usize,
        validated: bool,
        data: Vec<u8>,
    }
    let mut windows: Vec<Vec<usize>> = vec![vec![]; length];
    let mut live: BTreeMap<usize, M> = BTreeMap::new();
    let mut counts: BTreeMap<(usize, usize), u32> = BTreeMap::new();
    let mut exact = true; // false once remove() left a stale history entry behind (then only upper bounds are checked for gossip)
    let mut stale: BTreeSet<usize> = BTreeSet::new(); // ids with such a stale history entry: their IWANT answers are not judged
    let steps = 15 + choose(80);
    let nid = 6;
    let idb = |i: usize| vec![b'm', i as u8];
    let mut serial = 0u32;
    let mut shifted_out = false;
    for _ in 0..steps {
        let i = choose(nid);
        match choose(12) {
            0..=2 => {
                serial += 1;
                // a message id determines its topic (ids are derived from content)
                let t = i % 2;
                let data = format!("d{serial}").into_bytes();
                let new = c.put(&idb(i), topics[t], data.clone());
                ensure!(new == !live.contains_key(&i), "C33/mcache-put", "put(m{i}) returned {new} but the model {} the message", if live.contains_key(&i) { "holds" } else { "does not hold" });
                if new {
                    live.insert(i, M { topic: t, validated: false, data });
                    windows[0].push(i);
                }
            }
            3 | 4 => {
                let ok = c.validate(&idb(i));
                ensure!(ok == live.contains_key(&i), "C33/mcache-validate", "validate(m{i}) = {ok}");
                if let Some(m) = live.get_mut(&i) {
                    m.validated = true;
                }
            }
            5 | 6 => {
                c.shift();
                let last = windows.pop().unwrap();
                for i in last {
                    // a stale entry (after remove + re-put) takes the new message with it: only with exact == false
                    if live.remove(&i).is_some() {
                        shifted_out = true;
                    }
                    counts.retain(|(m, _), _| *m != i);
                }
                windows.insert(0, vec![]);
            }
            7 | 8 => {
                let p = choose(3);
                let got = c.get_with_iwant_counts(&idb(i), &peers[p]);
                match live.get(&i) {
                    Some(m) if m.validated => {
                        if !stale.contains(&i) {
                            let n = counts.entry((i, p)).or_insert(0);
                            *n += 1;
                            let want = *n;
                            ensure!(got == Some((m.data.clone(), want)), "C33/mcache-iwant", "IWANT m{i} by peer {p}: got {:?}, expected data {:?} with count {want}", got.as_ref().map(|g| g.1), String::from_utf8_lossy(&m.data));
                        }
                    }
                    _ => {
                        ensure!(got.is_none(), "C33/mcache-iwant-served-outside-window", "IWANT m{i}: served although the message is {} (history_length {length})", if live.contains_key(&i) { "not validated" } else { "not within history_length heartbeats" });
                    }
                }
            }
            9 | 10 => {
                let t = choose(2);
                let got: BTreeSet<Vec<u8>> = c.gossip_ids(topics[t]).into_iter().collect();
                let want: BTreeSet<Vec<u8>> = windows[..gossip].iter().flatten().filter(|i| live.get(i).map(|m| m.validated && m.topic == t).unwrap_or(false)).map(|i| idb(*i)).collect();
                if exact {
                    ensure!(got == want, "C33/mcache-gossip", "gossip ids for topic {}: got {got:?}, the newest {gossip} of {length} windows hold validated {want:?}", topics[t]);
                } else {
                    ensure!(got.is_subset(&want), "C33/mcache-gossip-outside-window", "gossip ids for topic {}: {got:?} not within {want:?}", topics[t]);
                }
            }
            _ => {
                let ok = c.remove(&idb(i));
                ensure!(ok == live.contains_key(&i), "C33/mcache-remove", "remove(m{i}) = {ok}");
                if live.remove(&i).is_some() {
                    counts.retain(|(m, _), _| *m != i);
                    // the history entry stays behind in the real cache; the model keeps its window entry too
                    exact = false;
                    stale.insert(i);
                }
            }
        }
    }
    if shifted_out && stale.len() < nid {
        mark_nontrivial();
    }
    note_val("cfg", (gossip * 8 + length) as u64);
    note_val("steps", steps as u64 + 1000 * exact as u64);
    Ok(())
}

// ------------------------------------------------------------------------------------------------
// C34
// ------------------------------------------------------------------------------------------------

fn config_space() -> SimResult {
    reset_ids();
    draw_policy();
    let topics = ["ta", "tb", "tc"];
    let mut cb = gs::ConfigBuilder::default();
    let hb = Duration::from_secs(1);
    cb.heartbeat_interval(hb).heartbeat_initial_delay(hb).validation_mode(gs::ValidationMode::Permissive);
    let small = |_: ()| [0usize, 1, 2, 3, 4, 5, 6, 7, 8, 12, 13][choose(11)];
    let mut touched = 0u64;
    if choose(2) == 0 {
        // a consistent quadruple (so that accepted configs are common and include the extremes)
        let mut v = [small(()), small(()), small(())];
        v.sort();
        let om = choose(v[1] / 2 + 1).min(v[0]);
        cb.mesh_n_low(v[0]).mesh_n(v[1]).mesh_n_high(v[2]).mesh_outbound_min(om);
        touched |= 1 << 20;
    }
    for bit in 0..4 {
        if touched & (1 << 20) != 0 && choose(3) != 0 {
            continue;
        }
        if choose(2) == 0 {
            touched |= 1 << bit;
            let v = small(());
            match bit {
                0 => cb.mesh_n_low(v),
                1 => cb.mesh_n(v),
                2 => cb.mesh_n_high(v),
                _ => cb.mesh_outbound_min(v),
            };
        }
    }
    for (ti, t) in topics.iter().enumerate().take(2) {
        for bit in 0..4 {
            if choose(4) == 0 {
                touched |= 1 << (4 + 4 * ti + bit);
                let v = small(());
                let th = gs::TopicHash::from_raw(*t);
                match bit {
                    0 => cb.mesh_n_low_for_topic(v, th),
                    1 => cb.mesh_n_for_topic(v, th),
                    2 => cb.mesh_n_high_for_topic(v, th),
                    _ => cb.mesh_outbound_min_for_topic(v, th),
                };
            }
        }
        if choose(4) == 0 {
            touched |= 1 << (12 + ti);
            cb.max_transmit_size_for_topic([0usize, 50, 99, 100, 2000][choose(5)], gs::TopicHash::from_raw(*t));
        }
    }
    if choose(3) == 0 {
        touched |= 1 << 14;
        cb.max_transmit_size([0usize, 50, 99, 100, 2000, 65536][choose(6)]);
    }
    if choose(3) == 0 {
        touched |= 1 << 15;
        cb.history_length(choose(7)).history_gossip(choose(7));
    }
    note_val("touched", touched);
    let config = match cb.build() {
        Ok(c) => c,
        Err(_) => {
            probe("config-rejected");
            return Ok(());
        }
    };
    // ---- the documented inequalities ---------------------------------------------------------
    let (lo, n, hi, om) = (config.mesh_n_low(), config.mesh_n(), config.mesh_n_high(), config.mesh_outbound_min());
    ensure!(om <= lo && lo <= n && n <= hi, "C34/default-mesh-params", "build() accepted default mesh parameters outbound_min={om} n_low={lo} n={n} n_high={hi}");
    ensure!(2 * om <= n, "C34/default-outbound-min", "build() accepted default mesh_outbound_min={om} with mesh_n={n}");
    for (ti, t) in topics.iter().enumerate() {
        let th = gs::TopicHash::from_raw(*t);
        let (lo, n, hi, om) = (config.mesh_n_low_for_topic(&th), config.mesh_n_for_topic(&th), config.mesh_n_high_for_topic(&th), config.mesh_outbound_min_for_topic(&th));
        // build() walks the topics that have a per-topic max_transmit_size; per-topic mesh parameters of other
        // topics are a separate (known) hole, reported under its own clause
        if touched & (1 << (12 + ti)) != 0 || touched & (0xf << (4 + 4 * ti)) == 0 {
            ensure!(om <= lo && lo <= n && n <= hi, "C34/topic-mesh-params", "build() accepted mesh parameters for topic {t}: outbound_min={om} n_low={lo} n={n} n_high={hi}");
            ensure!(2 * om <= n, "C34/topic-outbound-min", "build() accepted mesh_outbound_min={om} with mesh_n={n} for topic {t}");
        } else {
            ensure!(om <= lo && lo <= n && n <= hi && 2 * om <= n, "C34/topic-mesh-params-without-topic-transmit-size", "build() accepted mesh parameters for topic {t} (set through *_for_topic, no per-topic max_transmit_size): outbound_min={om} n_low={lo} n={n} n_high={hi}");
        }
        ensure!(config.max_transmit_size_for_topic(&th) >= 100, "C34/topic-max-transmit-size", "build() accepted max_transmit_size {} for topic {t}", config.max_transmit_size_for_topic(&th));
    }
    ensure!(config.max_transmit_size() >= 100, "C34/max-transmit-size", "build() accepted max_transmit_size {}", config.max_transmit_size());
    ensure!(config.history_gossip() <= config.history_length(), "C34/history", "build() accepted history_gossip {} > history_length {}", config.history_gossip(), config.history_length());
    // ---- and the behaviour lives with it -------------------------------------------------------
    let key = Keypair::generate_ed25519();
    let beh: Beh<gs::AllowAllSubscriptionFilter> = gs::Behaviour::new(gs::MessageAuthenticity::Signed(key.clone()), config.clone()).map_err(|e| violation!("harness/behaviour", "{e}"))?;
    let mut node = GNode::from_behaviour(0, key, config.clone(), beh);
    for t in topics {
        let _ = node.beh.borrow_mut().subscribe(&gs::IdentTopic::new(t));
    }
    node.kick();
    run_until_idle();
    let k = choose(25);
    let peers: Vec<PeerId> = (0..k).map(|_| Keypair::generate_ed25519().public().to_peer_id()).collect();
    for (i, p) in peers.iter().enumerate() {
        node.connect(*p, i + 1, choose(2) == 0, Some([2u8, 3, 4, 5][choose(4)]));
        let subs: Vec<(bool, String)> = topics.iter().filter(|_| choose(4) != 0).map(|t| (true, t.to_string())).collect();
        node.deliver(*p, &Rpc { subs, ..Default::default() }.frame());
        if choose(2) == 0 {
            node.deliver(*p, &Rpc { graft: vec![topics[choose(3)].to_string()], ..Default::default() }.frame());
        }
        if choose(6) == 0 {
            run_until_idle();
            advance(hb);
        }
    }
    run_until_idle();
    for _ in 0..2 + choose(7) {
        advance(hb);
        for p in &peers {
            let _ = node.drain(p);
        }
        if k > 0 && choose(3) == 0 {
            let i = choose(k);
            node.disconnect_all(peers[i], i + 1);
            run_until_idle();
        }
        if k > 0 && choose(3) == 0 {
            let i = choose(k);
            if node.conns.get(&peers[i]).map(|v| !v.is_empty()).unwrap_or(false) {
                node.deliver(peers[i], &Rpc { graft: vec![topics[choose(3)].to_string()], ..Default::default() }.frame());
                run_until_idle();
            }
        }
    }
    if k >= 8 {
        mark_nontrivial();
    }
    note_val("peers", (k / 4) as u64);
    Ok(())
}
