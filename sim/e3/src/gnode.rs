//! E3 driver for one real gossipsub `Behaviour`: the harness plays Swarm, handlers and peers.
//! RPCs leave and enter the behaviour through the real wire codec.

use asynchronous_codec::Decoder;
use bytes::BytesMut;
use libp2p_core::transport::PortUse;
use libp2p_core::{ConnectedPoint, Endpoint, Multiaddr};
use libp2p_gossipsub as gs;
use libp2p_gossipsub::verif as gv;
use libp2p_gossipsub::{IdentityTransform, TopicSubscriptionFilter};
use libp2p_identity::{Keypair, PeerId};
use libp2p_swarm::behaviour::{ConnectionClosed, ConnectionEstablished, FromSwarm};
use libp2p_swarm::{ConnectionId, NetworkBehaviour, NotifyHandler, THandlerInEvent, ToSwarm};
use simkit::*;
use std::cell::RefCell;
use std::collections::BTreeMap;
use std::rc::Rc;
use std::task::Poll;

pub type Beh<F> = gs::Behaviour<IdentityTransform, F>;

#[derive(Debug, Clone)]
pub enum GEv {
    Message { propagation_source: PeerId, id: Vec<u8>, data: Vec<u8>, source: Option<PeerId>, topic: String, seqno: Option<u64> },
    Subscribed { peer: PeerId, topic: String },
    Unsubscribed { peer: PeerId, topic: String },
    Notify { peer: PeerId, conn: Option<ConnectionId>, joined: bool },
    Dial(String),
    Other(String),
}

pub struct GNode<F: TopicSubscriptionFilter + Send + 'static> {
    pub idx: usize,
    pub peer: PeerId,
    pub key: Keypair,
    pub config: gs::Config,
    pub beh: Rc<RefCell<Beh<F>>>,
    pub unit: UnitId,
    pub evs: Rc<RefCell<Vec<(u64, GEv)>>>,
    pub conns: BTreeMap<PeerId, Vec<ConnectionId>>,
}

thread_local! {
    static NEXT_CONN: std::cell::Cell<usize> = const { std::cell::Cell::new(1) };
}

pub fn reset_ids() {
    NEXT_CONN.with(|c| c.set(1));
}

fn next_conn() -> ConnectionId {
    NEXT_CONN.with(|c| {
        let v = c.get();
        c.set(v + 1);
        ConnectionId::new_unchecked(v)
    })
}

pub fn addr_of(idx: usize) -> Multiaddr {
    format!("/ip4/10.0.{}.{}/tcp/4001", idx / 200, 1 + idx % 200).parse().unwrap()
}

impl<F: TopicSubscriptionFilter + Send + 'static> GNode<F> {
    pub fn from_behaviour(idx: usize, key: Keypair, config: gs::Config, beh: Beh<F>) -> Self {
        let peer = key.public().to_peer_id();
        let beh = Rc::new(RefCell::new(beh));
        let evs: Rc<RefCell<Vec<(u64, GEv)>>> = Default::default();
        let (b2, e2) = (beh.clone(), evs.clone());
        let unit = spawn(format!("gossipsub-n{idx}"), async move {
            futures::future::poll_fn(move |cx| {
                loop {
                    let r = b2.borrow_mut().poll(cx);
                    match r {
                        Poll::Ready(ev) => {
                            let g = abstract_toswarm(ev);
                            trace!("g{idx} -> {g:?}");
                            e2.borrow_mut().push((next_seq(), g));
                        }
                        Poll::Pending => return Poll::<()>::Pending,
                    }
                }
            })
            .await
        });
        GNode { idx, peer, key, config, beh, unit, evs, conns: BTreeMap::new() }
    }

    pub fn kick(&self) {
        spurious_wake(self.unit);
    }

    /// A new connection to `remote` is established; `kind` as in `gv::peer_kind_event`.
    pub fn connect(&mut self, remote: PeerId, remote_idx: usize, outbound: bool, kind: Option<u8>) -> ConnectionId {
        let id = next_conn();
        let addr = addr_of(remote_idx);
        let local = addr_of(self.idx);
        let other = self.conns.get(&remote).map(|v| v.len()).unwrap_or(0);
        let endpoint = if outbound { ConnectedPoint::Dialer { address: addr.clone(), role_override: Endpoint::Dialer, port_use: PortUse::Reuse } } else { ConnectedPoint::Listener { local_addr: local.clone(), send_back_addr: addr.clone() } };
        {
            let mut b = self.beh.borrow_mut();
            let h = if outbound { b.handle_established_outbound_connection(id, remote, &addr, Endpoint::Dialer, PortUse::Reuse) } else { b.handle_established_inbound_connection(id, remote, &local, &addr) };
            drop(h); // the handler shares the peer's send queue with the behaviour; the harness drains it directly
            b.on_swarm_event(FromSwarm::ConnectionEstablished(ConnectionEstablished { peer_id: remote, connection_id: id, endpoint: &endpoint, failed_addresses: &[], other_established: other }));
            if let Some(k) = kind {
                b.on_connection_handler_event(remote, id, gv::peer_kind_event(k));
            }
        }
        self.conns.entry(remote).or_default().push(id);
        self.kick();
        id
    }

    pub fn disconnect(&mut self, remote: PeerId, remote_idx: usize, id: ConnectionId) {
        let v = self.conns.entry(remote).or_default();
        v.retain(|c| *c != id);
        let remaining = v.len();
        let endpoint = ConnectedPoint::Dialer { address: addr_of(remote_idx), role_override: Endpoint::Dialer, port_use: PortUse::Reuse };
        self.beh.borrow_mut().on_swarm_event(FromSwarm::ConnectionClosed(ConnectionClosed { peer_id: remote, connection_id: id, endpoint: &endpoint, cause: None, remaining_established: remaining }));
        self.kick();
    }

    pub fn disconnect_all(&mut self, remote: PeerId, remote_idx: usize) {
        let ids = self.conns.get(&remote).cloned().unwrap_or_default();
        for id in ids {
            self.disconnect(remote, remote_idx, id);
        }
    }

    /// Everything queued for `to`, as wire frames.
    pub fn drain(&self, to: &PeerId) -> Vec<Vec<u8>> {
        self.beh.borrow_mut().verif_drain_rpcs(to)
    }

    /// Deliver one wire frame from `from` through the real codec; returns the decoded view
    /// (None if the codec rejected the frame, which a real handler answers by failing the stream).
    pub fn deliver(&mut self, from: PeerId, frame: &[u8]) -> Option<gv::DecodedRpc> {
        let Some(conn) = self.conns.get(&from).and_then(|v| v.first().copied()) else { return None };
        let mut codec = gv::codec_for(&self.config);
        let mut buf = BytesMut::from(frame);
        match codec.decode(&mut buf) {
            Ok(Some(ev)) => {
                let view = gv::view_handler_event(&ev);
                self.beh.borrow_mut().on_connection_handler_event(from, conn, ev);
                self.kick();
                view
            }
            _ => None,
        }
    }
}

fn abstract_toswarm<I: std::fmt::Debug>(ev: ToSwarm<gs::Event, I>) -> GEv {
    match ev {
        ToSwarm::GenerateEvent(gs::Event::Message { propagation_source, message_id, message }) => GEv::Message { propagation_source, id: message_id.0, data: message.data, source: message.source, topic: message.topic.into_string(), seqno: message.sequence_number },
        ToSwarm::GenerateEvent(gs::Event::Subscribed { peer_id, topic, .. }) => GEv::Subscribed { peer: peer_id, topic: topic.into_string() },
        ToSwarm::GenerateEvent(gs::Event::Unsubscribed { peer_id, topic }) => GEv::Unsubscribed { peer: peer_id, topic: topic.into_string() },
        ToSwarm::GenerateEvent(e) => GEv::Other(format!("{e:?}")),
        ToSwarm::NotifyHandler { peer_id, handler, event } => {
            let joined = format!("{event:?}").contains("JoinedMesh");
            GEv::Notify { peer: peer_id, conn: match handler {
                NotifyHandler::One(c) => Some(c),
                NotifyHandler::Any => None,
            }, joined }
        }
        ToSwarm::Dial { opts } => GEv::Dial(format!("{:?}", opts.get_peer_id())),
        other => GEv::Other(format!("{other:?}").chars().take(80).collect()),
    }
}

#[allow(dead_code)]
fn _t<F: TopicSubscriptionFilter + Send + 'static>(_: THandlerInEvent<Beh<F>>) {}
