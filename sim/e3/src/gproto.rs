//! Reference protobuf encoder for gossipsub RPCs (written by hand from rpc.proto).

pub fn varint(mut v: u64, out: &mut Vec<u8>) {
    loop {
        let b = (v & 0x7f) as u8;
        v >>= 7;
        if v == 0 {
            out.push(b);
            break;
        }
        out.push(b | 0x80);
    }
}

pub fn field(tag: u8, payload: &[u8], out: &mut Vec<u8>) {
    out.push((tag << 3) | 2);
    varint(payload.len() as u64, out);
    out.extend_from_slice(payload);
}

pub fn vfield(tag: u8, v: u64, out: &mut Vec<u8>) {
    out.push(tag << 3);
    varint(v, out);
}

#[derive(Clone, Debug, Default, PartialEq)]
pub struct Msg {
    pub from: Option<Vec<u8>>,
    pub data: Option<Vec<u8>>,
    pub seqno: Option<Vec<u8>>,
    pub topic: String,
    pub signature: Option<Vec<u8>>,
    pub key: Option<Vec<u8>>,
}

impl Msg {
    pub fn encode(&self) -> Vec<u8> {
        let mut m = vec![];
        if let Some(x) = &self.from {
            field(1, x, &mut m);
        }
        if let Some(x) = &self.data {
            field(2, x, &mut m);
        }
        if let Some(x) = &self.seqno {
            field(3, x, &mut m);
        }
        field(4, self.topic.as_bytes(), &mut m);
        if let Some(x) = &self.signature {
            field(5, x, &mut m);
        }
        if let Some(x) = &self.key {
            field(6, x, &mut m);
        }
        m
    }
    /// bytes covered by the signature: "libp2p-pubsub:" ++ protobuf of the message without signature and key
    pub fn signing_bytes(&self) -> Vec<u8> {
        let mut m = self.clone();
        m.signature = None;
        m.key = None;
        let mut out = b"libp2p-pubsub:".to_vec();
        out.extend(m.encode());
        out
    }
}

#[derive(Clone, Debug, Default)]
pub struct Rpc {
    pub subs: Vec<(bool, String)>,
    pub msgs: Vec<Msg>,
    pub ihave: Vec<(String, Vec<Vec<u8>>)>,
    pub iwant: Vec<Vec<Vec<u8>>>,
    pub graft: Vec<String>,
    /// (topic, backoff seconds, px peer ids)
    pub prune: Vec<(String, Option<u64>, Vec<Vec<u8>>)>,
}

impl Rpc {
    pub fn body(&self) -> Vec<u8> {
        let mut b = vec![];
        for (sub, t) in &self.subs {
            let mut s = vec![];
            vfield(1, *sub as u64, &mut s);
            field(2, t.as_bytes(), &mut s);
            field(1, &s, &mut b);
        }
        for m in &self.msgs {
            field(2, &m.encode(), &mut b);
        }
        if !(self.ihave.is_empty() && self.iwant.is_empty() && self.graft.is_empty() && self.prune.is_empty()) {
            let mut c = vec![];
            for (t, ids) in &self.ihave {
                let mut x = vec![];
                field(1, t.as_bytes(), &mut x);
                for i in ids {
                    field(2, i, &mut x);
                }
                field(1, &x, &mut c);
            }
            for ids in &self.iwant {
                let mut x = vec![];
                for i in ids {
                    field(1, i, &mut x);
                }
                field(2, &x, &mut c);
            }
            for t in &self.graft {
                let mut x = vec![];
                field(1, t.as_bytes(), &mut x);
                field(3, &x, &mut c);
            }
            for (t, backoff, px) in &self.prune {
                let mut x = vec![];
                field(1, t.as_bytes(), &mut x);
                for p in px {
                    let mut pi = vec![];
                    field(1, p, &mut pi);
                    field(2, &pi, &mut x);
                }
                if let Some(b) = backoff {
                    vfield(3, *b, &mut x);
                }
                field(4, &x, &mut c);
            }
            field(3, &c, &mut b);
        }
        b
    }
    /// length-prefixed frame
    pub fn frame(&self) -> Vec<u8> {
        let body = self.body();
        let mut out = vec![];
        varint(body.len() as u64, &mut out);
        out.extend(body);
        out
    }
}
