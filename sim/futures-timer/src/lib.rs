//! Drop-in replacement for `futures-timer` 3.0.3 used only inside the /verif simulation
//! workspace. A `Delay` is a deadline on the virtual clock of the patched `web-time`; it
//! completes when polled at or after that virtual time. The simulator asks `sim::next_deadline`
//! where to jump the clock when nothing is runnable and calls `sim::fire_due` afterwards.

use std::cell::RefCell;
use std::collections::BTreeMap;
use std::fmt;
use std::future::Future;
use std::pin::Pin;
use std::sync::{Arc, Mutex};
use std::task::{Context, Poll, Waker};
use std::time::Duration;

struct Slot {
    waker: Option<Waker>,
}

struct Wheel {
    // (deadline, registration sequence) -> slot; BTreeMap gives a total, deterministic order.
    entries: BTreeMap<(Duration, u64), Arc<Mutex<Slot>>>,
    seq: u64,
    created: u64,
    fired: u64,
}

thread_local! {
    static WHEEL: RefCell<Wheel> = RefCell::new(Wheel { entries: BTreeMap::new(), seq: 0, created: 0, fired: 0 });
}

pub mod sim {
    use super::*;
    /// Earliest registered deadline (absolute virtual time), if any.
    pub fn next_deadline() -> Option<Duration> {
        WHEEL.with(|w| w.borrow().entries.keys().next().map(|k| k.0))
    }
    /// Wake every registered Delay whose deadline is <= the current virtual time.
    /// Returns how many were woken.
    pub fn fire_due() -> usize {
        let now = web_time::sim::now();
        let due: Vec<Arc<Mutex<Slot>>> = WHEEL.with(|w| {
            let mut w = w.borrow_mut();
            let mut out = Vec::new();
            while let Some((&k, _)) = w.entries.iter().next() {
                if k.0 > now {
                    break;
                }
                out.push(w.entries.remove(&k).unwrap());
            }
            w.fired += out.len() as u64;
            out
        });
        let n = due.len();
        for s in due {
            let wk = s.lock().unwrap().waker.take();
            if let Some(wk) = wk {
                wk.wake();
            }
        }
        n
    }
    pub fn pending() -> usize {
        WHEEL.with(|w| w.borrow().entries.len())
    }
    pub fn stats() -> (u64, u64) {
        WHEEL.with(|w| {
            let w = w.borrow();
            (w.created, w.fired)
        })
    }
    pub fn reset() {
        WHEEL.with(|w| {
            let mut w = w.borrow_mut();
            w.entries.clear();
            w.seq = 0;
            w.created = 0;
            w.fired = 0;
        })
    }
}

pub struct Delay {
    deadline: Duration,
    key: Option<(Duration, u64)>,
    slot: Arc<Mutex<Slot>>,
}

impl Delay {
    pub fn new(dur: Duration) -> Delay {
        WHEEL.with(|w| w.borrow_mut().created += 1);
        Delay {
            deadline: web_time::sim::now().checked_add(dur).unwrap_or(Duration::MAX),
            key: None,
            slot: Arc::new(Mutex::new(Slot { waker: None })),
        }
    }

    pub fn reset(&mut self, dur: Duration) {
        self.unregister();
        self.deadline = web_time::sim::now().checked_add(dur).unwrap_or(Duration::MAX);
    }

    fn unregister(&mut self) {
        if let Some(k) = self.key.take() {
            // try_with: a Delay may be dropped during thread-local teardown.
            let _ = WHEEL.try_with(|w| {
                if let Ok(mut w) = w.try_borrow_mut() {
                    w.entries.remove(&k);
                }
            });
        }
    }
}

impl Future for Delay {
    type Output = ();
    fn poll(mut self: Pin<&mut Self>, cx: &mut Context<'_>) -> Poll<()> {
        if web_time::sim::now() >= self.deadline {
            self.unregister();
            return Poll::Ready(());
        }
        self.slot.lock().unwrap().waker = Some(cx.waker().clone());
        if self.key.is_none() {
            let deadline = self.deadline;
            let slot = self.slot.clone();
            let k = WHEEL.with(|w| {
                let mut w = w.borrow_mut();
                w.seq += 1;
                let k = (deadline, w.seq);
                w.entries.insert(k, slot);
                k
            });
            self.key = Some(k);
        }
        Poll::Pending
    }
}

impl Drop for Delay {
    fn drop(&mut self) {
        self.unregister();
    }
}

impl fmt::Debug for Delay {
    fn fmt(&self, f: &mut fmt::Formatter<'_>) -> fmt::Result {
        f.debug_struct("Delay").field("deadline", &self.deadline).finish()
    }
}
