//! C14 — multistream-select negotiation agrees and is transparent to application data.
//! C15(a) rides on the same runs: the tapped wire bytes must equal the reference encoding.
use futures::io::{AsyncReadExt, AsyncWriteExt};
use multistream_select::{dialer_select_proto, listener_select_proto, NegotiationError, Version};
use simkit::pipe::{self, PipeCfg};
use simkit::*;
use std::cell::RefCell;
use std::rc::Rc;

pub const VALID: &[&str] = &["/a", "/b", "/c", "/a/b", "/long/protocol/name/1.0.0", "/ü/utf8"];
pub const INVALID: &[&str] = &["b", "", "na", "x/y"];

pub fn check() -> Check {
    Check {
        id: "C14",
        title: "Protocol negotiation agrees and is transparent to application data",
        level: Level::Exploration,
        rule: "each run draws dialer and listener protocol lists over a shared alphabet (duplicates, empty lists, invalid names on the listener side), the version (V1/V1Lazy), application payloads written right after each side's future resolves (before the peer answered for V1Lazy), two pipe configurations (capacity 1..1MiB, byte/random/full chunking, spurious Pending) and the schedule of 2 units; heavy profile adds a connection reset at a drawn step. Non-trivial = negotiation needed at least one rejection round, or V1Lazy optimistic path taken, or a fault fired, or a short read split a negotiation frame; distinct = fingerprint over (|D|,|L|, index of the match, version, chunking modes, outcome kinds, fault kinds)",
        assumptions: &["pipe is a reliable ordered byte stream; dialer-side protocol names are valid (an invalid dialer name aborts the dialer by design and is exercised with a weaker no-disagreement oracle)"],
        real: &["multistream_select::{dialer_select_proto, listener_select_proto, Negotiated}", "length_delimited framing", "Message encode/decode"],
        stub: &["socket -> simkit::pipe"],
        scenarios: vec![
            Scenario::new("negotiate", 4000, 400_000, negotiate),
            Scenario::new("negotiate-invalid-dialer-name", 500, 40_000, negotiate_invalid_dialer),
        ],
    }
}

#[derive(Debug, Clone, PartialEq)]
pub enum Out {
    Ok(String),
    Failed,
    ProtoErr(String),
}

fn outcome<T>(r: &Result<(String, T), NegotiationError>) -> Out {
    match r {
        Ok((p, _)) => Out::Ok(p.clone()),
        Err(NegotiationError::Failed) => Out::Failed,
        Err(NegotiationError::ProtocolError(e)) => Out::ProtoErr(format!("{e:?}")),
    }
}

#[derive(Default, Debug)]
pub struct Side {
    pub out: Option<Out>,
    pub read: Vec<u8>,
    pub read_err: Option<String>,
    pub write_err: Option<String>,
    pub finished: bool,
}

pub fn varint(mut v: usize, out: &mut Vec<u8>) {
    loop {
        let b = (v & 0x7f) as u8;
        v >>= 7;
        if v == 0 {
            out.push(b);
            break;
        }
        out.push(b | 0x80);
    }
}

pub fn frame(body: &[u8], out: &mut Vec<u8>) {
    varint(body.len(), out);
    out.extend_from_slice(body);
}

pub fn proto_frame(name: &str, out: &mut Vec<u8>) {
    let mut b = name.as_bytes().to_vec();
    b.push(b'\n');
    frame(&b, out);
}

pub const HEADER: &[u8] = b"/multistream/1.0.0\n";

/// Does `payload` start with something the listener would take for a negotiation message?
fn looks_like_message(p: &[u8]) -> bool {
    // be conservative: anything whose first byte could start a complete, decodable frame
    if p.is_empty() {
        return false;
    }
    let (len, hdr) = if p[0] & 0x80 == 0 {
        (p[0] as usize, 1)
    } else if p.len() >= 2 && p[1] & 0x80 == 0 {
        (((p[0] & 0x7f) as usize) | ((p[1] as usize) << 7), 2)
    } else {
        return false; // over-long or incomplete prefix
    };
    if p.len() < hdr + len {
        return false; // incomplete frame -> EOF inside frame
    }
    let body = &p[hdr..hdr + len];
    body == b"ls\n" || body == b"na\n" || body == HEADER || (body.first() == Some(&b'/') && body.last() == Some(&b'\n'))
}

fn draw_list(valid_only: bool) -> Vec<String> {
    let n = choose(5);
    (0..n)
        .map(|_| {
            if !valid_only && choose(5) == 0 {
                pick(INVALID).to_string()
            } else {
                pick(VALID).to_string()
            }
        })
        .collect()
}

fn payload(tag: u8) -> Vec<u8> {
    let n = small(0, 300);
    (0..n).map(|i| if i == 0 { tag } else { choose(256) as u8 }).collect()
}

async fn exchange<S: futures::AsyncRead + futures::AsyncWrite + Unpin>(io: S, out: Vec<u8>, side: Rc<RefCell<Side>>, close: bool) {
    let (mut r, mut w) = io.split();
    let s2 = side.clone();
    let wr = async move {
        let res = async {
            w.write_all(&out).await?;
            w.flush().await?;
            if close {
                w.close().await?;
            }
            Ok::<(), std::io::Error>(())
        }
        .await;
        if let Err(e) = res {
            s2.borrow_mut().write_err = Some(format!("{:?}", e.kind()));
        }
        w
    };
    let s3 = side.clone();
    let rd = async move {
        let mut buf = [0u8; 97];
        loop {
            match r.read(&mut buf).await {
                Ok(0) => break,
                Ok(n) => s3.borrow_mut().read.extend_from_slice(&buf[..n]),
                Err(e) => {
                    s3.borrow_mut().read_err = Some(format!("{:?}", e.kind()));
                    break;
                }
            }
        }
    };
    let (_w, _) = futures::join!(wr, rd);
    side.borrow_mut().finished = true;
}

pub struct Setup {
    pub d: Vec<String>,
    pub l: Vec<String>,
    pub version: Version,
    pub pa: Vec<u8>,
    pub pb: Vec<u8>,
}

pub struct RunResult {
    pub ds: Rc<RefCell<Side>>,
    pub ls: Rc<RefCell<Side>>,
    pub wire_d2l: Vec<u8>,
    pub wire_l2d: Vec<u8>,
    pub reset: bool,
}

/// Run one dialer/listener pair to completion under the drawn schedule.
pub fn run_pair(s: &Setup, allow_reset: bool) -> Result<RunResult, Violation> {
    draw_policy();
    // multistream-select writes a whole flight (header + proposal, <= 2 frames) before reading:
    // the transport must buffer at least that much in each direction.
    // one run in three uses a transport with buffered-writer semantics: nothing reaches the peer before a flush
    let staged = choose(3) == 0;
    if staged {
        probe("transport_needs_flush");
    }
    let (a, b) = pipe::pair_cfg(PipeCfg::draw_min_cap(40_000).with_staged(staged), PipeCfg::draw_min_cap(40_000).with_staged(staged));
    let ctl = a.ctl();
    ctl.tap_tx();
    ctl.tap_rx();
    let ds: Rc<RefCell<Side>> = Default::default();
    let ls: Rc<RefCell<Side>> = Default::default();
    let (d, version, pa, dsc) = (s.d.clone(), s.version, s.pa.clone(), ds.clone());
    let du = spawn("dialer", async move {
        let r = dialer_select_proto(a, d, version).await;
        dsc.borrow_mut().out = Some(outcome(&r));
        if let Ok((_, io)) = r {
            exchange(io, pa, dsc, true).await;
        } else {
            dsc.borrow_mut().finished = true;
        }
    });
    let (l, pb, lsc) = (s.l.clone(), s.pb.clone(), ls.clone());
    let lu = spawn("listener", async move {
        let r = listener_select_proto(b, l).await;
        lsc.borrow_mut().out = Some(outcome(&r));
        if let Ok((_, io)) = r {
            exchange(io, pb, lsc, true).await;
        } else {
            lsc.borrow_mut().finished = true;
        }
    });
    let mut reset = false;
    let reset_at = if allow_reset && profile() == Profile::Heavy && choose(3) == 0 { Some(choose(60)) } else { None };
    let mut n = 0;
    while step() {
        n += 1;
        if Some(n) == reset_at {
            ctl.reset();
            fired("conn_reset");
            reset = true;
        }
    }
    ensure!(is_done(du) && is_done(lu), "C14/stuck", "negotiation did not terminate: dialer done={} listener done={} D={:?} L={:?} v={:?} dialer={:?} listener={:?} pipe: d2l buffered={} written={} consumed={} l2d buffered={} written={} consumed={}", is_done(du), is_done(lu), s.d, s.l, s.version, ds.borrow(), ls.borrow(), ctl.tx_buffered(), ctl.tx_written(), ctl.tx_consumed(), ctl.rx_buffered(), ctl.rx_written(), ctl.rx_consumed());
    Ok(RunResult { ds, ls, wire_d2l: ctl.take_tap_tx(), wire_l2d: ctl.take_tap_rx(), reset })
}

fn negotiate() -> SimResult {
    let d = draw_list(true);
    let l = draw_list(false);
    let version = if choose(2) == 0 { Version::V1 } else { Version::V1Lazy };
    let lvalid: Vec<&String> = l.iter().filter(|p| p.starts_with('/')).collect();
    let common_idx = d.iter().position(|p| lvalid.contains(&p));
    // The dialer settles optimistically on its *last* protocol when no earlier one matched.
    let lazy = version == Version::V1Lazy && !d.is_empty() && common_idx.map(|i| i == d.len() - 1).unwrap_or(true);
    let mut pa = payload(0xA1);
    let pb = payload(0xB1);
    if lazy && common_idx.is_none() && looks_like_message(&pa) {
        pa[0] = 0; // keep the optimistic payload from aliasing a negotiation message
    }
    note_val("D", d.len() as u64);
    note_val("L", l.len() as u64);
    note_val("match", common_idx.map(|i| i as u64 + 1).unwrap_or(0));
    note_val("lazy", lazy as u64 + 2 * (version == Version::V1Lazy) as u64);
    let s = Setup { d: d.clone(), l: l.clone(), version, pa: pa.clone(), pb: pb.clone() };
    let r = run_pair(&s, true)?;
    let (ds, ls) = (r.ds.borrow(), r.ls.borrow());
    let dout = ds.out.clone().unwrap();
    let lout = ls.out.clone().unwrap();
    trace!("D={d:?} L={l:?} v={version:?} dialer={dout:?} listener={lout:?} reset={}", r.reset);
    if common_idx.map(|i| i > 0).unwrap_or(!d.is_empty()) || lazy {
        mark_nontrivial();
    }
    set_sample(|| format!("D={d:?} L={l:?} {version:?} pa={}B pb={}B -> dialer {dout:?} / listener {lout:?}{}", pa.len(), pb.len(), if r.reset { " (reset injected)" } else { "" }));
    if r.reset {
        // Under a connection reset only safety remains: no disagreement, data is a prefix.
        if let (Out::Ok(x), Out::Ok(y)) = (&dout, &lout) {
            ensure!(x == y, "C14/disagree", "both sides ok on different protocols {x} vs {y}");
        }
        ensure!(pb.starts_with(&ds.read), "C14/data-corrupt", "dialer read non-prefix data under reset");
        ensure!(pa.starts_with(&ls.read), "C14/data-corrupt", "listener read non-prefix data under reset");
        return Ok(());
    }
    match (common_idx, lazy) {
        (Some(i), _) => {
            let p = &d[i];
            ensure!(dout == Out::Ok(p.clone()), "C14/dialer-outcome", "expected dialer Ok({p}) got {dout:?}; D={d:?} L={l:?} {version:?}");
            ensure!(lout == Out::Ok(p.clone()), "C14/listener-outcome", "expected listener Ok({p}) got {lout:?}; D={d:?} L={l:?} {version:?}");
            ensure!(ds.read_err.is_none() && ls.read_err.is_none() && ds.write_err.is_none() && ls.write_err.is_none(), "C14/io-error-after-success", "io error after successful negotiation: dialer {:?}/{:?} listener {:?}/{:?}", ds.read_err, ds.write_err, ls.read_err, ls.write_err);
            ensure!(ls.read == pa, "C14/payload-to-listener", "listener read {} bytes, dialer wrote {} (first diff at {:?}); D={d:?} L={l:?} {version:?}", ls.read.len(), pa.len(), first_diff(&ls.read, &pa));
            ensure!(ds.read == pb, "C14/payload-to-dialer", "dialer read {} bytes, listener wrote {} (first diff at {:?}); D={d:?} L={l:?} {version:?}", ds.read.len(), pb.len(), first_diff(&ds.read, &pb));
            // C15(a): exact wire image from the reference encoder
            if profile() == Profile::None || true {
                let mut exp_d2l = vec![];
                frame(HEADER, &mut exp_d2l);
                for q in &d[..=i] {
                    proto_frame(q, &mut exp_d2l);
                }
                exp_d2l.extend_from_slice(&pa);
                let mut exp_l2d = vec![];
                frame(HEADER, &mut exp_l2d);
                for _ in 0..i {
                    frame(b"na\n", &mut exp_l2d);
                }
                proto_frame(p, &mut exp_l2d);
                exp_l2d.extend_from_slice(&pb);
                ensure!(r.wire_d2l == exp_d2l, "C15/wire-image-dialer", "dialer wire bytes differ from reference encoding at {:?}", first_diff(&r.wire_d2l, &exp_d2l));
                ensure!(r.wire_l2d == exp_l2d, "C15/wire-image-listener", "listener wire bytes differ from reference encoding at {:?}", first_diff(&r.wire_l2d, &exp_l2d));
            }
        }
        (None, false) => {
            ensure!(dout == Out::Failed, "C14/dialer-outcome", "expected dialer Failed got {dout:?}; D={d:?} L={l:?} {version:?}");
            ensure!(lout == Out::Failed, "C14/listener-outcome", "expected listener Failed got {lout:?}; D={d:?} L={l:?} {version:?}");
        }
        (None, true) => {
            probe("v1lazy_failure_observed");
            ensure!(dout == Out::Ok(d.last().unwrap().clone()), "C14/lazy-dialer-outcome", "V1Lazy single-protocol dialer should settle optimistically, got {dout:?}");
            ensure!(lout == Out::Failed, "C14/lazy-listener-outcome", "expected listener Failed got {lout:?}; D={d:?} L={l:?} pa[..4]={:?}", &pa[..pa.len().min(4)]);
            ensure!(ds.read.is_empty(), "C14/lazy-dialer-read-data", "dialer read {} bytes of data after a refused optimistic negotiation", ds.read.len());
            ensure!(ds.read_err.is_some(), "C14/lazy-dialer-no-error", "dialer's first read after refused optimistic negotiation returned EOF/ok instead of an error");
        }
    }
    Ok(())
}

pub fn first_diff(a: &[u8], b: &[u8]) -> Option<usize> {
    a.iter().zip(b.iter()).position(|(x, y)| x != y).or(if a.len() != b.len() { Some(a.len().min(b.len())) } else { None })
}

/// An invalid name in the dialer's list aborts the dialer when reached; weaker oracle.
fn negotiate_invalid_dialer() -> SimResult {
    let mut d = draw_list(true);
    let pos = choose(d.len() + 1);
    d.insert(pos, pick(INVALID).to_string());
    let l = draw_list(false);
    let version = if choose(2) == 0 { Version::V1 } else { Version::V1Lazy };
    let lvalid: Vec<&String> = l.iter().filter(|p| p.starts_with('/')).collect();
    let common_before = d[..pos].iter().find(|p| lvalid.contains(p)).cloned();
    note_val("pos", pos as u64);
    note_val("common_before", common_before.is_some() as u64);
    let s = Setup { d: d.clone(), l: l.clone(), version, pa: payload(0xA1), pb: payload(0xB1) };
    let r = run_pair(&s, false)?;
    let (ds, ls) = (r.ds.borrow(), r.ls.borrow());
    let (dout, lout) = (ds.out.clone().unwrap(), ls.out.clone().unwrap());
    mark_nontrivial();
    set_sample(|| format!("D={d:?} L={l:?} {version:?} -> {dout:?} / {lout:?}"));
    match common_before {
        Some(p) => {
            ensure!(dout == Out::Ok(p.clone()) && lout == Out::Ok(p.clone()), "C14/outcome-before-invalid", "match {p} precedes the invalid name but got {dout:?}/{lout:?}");
            ensure!(ls.read == s.pa && ds.read == s.pb, "C14/payload", "payload mismatch");
        }
        None => {
            ensure!(!matches!(dout, Out::Ok(_)), "C14/invalid-name-accepted", "dialer succeeded ({dout:?}) although an invalid name precedes any match; D={d:?} L={l:?}");
            ensure!(!matches!(lout, Out::Ok(_)), "C14/listener-ok-without-dialer", "listener succeeded ({lout:?}) while dialer failed; D={d:?} L={l:?}");
        }
    }
    Ok(())
}
