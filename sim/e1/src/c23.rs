//! C23 — DNS dialing is bounded and never leaks unresolved or foreign addresses.
use futures::future::BoxFuture;
use futures::FutureExt;
use hickory_resolver::lookup::Lookup;
use hickory_resolver::lookup_ip::LookupIp;
use hickory_resolver::proto::op::Query;
use hickory_resolver::proto::rr::rdata::{A, AAAA, CNAME, TXT};
use hickory_resolver::proto::rr::{Name, RData, Record, RecordType};
use libp2p_core::multiaddr::{Multiaddr, Protocol};
use libp2p_core::transport::{DialOpts, ListenerId, PortUse, TransportError, TransportEvent};
use libp2p_core::{Endpoint, Transport};
use libp2p_dns::ResolveError;
use simkit::*;
use std::net::{Ipv4Addr, Ipv6Addr};
use std::pin::Pin;
use std::str::FromStr;
use std::sync::atomic::{AtomicUsize, Ordering};
use std::sync::{Arc, Mutex};
use std::task::{Context, Poll};

pub fn check() -> Check {
    Check {
        id: "C23",
        title: "DNS dialing is bounded and never leaks unresolved or foreign addresses",
        level: Level::FaultEnumeration,
        rule: "the real libp2p_dns::Transport (built through the cfg(libp2p_verif) constructor) over a simulated resolver backed by a drawn record graph of <=6 names: A/AAAA sets (0..3 records), TXT dnsaddr fan-out (0..20 entries incl. cycles, self references, foreign /p2p suffixes, malformed entries), and per-name faults: resolver error, empty answer, answer holding only records of another type, slow answer (Pending); the recording inner transport fails/succeeds dials by plan. Dialled addresses: /dns, /dns4, /dns6, /dnsaddr with and without /p2p suffix (also behind a relay prefix), two DNS components in one address, plain /ip4. Oracle per dial: lookups <= 32, inner dial attempts <= 16, no address given to the inner transport contains a dns component, for /dnsaddr every dialled address ends with the original suffix, the dial future resolves (no panic, no hang). Non-trivial = at least one lookup happened and (a fault fired or fan-out > 1); distinct = fingerprint of (address kind, graph shape classes, fault kinds, outcome)",
        assumptions: &["hickory Lookup values are built by hand (Lookup::new_with_max_ttl); the resolver seam is the crate's own Resolver trait"],
        real: &["libp2p_dns::Transport::do_dial, resolve, parse_dnsaddr_txt"],
        stub: &["hickory resolver -> simulated record graph", "inner transport -> recording transport"],
        scenarios: vec![Scenario::new("dial", 6000, 600_000, dial)],
    }
}

#[derive(Clone, Debug, Default)]
struct NameRec {
    a: Vec<Ipv4Addr>,
    aaaa: Vec<Ipv6Addr>,
    txt: Vec<String>,
    /// 0 ok, 1 error, 2 empty answer, 3 only records of another type
    fault_ip: u8,
    fault_txt: u8,
    slow: bool,
}

#[derive(Clone)]
struct SimResolver {
    names: Arc<Vec<NameRec>>,
    lookups: Arc<AtomicUsize>,
}

fn idx_of(name: &str) -> Option<usize> {
    let n = name.trim_start_matches("_dnsaddr.");
    n.strip_prefix('n').and_then(|d| d.split('.').next()).and_then(|d| d.parse().ok())
}

struct YieldOnce(bool);
impl std::future::Future for YieldOnce {
    type Output = ();
    fn poll(mut self: Pin<&mut Self>, cx: &mut Context<'_>) -> Poll<()> {
        if self.0 {
            Poll::Ready(())
        } else {
            self.0 = true;
            cx.waker().wake_by_ref();
            Poll::Pending
        }
    }
}

fn query(name: &str, t: RecordType) -> Query {
    Query::query(Name::from_str(&format!("{name}.")).unwrap_or_else(|_| Name::root()), t)
}

impl SimResolver {
    fn rec(&self, name: &str) -> Option<NameRec> {
        idx_of(name).and_then(|i| self.names.get(i).cloned())
    }
    async fn ip(&self, name: String, want4: bool, want6: bool) -> Result<Lookup, ResolveError> {
        self.lookups.fetch_add(1, Ordering::SeqCst);
        let Some(r) = self.rec(&name) else { return Err(ResolveError::from("NXDOMAIN")) };
        if r.slow {
            YieldOnce(false).await;
        }
        let q = query(&name, if want4 { RecordType::A } else { RecordType::AAAA });
        let nm = q.name().clone();
        match r.fault_ip {
            1 => return Err(ResolveError::from("simulated resolver error")),
            2 => return Ok(Lookup::new_with_max_ttl(q, Vec::<Record>::new())),
            3 => {
                // an answer section that only holds a record of another type
                let other = Record::from_rdata(nm.clone(), 60, RData::CNAME(CNAME(Name::from_str("elsewhere.example.").unwrap())));
                return Ok(Lookup::new_with_max_ttl(q, vec![other]));
            }
            _ => {}
        }
        let mut recs = vec![];
        if want4 {
            for ip in &r.a {
                recs.push(Record::from_rdata(nm.clone(), 60, RData::A(A(*ip))));
            }
        }
        if want6 {
            for ip in &r.aaaa {
                recs.push(Record::from_rdata(nm.clone(), 60, RData::AAAA(AAAA(*ip))));
            }
        }
        if recs.is_empty() {
            // a well-behaved resolver reports "no records" as an error
            return Err(ResolveError::from("no records found"));
        }
        Ok(Lookup::new_with_max_ttl(q, recs))
    }
}

impl libp2p_dns::Resolver for SimResolver {
    async fn lookup_ip(&self, name: String) -> Result<LookupIp, ResolveError> {
        self.ip(name, true, true).await.map(LookupIp::from)
    }
    async fn ipv4_lookup(&self, name: String) -> Result<Lookup, ResolveError> {
        self.ip(name, true, false).await
    }
    async fn ipv6_lookup(&self, name: String) -> Result<Lookup, ResolveError> {
        self.ip(name, false, true).await
    }
    async fn txt_lookup(&self, name: String) -> Result<Lookup, ResolveError> {
        self.lookups.fetch_add(1, Ordering::SeqCst);
        let Some(r) = self.rec(&name) else { return Err(ResolveError::from("NXDOMAIN")) };
        if r.slow {
            YieldOnce(false).await;
        }
        let q = query(&name, RecordType::TXT);
        let nm = q.name().clone();
        match r.fault_txt {
            1 => return Err(ResolveError::from("simulated resolver error")),
            2 => return Ok(Lookup::new_with_max_ttl(q, Vec::<Record>::new())),
            3 => {
                let other = Record::from_rdata(nm.clone(), 60, RData::A(A(Ipv4Addr::new(9, 9, 9, 9))));
                return Ok(Lookup::new_with_max_ttl(q, vec![other]));
            }
            _ => {}
        }
        let recs: Vec<Record> = r.txt.iter().map(|t| Record::from_rdata(nm.clone(), 60, RData::TXT(TXT::new(vec![t.clone()])))).collect();
        Ok(Lookup::new_with_max_ttl(q, recs))
    }
}

/// Recording inner transport.
struct RecTransport {
    /// every address handed to `dial`
    log: Arc<Mutex<Vec<Multiaddr>>>,
    /// number of dials that were accepted (returned a future), i.e. real dial attempts
    attempts: Arc<AtomicUsize>,
    /// outcome of the k-th dial: true = success
    plan: Vec<bool>,
    refuse_sync: bool,
}

impl Transport for RecTransport {
    type Output = usize;
    type Error = std::io::Error;
    type ListenerUpgrade = BoxFuture<'static, Result<usize, std::io::Error>>;
    type Dial = BoxFuture<'static, Result<usize, std::io::Error>>;
    fn listen_on(&mut self, _: ListenerId, a: Multiaddr) -> Result<(), TransportError<Self::Error>> {
        Err(TransportError::MultiaddrNotSupported(a))
    }
    fn remove_listener(&mut self, _: ListenerId) -> bool {
        false
    }
    fn dial(&mut self, addr: Multiaddr, _: DialOpts) -> Result<Self::Dial, TransportError<Self::Error>> {
        let k = {
            let mut l = self.log.lock().unwrap();
            l.push(addr.clone());
            l.len() - 1
        };
        if self.refuse_sync && k % 3 == 2 {
            // refused on the spot: no dialling happens, this is not a dial attempt
            return Err(TransportError::MultiaddrNotSupported(addr));
        }
        self.attempts.fetch_add(1, Ordering::SeqCst);
        let ok = self.plan.get(k).copied().unwrap_or(false);
        Ok(async move {
            YieldOnce(false).await;
            if ok {
                Ok(k)
            } else {
                Err(std::io::Error::other("simulated dial failure"))
            }
        }
        .boxed())
    }
    fn poll(self: Pin<&mut Self>, _: &mut Context<'_>) -> Poll<TransportEvent<Self::ListenerUpgrade, Self::Error>> {
        Poll::Pending
    }
}

fn has_dns(a: &Multiaddr) -> bool {
    a.iter().any(|p| matches!(p, Protocol::Dns(_) | Protocol::Dns4(_) | Protocol::Dns6(_) | Protocol::Dnsaddr(_)))
}

fn dial() -> SimResult {
    draw_policy();
    let nn = 1 + choose(6);
    let peers: Vec<libp2p_identity::PeerId> = (0..3).map(|_| libp2p_identity::PeerId::random()).collect();
    let mut names = vec![];
    for _ in 0..nn {
        let mut r = NameRec::default();
        for _ in 0..choose(4) {
            r.a.push(Ipv4Addr::new(10, 0, choose(4) as u8, 1 + choose(250) as u8));
        }
        for _ in 0..choose(3) {
            r.aaaa.push(Ipv6Addr::new(0x2001, 0xdb8, 0, 0, 0, 0, 0, 1 + choose(100) as u16));
        }
        let ntxt = [0usize, 1, 2, 3, 5, 17, 20][choose(7)];
        for _ in 0..ntxt {
            let target = choose(nn);
            let suffix = match choose(4) {
                0 => String::new(),
                k => format!("/p2p/{}", peers[k - 1]),
            };
            let t = match choose(7) {
                0 => format!("dnsaddr=/dnsaddr/n{target}{suffix}"),
                1 => format!("dnsaddr=/dns4/n{target}/tcp/{}{suffix}", 4000 + choose(3)),
                2 => format!("dnsaddr=/ip4/10.1.0.{}/tcp/4001{suffix}", 1 + choose(200)),
                3 => format!("dnsaddr=/dns/n{target}/tcp/4001{suffix}"),
                4 => format!("dnsaddr=/dns6/n{target}/udp/4001/quic-v1{suffix}"),
                5 => "dnsaddr=not-a-multiaddr".to_string(),
                _ => format!("something=else{suffix}"),
            };
            r.txt.push(t);
        }
        if fault("dns_ip_fault", 150) {
            r.fault_ip = 1 + choose(3) as u8;
        }
        if fault("dns_txt_fault", 150) {
            r.fault_txt = 1 + choose(3) as u8;
        }
        r.slow = choose(3) == 0;
        names.push(r);
    }
    let lookups = Arc::new(AtomicUsize::new(0));
    let resolver = SimResolver { names: Arc::new(names.clone()), lookups: lookups.clone() };
    let log = Arc::new(Mutex::new(vec![]));
    let plan: Vec<bool> = (0..40).map(|_| choose(6) == 0).collect();
    let attempts = Arc::new(AtomicUsize::new(0));
    let inner = RecTransport { log: log.clone(), attempts: attempts.clone(), plan: plan.clone(), refuse_sync: choose(4) == 0 };
    let mut t = libp2p_dns::Transport::verif_with_resolver(inner, resolver);
    let start = choose(nn);
    let want_suffix = choose(3);
    let suffix: Multiaddr = if want_suffix == 0 { Multiaddr::empty() } else { format!("/p2p/{}", peers[want_suffix - 1]).parse().unwrap() };
    let kind = choose(8);
    let addr: Multiaddr = match kind {
        0 => format!("/dnsaddr/n{start}{suffix}"),
        // a /dnsaddr behind other components (e.g. reached through a relay): the same suffix rule applies
        7 => format!("/ip4/10.9.9.8/tcp/4001/p2p/{}/p2p-circuit/dnsaddr/n{start}{suffix}", peers[0]),
        1 => format!("/dns4/n{start}/tcp/4001{suffix}"),
        2 => format!("/dns6/n{start}/tcp/4001{suffix}"),
        3 => format!("/dns/n{start}/tcp/4001{suffix}"),
        4 => format!("/ip4/10.9.9.9/tcp/4001{suffix}"),
        5 => format!("/dns4/n{start}/tcp/4001/dns4/n{}/tcp/1{suffix}", choose(nn)),
        _ => format!("/dnsaddr/unknown-name{suffix}"),
    }
    .parse()
    .unwrap();
    note_val("kind", kind as u64);
    note_val("names", nn as u64);
    note_val("txt", names[start].txt.len().min(18) as u64 / 3);
    note_val("faults", (names[start].fault_ip as u64) * 4 + names[start].fault_txt as u64);
    let out: Arc<Mutex<Option<Result<usize, String>>>> = Default::default();
    let o2 = out.clone();
    let fut = t.dial(addr.clone(), DialOpts { role: Endpoint::Dialer, port_use: PortUse::Reuse }).map_err(|e| violation!("C23/dial-refused", "dial() itself failed: {e:?}"))?;
    let u = spawn("dial", async move {
        let r = fut.await;
        *o2.lock().unwrap() = Some(r.map_err(|e| format!("{e}")));
    });
    run_until_idle();
    ensure!(is_done(u), "C23/hang", "dial of {addr} did not resolve");
    let dialled = log.lock().unwrap().clone();
    let nl = lookups.load(Ordering::SeqCst);
    let res = out.lock().unwrap().clone().unwrap();
    trace!("{addr}: lookups={nl} dials={} -> {:?}", dialled.len(), res.as_ref().map_err(|e| e.chars().take(60).collect::<String>()));
    ensure!(nl <= 32, "C23/too-many-lookups", "{nl} DNS lookups for one dial of {addr}");
    let na = attempts.load(Ordering::SeqCst);
    ensure!(na <= 16, "C23/too-many-dials", "{na} inner dial attempts for one dial of {addr}");
    for d in &dialled {
        ensure!(!has_dns(d), "C23/unresolved-address-dialled", "inner transport was handed {d} which still contains a DNS component (dialling {addr})");
        if kind == 0 || kind == 6 || kind == 7 {
            ensure!(d.ends_with(&suffix), "C23/foreign-suffix-dialled", "dialling {addr}: inner transport was handed {d} which does not end with the original suffix {suffix}");
        }
    }
    if let Ok(k) = &res {
        ensure!(plan.get(*k).copied().unwrap_or(false), "C23/phantom-success", "dial reported success through attempt {k} which was planned to fail");
    }
    if nl == 32 {
        probe("lookup_limit_reached");
    }
    if na == 16 {
        probe("dial_limit_reached");
    }
    if nl > 0 && (nl > 1 || dialled.len() > 1) {
        mark_nontrivial();
    }
    set_sample(|| format!("dial {addr}: {nn} names, start txt={} A={} AAAA={} faults ip={} txt={} -> {nl} lookups, {} inner dials, ok={}", names[start].txt.len(), names[start].a.len(), names[start].aaaa.len(), names[start].fault_ip, names[start].fault_txt, dialled.len(), res.is_ok()));
    Ok(())
}
