//! C15 — negotiation messages round-trip (wire image == reference encoding, prefix <= 2 bytes)
//! and malformed input is rejected safely by a real listener / dialer under every chunking.
use crate::c14::{self, frame, proto_frame, varint, Out, Setup, HEADER, VALID};
use multistream_select::{dialer_select_proto, listener_select_proto, NegotiationError, ProtocolError, Version};
use simkit::pipe::{self, PipeCfg};
use simkit::*;
use std::cell::RefCell;
use std::rc::Rc;

pub fn check() -> Check {
    Check {
        id: "C15",
        title: "Negotiation messages round-trip and malformed input is rejected safely",
        level: Level::FaultEnumeration,
        rule: "scenarios: wire-image (honest pairs: both directions' tapped bytes must equal the hand-written reference encoding of the expected message sequence, every frame prefix <= 2 bytes), ls (scripted raw dialer sends header+ls, answer must equal the reference encoding of the listener's valid protocols), hostile-listener / hostile-dialer (enumerated hostile cases x drawn chunking: random bytes, 3-byte varints, frames of 16383/16384 declared bytes, 1000 vs 1001 listed protocols, names without '/', missing newline, truncation at every offset of a valid exchange), oversize-outgoing (the local side itself would have to send more than MAX_FRAME_SIZE: protocol names of 16381..70000 bytes proposed by the dialer, ls answers over 10..999 protocols; every frame on the wire keeps a <= 2 byte prefix and <= 16383 bytes, the negotiation ends with an error, a message that just fits is sent). Panics are caught per run and are violations. Non-trivial = the peer produced at least one frame that the code under test had to parse; distinct = fingerprint of (case kind, chunking, outcome)",
        assumptions: &["reference encoder/parser in the harness is written from the multistream-select spec, not from the code under test"],
        real: &["multistream_select listener/dialer futures", "Message::encode/decode", "LengthDelimited"],
        stub: &["socket -> simkit::pipe; hostile peer = scripted raw bytes"],
        scenarios: vec![
            Scenario::new("wire-image", 1500, 100_000, wire_image),
            Scenario::new("ls", 400, 30_000, ls),
            Scenario::new("hostile-listener", 2500, 200_000, hostile_listener),
            Scenario::new("hostile-dialer", 2500, 200_000, hostile_dialer),
            Scenario::new("truncate-every-offset", 200, 10_000, truncate_every_offset),
            Scenario::new("oversize-outgoing", 300, 10_000, oversize_outgoing),
        ],
    }
}

/// Reference parser: split a byte stream into frames with a <=2 byte varint prefix.
fn parse_frames(mut b: &[u8], n: usize) -> Result<Vec<Vec<u8>>, String> {
    let mut out = vec![];
    while out.len() < n {
        if b.is_empty() {
            return Err("stream ended early".into());
        }
        let (len, hdr) = if b[0] & 0x80 == 0 {
            (b[0] as usize, 1)
        } else if b.len() >= 2 && b[1] & 0x80 == 0 {
            (((b[0] & 0x7f) as usize) | ((b[1] as usize) << 7), 2)
        } else {
            return Err(format!("length prefix longer than 2 bytes at frame {}", out.len()));
        };
        if b.len() < hdr + len {
            return Err("truncated frame".into());
        }
        out.push(b[hdr..hdr + len].to_vec());
        b = &b[hdr + len..];
    }
    Ok(out)
}

/// Run to quiescence while draining whatever the code under test writes; returns the drained bytes.
fn pump(raw: &pipe::Raw) -> Vec<u8> {
    let mut got = vec![];
    loop {
        run_until_idle();
        let b = raw.recv_all();
        if b.is_empty() {
            break;
        }
        got.extend(b);
    }
    got
}

fn wire_image() -> SimResult {
    // names of drawn length, including ones that need a 2-byte prefix
    let mk = |i: usize| -> String {
        let len = [1usize, 2, 10, 126, 127, 128, 300, 2000][choose(8)];
        let mut s = format!("/{i}");
        while s.len() < len {
            s.push((b'a' + (s.len() % 26) as u8) as char);
        }
        s
    };
    let nd = 1 + choose(4);
    let d: Vec<String> = (0..nd).map(mk).collect();
    let l: Vec<String> = if choose(4) == 0 { vec![] } else { vec![d[choose(nd)].clone(), pick(VALID).to_string()] };
    let s = Setup { d: d.clone(), l: l.clone(), version: Version::V1, pa: vec![], pb: vec![] };
    let r = c14::run_pair(&s, false)?;
    let idx = d.iter().position(|p| l.contains(p));
    let sent = idx.map(|i| i + 1).unwrap_or(nd);
    let mut exp_d2l = vec![];
    frame(HEADER, &mut exp_d2l);
    for q in &d[..sent] {
        proto_frame(q, &mut exp_d2l);
    }
    let mut exp_l2d = vec![];
    frame(HEADER, &mut exp_l2d);
    for k in 0..sent {
        if Some(k) == idx {
            proto_frame(&d[k], &mut exp_l2d);
        } else {
            frame(b"na\n", &mut exp_l2d);
        }
    }
    note_val("nd", nd as u64);
    note_val("idx", idx.map(|i| i as u64 + 1).unwrap_or(0));
    ensure!(r.wire_d2l == exp_d2l, "C15/wire-image-dialer", "dialer bytes differ from reference at {:?} (len {} vs {})", c14::first_diff(&r.wire_d2l, &exp_d2l), r.wire_d2l.len(), exp_d2l.len());
    ensure!(r.wire_l2d == exp_l2d, "C15/wire-image-listener", "listener bytes differ from reference at {:?} (len {} vs {})", c14::first_diff(&r.wire_l2d, &exp_l2d), r.wire_l2d.len(), exp_l2d.len());
    let fr = parse_frames(&r.wire_d2l, sent + 1).map_err(|e| violation!("C15/prefix", "dialer stream: {e}"))?;
    ensure!(fr[0] == HEADER, "C15/header", "first dialer frame is not the header");
    for (k, f) in fr[1..].iter().enumerate() {
        ensure!(f.last() == Some(&b'\n') && &f[..f.len() - 1] == d[k].as_bytes(), "C15/frame-is-name-newline", "frame {k} is not name+newline");
    }
    mark_nontrivial();
    set_sample(|| format!("wire-image: name lengths {:?}, listener supports index {idx:?}", d.iter().map(|x| x.len()).collect::<Vec<_>>()));
    Ok(())
}

/// Generic frame walk over bytes written by the code under test: (frame lengths, prefix lengths); stops at a partial tail.
fn walk_frames(b: &[u8]) -> Vec<(usize, usize)> {
    let mut out = vec![];
    let mut i = 0;
    while i < b.len() {
        let (mut len, mut shift, mut k) = (0usize, 0u32, 0usize);
        loop {
            if i + k >= b.len() || k >= 9 {
                return out;
            }
            let x = b[i + k];
            len |= ((x & 0x7f) as usize) << shift;
            shift += 7;
            k += 1;
            if x & 0x80 == 0 {
                break;
            }
        }
        out.push((len, k));
        i += k + len;
    }
    out
}

/// Messages the local side itself would have to send beyond the frame limit (a protocol name of ~16 KiB, an `ls`
/// answer over many protocols): nothing longer than MAX_FRAME_SIZE = 16383 bytes may go out, whatever else happens,
/// and the negotiation must end (with an error) instead of hanging.
fn oversize_outgoing() -> SimResult {
    draw_policy();
    const MAX: usize = (1 << 14) - 1;
    let long_name = |len: usize| -> String {
        let mut s = String::from("/big/");
        while s.len() < len {
            s.push((b'a' + (s.len() % 26) as u8) as char);
        }
        s
    };
    let (a, raw) = pipe::pair_raw(PipeCfg { capacity: 1 << 20, ..PipeCfg::draw() });
    let as_dialer = choose(2) == 0;
    let (u, out, what, must_fail);
    let mut expect_frame = None;
    if as_dialer {
        // name + newline around the limit
        let len = [MAX - 2, MAX - 1, MAX, MAX + 1, 20_000, 40_000, 65_534, 70_000][choose(8)];
        let mut protos = vec![long_name(len)];
        if choose(2) == 0 {
            protos.insert(0, "/not/supported".to_string());
        }
        must_fail = len + 1 > MAX;
        if !must_fail {
            expect_frame = Some(len + 1);
        }
        what = format!("dialer proposing a name of {len} bytes");
        let v = if choose(2) == 0 { Version::V1 } else { Version::V1Lazy };
        let (uu, oo) = spawn_dialer(a, protos, v);
        u = uu;
        out = oo;
        let mut reply = vec![];
        frame(HEADER, &mut reply);
        frame(b"na\n", &mut reply);
        frame(b"na\n", &mut reply);
        raw.send(&reply);
    } else {
        // ls over n protocols of m bytes: body = n * (prefix + m + 1) + 1
        let (n, m) = [(10usize, 100usize), (100, 150), (163, 99), (164, 99), (400, 60), (800, 37), (999, 64)][choose(7)];
        let protos: Vec<String> = (0..n).map(|i| long_name(m - 4) + &format!("{i:04}")).collect();
        let body: usize = protos.iter().map(|p| p.len() + 1 + if p.len() + 1 > 127 { 2 } else { 1 }).sum::<usize>() + 1;
        must_fail = body > MAX;
        if !must_fail {
            expect_frame = Some(body);
        }
        what = format!("listener answering ls with {n} protocols of {m} bytes (body {body})");
        let (uu, oo) = spawn_listener(a, protos);
        u = uu;
        out = oo;
        let mut req = vec![];
        frame(HEADER, &mut req);
        frame(b"ls\n", &mut req);
        raw.send(&req);
    }
    let mut got = pump(&raw);
    raw.close_write();
    got.extend(pump(&raw));
    let frames = walk_frames(&got);
    for (k, (len, prefix)) in frames.iter().enumerate() {
        ensure!(*prefix <= 2 && *len <= MAX, "C15/prefix", "{what}: frame {k} went out with a {prefix} byte length prefix announcing {len} bytes (limit {MAX})");
    }
    ensure!(is_done(u), "C15/oversize-hang", "{what}: the negotiation did not end after the remote closed");
    if must_fail {
        probe("oversize_outgoing_refused");
        ensure!(!matches!(&*out.borrow(), Some(Out::Ok(_))), "C15/oversize-accepted", "{what}: negotiation reported success: {:?}", out.borrow());
    } else {
        probe("large_outgoing_within_limit");
        ensure!(frames.iter().any(|(len, _)| Some(*len) == expect_frame), "C15/large-frame-missing", "{what}: the message of {expect_frame:?} bytes fits the frame limit but was not sent (frames {:?})", frames.iter().map(|f| f.0).collect::<Vec<_>>());
    }
    mark_nontrivial();
    note_val("case", as_dialer as u64 + 2 * must_fail as u64);
    set_sample(|| format!("{what}: frames {:?}, outcome {:?}", frames.iter().map(|f| f.0).collect::<Vec<_>>(), out.borrow()));
    Ok(())
}

fn spawn_listener(io: pipe::End, protos: Vec<String>) -> (UnitId, Rc<RefCell<Option<Out>>>) {
    let out: Rc<RefCell<Option<Out>>> = Default::default();
    let o = out.clone();
    let u = spawn("listener", async move {
        let r = listener_select_proto(io, protos).await;
        *o.borrow_mut() = Some(match r {
            Ok((p, _)) => Out::Ok(p),
            Err(NegotiationError::Failed) => Out::Failed,
            Err(NegotiationError::ProtocolError(e)) => Out::ProtoErr(perr(&e)),
        });
    });
    (u, out)
}

fn perr(e: &ProtocolError) -> String {
    match e {
        ProtocolError::IoError(e) => format!("Io({:?})", e.kind()),
        ProtocolError::InvalidMessage => "InvalidMessage".into(),
        ProtocolError::InvalidProtocol => "InvalidProtocol".into(),
        ProtocolError::TooManyProtocols => "TooManyProtocols".into(),
    }
}

fn spawn_dialer(io: pipe::End, protos: Vec<String>, v: Version) -> (UnitId, Rc<RefCell<Option<Out>>>) {
    let out: Rc<RefCell<Option<Out>>> = Default::default();
    let o = out.clone();
    let u = spawn("dialer", async move {
        let r = dialer_select_proto(io, protos, v).await;
        *o.borrow_mut() = Some(match r {
            Ok((p, io)) => {
                // drive an optimistic negotiation to its end
                match io.complete().await {
                    Ok(_) => Out::Ok(p),
                    Err(NegotiationError::Failed) => Out::Failed,
                    Err(NegotiationError::ProtocolError(e)) => Out::ProtoErr(perr(&e)),
                }
            }
            Err(NegotiationError::Failed) => Out::Failed,
            Err(NegotiationError::ProtocolError(e)) => Out::ProtoErr(perr(&e)),
        });
    });
    (u, out)
}

fn ls() -> SimResult {
    draw_policy();
    let n = choose(6);
    let protos: Vec<String> = (0..n).map(|_| if choose(5) == 0 { pick(c14::INVALID).to_string() } else { pick(VALID).to_string() }).collect();
    let (a, raw) = pipe::pair_raw(PipeCfg::draw());
    let (u, out) = spawn_listener(a, protos.clone());
    let mut req = vec![];
    frame(HEADER, &mut req);
    frame(b"ls\n", &mut req);
    raw.send(&req);
    let got = pump(&raw);
    let mut exp = vec![];
    frame(HEADER, &mut exp);
    let mut body = vec![];
    for p in protos.iter().filter(|p| p.starts_with('/')) {
        varint(p.len() + 1, &mut body);
        body.extend_from_slice(p.as_bytes());
        body.push(b'\n');
    }
    body.push(b'\n');
    frame(&body, &mut exp);
    note_val("n", n as u64);
    ensure!(got == exp, "C15/ls-response", "ls answer differs from reference encoding at {:?}: protos={protos:?}", c14::first_diff(&got, &exp));
    ensure!(!is_done(u), "C15/ls-ended-negotiation", "listener finished after ls: {:?}", out.borrow());
    raw.close_write();
    pump(&raw);
    ensure!(is_done(u) && *out.borrow() == Some(Out::Failed), "C15/ls-eof", "EOF after ls should be a graceful Failed, got {:?}", out.borrow());
    mark_nontrivial();
    set_sample(|| format!("ls against listener {protos:?}"));
    Ok(())
}

#[derive(Debug, Clone, Copy, PartialEq)]
enum Expect {
    /// must be an error (any kind)
    Err,
    /// must not succeed on a protocol that was never validly proposed; otherwise anything
    Any,
    ProtoErr(&'static str),
}


/// A frame body shaped like an `ls` response (length-prefixed entries, final newline) with entry lengths
/// that are off by a little, missing newlines and a cut tail; or a tiny body of small bytes.
fn broken_ls_body() -> Vec<u8> {
    if choose(3) == 0 {
        let n = 1 + choose(4);
        return (0..n).map(|_| [0u8, 1, 2, 3, 4, 10, 47, 0x80, 0xff][choose(9)]).collect();
    }
    let mut body = vec![];
    for _ in 0..1 + choose(4) {
        let name: &[u8] = [&b"/a\n"[..], b"/bc\n", b"\n", b"/a", b"x\n"][choose(5)];
        let declared = (name.len() as i64 + [-2i64, -1, 0, 0, 1, 2, 3][choose(7)]).max(0) as u64;
        varint(declared as usize, &mut body);
        body.extend_from_slice(name);
    }
    if choose(3) != 0 {
        body.push(b'\n');
    }
    if choose(3) == 0 && !body.is_empty() {
        body.truncate(choose(body.len()) + 1);
    }
    body
}

fn hostile_stream_for_listener() -> (Vec<u8>, Expect, &'static str) {
    let mut s = vec![];
    match choose(10) {
        0 => (bytes(small(0, 80)), Expect::Any, "random"),
        9 => {
            if choose(2) == 0 {
                frame(HEADER, &mut s);
            }
            frame(&broken_ls_body(), &mut s);
            if choose(2) == 0 {
                frame(&broken_ls_body(), &mut s);
            }
            (s, Expect::Any, "broken-ls-entries")
        }
        1 => {
            frame(HEADER, &mut s);
            s.extend_from_slice(&[0x80 | choose(128) as u8, 0x80 | choose(128) as u8, choose(128) as u8]);
            (s, Expect::Err, "3-byte-varint")
        }
        2 => {
            // declared 16384 needs 3 bytes: 0x80 0x80 0x01
            frame(HEADER, &mut s);
            s.extend_from_slice(&[0x80, 0x80, 0x01]);
            (s, Expect::Err, "frame-16384")
        }
        3 => {
            // name without leading '/'
            frame(HEADER, &mut s);
            let name = ["abc\n", "a/b\n", "\n", "x\n"][choose(4)];
            frame(name.as_bytes(), &mut s);
            (s, Expect::Err, "name-without-slash")
        }
        4 => {
            // missing newline
            frame(HEADER, &mut s);
            frame(b"/a", &mut s);
            (s, Expect::Err, "missing-newline")
        }
        5 => {
            // wrong header
            let h: &[u8] = [&b"/multistream/2.0.0\n"[..], b"/a\n", b"na\n", b"ls\n", b""][choose(5)];
            frame(h, &mut s);
            (s, Expect::Err, "bad-header")
        }
        6 => {
            // maximum legal frame (16383 bytes) that is a syntactically valid unknown protocol
            frame(HEADER, &mut s);
            let mut name = vec![b'/'];
            name.resize(16382, b'q');
            name.push(b'\n');
            frame(&name, &mut s);
            (s, Expect::Any, "frame-16383")
        }
        7 => {
            // a Protocols (ls response) message sent to a listener
            frame(HEADER, &mut s);
            let mut body = vec![];
            for _ in 0..choose(4) + 1 {
                varint(3, &mut body);
                body.extend_from_slice(b"/a\n");
            }
            body.push(b'\n');
            frame(&body, &mut s);
            (s, Expect::Err, "protocols-to-listener")
        }
        _ => {
            // valid exchange with one mutated byte
            frame(HEADER, &mut s);
            proto_frame("/zz", &mut s);
            proto_frame("/a", &mut s);
            let i = choose(s.len());
            s[i] ^= 1 << choose(8);
            (s, Expect::Any, "bitflip")
        }
    }
}

fn hostile_listener() -> SimResult {
    draw_policy();
    let (stream, expect, kind) = hostile_stream_for_listener();
    let protos = vec!["/a".to_string(), "/b".to_string()];
    let (a, raw) = pipe::pair_raw(PipeCfg::draw());
    let (u, out) = spawn_listener(a, protos);
    // deliver in drawn pieces
    let mut rest = &stream[..];
    while !rest.is_empty() {
        let k = 1 + choose(rest.len());
        raw.send(&rest[..k]);
        rest = &rest[k..];
        pump(&raw);
    }
    raw.close_write();
    pump(&raw);
    note(kind);
    ensure!(is_done(u), "C15/hostile-listener-hang", "listener did not terminate on {kind} + EOF");
    let o = out.borrow().clone().unwrap();
    trace!("{kind}: {o:?}");
    match expect {
        Expect::Err => ensure!(!matches!(o, Out::Ok(_)), "C15/hostile-accepted", "{kind}: listener succeeded with {o:?}"),
        Expect::ProtoErr(e) => ensure!(o == Out::ProtoErr(e.to_string()), "C15/hostile-error-kind", "{kind}: expected {e} got {o:?}"),
        Expect::Any => {
            if let Out::Ok(p) = &o {
                // only possible if the stream really proposed that protocol in a well-formed frame
                let mut f = vec![];
                proto_frame(p, &mut f);
                ensure!(stream.windows(f.len()).any(|w| w == &f[..]), "C15/hostile-phantom-protocol", "{kind}: listener agreed on {p} which was never proposed");
            }
        }
    }
    mark_nontrivial();
    set_sample(|| format!("hostile-listener {kind}: {} bytes -> {o:?}", stream.len()));
    Ok(())
}

fn hostile_dialer() -> SimResult {
    draw_policy();
    let lazy = choose(3) == 0;
    let protos: Vec<String> = if lazy { vec!["/a".into()] } else { vec!["/a".into(), "/b".into()] };
    let v = if lazy { Version::V1Lazy } else { Version::V1 };
    let mut s = vec![];
    frame(HEADER, &mut s);
    let (expect, kind): (Expect, &'static str) = match choose(9) {
        0 => {
            s = bytes(small(0, 80));
            (Expect::Any, "random")
        }
        8 => {
            if choose(4) == 0 {
                s.clear();
            }
            frame(&broken_ls_body(), &mut s);
            if choose(2) == 0 {
                frame(&broken_ls_body(), &mut s);
            }
            (Expect::Any, "broken-ls-entries")
        }
        1 | 2 => {
            // ls-style answer with 1000 / 1001 protocols
            let n = if choose(2) == 0 { 1000 } else { 1001 };
            let mut body = vec![];
            for _ in 0..n {
                varint(3, &mut body);
                body.extend_from_slice(b"/a\n");
            }
            body.push(b'\n');
            frame(&body, &mut s);
            if n == 1001 {
                (Expect::ProtoErr("TooManyProtocols"), "protocols-1001")
            } else if lazy {
                // the optimistic path reports any non-matching message as Failed
                (Expect::Err, "protocols-1000")
            } else {
                (Expect::ProtoErr("InvalidMessage"), "protocols-1000")
            }
        }
        3 => {
            s.extend_from_slice(&[0xff, 0xff, 0x7f]);
            (Expect::Err, "3-byte-varint")
        }
        4 => {
            frame(b"abc\n", &mut s);
            (Expect::Err, "name-without-slash")
        }
        5 => {
            // confirmation of a protocol that was not proposed
            proto_frame("/zz", &mut s);
            (Expect::Err, "unproposed-confirmation")
        }
        6 => {
            frame(b"/a", &mut s);
            (Expect::Err, "missing-newline")
        }
        _ => {
            frame(b"na\n", &mut s);
            proto_frame("/b", &mut s);
            let i = choose(s.len());
            s[i] ^= 1 << choose(8);
            (Expect::Any, "bitflip")
        }
    };
    let (a, raw) = pipe::pair_raw(PipeCfg::draw());
    let (u, out) = spawn_dialer(a, protos.clone(), v);
    let mut rest = &s[..];
    while !rest.is_empty() {
        let k = 1 + choose(rest.len());
        raw.send(&rest[..k]);
        rest = &rest[k..];
        pump(&raw);
    }
    raw.close_write();
    pump(&raw);
    note(kind);
    note_val("lazy", lazy as u64);
    ensure!(is_done(u), "C15/hostile-dialer-hang", "dialer did not terminate on {kind} + EOF");
    let o = out.borrow().clone().unwrap();
    trace!("{kind} lazy={lazy}: {o:?}");
    match expect {
        Expect::Err => ensure!(!matches!(o, Out::Ok(_)), "C15/hostile-accepted", "{kind} lazy={lazy}: dialer succeeded with {o:?}"),
        Expect::ProtoErr(e) => ensure!(o == Out::ProtoErr(e.to_string()), "C15/hostile-error-kind", "{kind} lazy={lazy}: expected {e} got {o:?}"),
        Expect::Any => {
            if let Out::Ok(p) = &o {
                let mut f = vec![];
                proto_frame(p, &mut f);
                ensure!(protos.contains(p) && s.windows(f.len()).any(|w| w == &f[..]), "C15/hostile-phantom-protocol", "{kind}: dialer agreed on {p} which the peer never confirmed");
            }
        }
    }
    mark_nontrivial();
    set_sample(|| format!("hostile-dialer {kind} lazy={lazy}: {} bytes -> {o:?}", s.len()));
    Ok(())
}

/// Truncate a valid listener-side input at every offset (fault enumeration inside the run).
fn truncate_every_offset() -> SimResult {
    let mut s = vec![];
    frame(HEADER, &mut s);
    proto_frame("/zz", &mut s);
    proto_frame(["/a", "/b"][choose(2)], &mut s);
    for cut in 0..s.len() {
        let (a, raw) = pipe::pair_raw(PipeCfg::draw());
        let (u, out) = spawn_listener(a, vec!["/a".into(), "/b".into()]);
        raw.send(&s[..cut]);
        pump(&raw);
        ensure!(!is_done(u), "C15/truncated-early-finish", "listener finished on a truncated stream (cut {cut}) before EOF: {:?}", out.borrow());
        raw.close_write();
        pump(&raw);
        ensure!(is_done(u), "C15/truncate-hang", "cut at {cut}: listener stuck");
        let o = out.borrow().clone().unwrap();
        ensure!(!matches!(o, Out::Ok(_)), "C15/truncate-accepted", "cut at {cut}: listener succeeded {o:?}");
    }
    mark_nontrivial();
    set_sample(|| format!("truncate-every-offset: {} cut points", s.len()));
    Ok(())
}
