//! C57 — length-prefixed protobuf codec: round-trip under any split, bounded allocation, no panic.
use asynchronous_codec::{FramedRead, FramedWrite};
use futures::{SinkExt, StreamExt};
use prost_codec::proto::Message;
use simkit::pipe::{self, Chunking, PipeCfg};
use simkit::*;
use std::cell::RefCell;
use std::rc::Rc;

type Codec = prost_codec::Codec<Message>;

pub fn check() -> Check {
    Check {
        id: "C57",
        title: "Length-prefixed protobuf codecs round-trip and bound allocation",
        level: Level::Exploration,
        rule: "each run draws a codec limit, a message sequence with sizes around the limit, a pipe configuration (capacity, read/write chunking, spurious Pending) and a schedule of the writer and reader units; scenarios: roundtrip (FramedWrite -> pipe -> FramedRead), splits (every split point of a short stream, exhaustively inside the run), oversize (declared length above the limit with no payload must fail at once), garbage (arbitrary bytes then EOF). A run is non-trivial when at least one frame crossed a read boundary (short read observed) or a fault fired; distinct = distinct fingerprints of (message-size classes, chunking modes, outcome kinds)",
        assumptions: &["the in-memory pipe is a faithful ordered reliable byte stream (what prost-codec assumes of its transport)"],
        real: &["prost_codec::Codec (encoder+decoder)", "asynchronous_codec FramedRead/FramedWrite", "unsigned-varint", "prost"],
        stub: &["socket -> simkit::pipe"],
        scenarios: vec![
            Scenario::new("roundtrip", 3000, 200_000, roundtrip),
            Scenario::new("splits", 300, 10_000, splits),
            Scenario::new("oversize", 500, 20_000, oversize),
            Scenario::new("garbage", 1500, 100_000, garbage),
        ],
    }
}

fn draw_msgs(max: usize) -> Vec<Message> {
    let n = choose(7);
    (0..n)
        .map(|_| {
            // encoded_len of Message{data} = 0 if empty else 1 + varint(len) + len
            let len = match choose(5) {
                0 => 0,
                1 => small(0, 8),
                2 => max.min(2100).saturating_sub(2 + choose(3)), // around the limit
                3 => choose(max.max(1)),
                _ => choose(300),
            };
            let mut m = Message { data: bytes(len) };
            while prost::Message::encoded_len(&m) > max {
                m.data.pop();
            }
            m
        })
        .collect()
}

fn roundtrip() -> SimResult {
    draw_policy();
    let max = [16usize, 64, 127, 128, 129, 300, 2000, 16384][choose(8)];
    let msgs = draw_msgs(max);
    let cfg_a = PipeCfg::draw();
    let cfg_b = PipeCfg::draw();
    note_val("max", max as u64);
    note_val("n", msgs.len() as u64);
    note_val("rc", cfg_b.read_chunking as u64);
    note_val("wc", cfg_a.write_chunking as u64);
    for m in &msgs {
        note_val("len_class", class(m.data.len(), max));
    }
    let (a, b) = pipe::pair_cfg(cfg_a.clone(), cfg_b.clone());
    let sent = msgs.clone();
    let werr: Rc<RefCell<Option<String>>> = Default::default();
    let got: Rc<RefCell<Vec<Result<Message, String>>>> = Default::default();
    let (we, g) = (werr.clone(), got.clone());
    let flush_each = choose(2) == 1;
    spawn("writer", async move {
        let mut w = FramedWrite::new(a, Codec::new(max));
        for m in sent {
            let r = if flush_each { w.send(m).await } else { w.feed(m).await };
            if let Err(e) = r {
                *we.borrow_mut() = Some(e.to_string());
                return;
            }
        }
        if let Err(e) = w.close().await {
            *we.borrow_mut() = Some(e.to_string());
        }
    });
    let rdone = spawn("reader", async move {
        let mut r = FramedRead::new(b, Codec::new(max));
        while let Some(x) = r.next().await {
            let stop = x.is_err();
            g.borrow_mut().push(x.map_err(|e| e.to_string()));
            if stop {
                break;
            }
        }
    });
    run_until_idle();
    ensure!(werr.borrow().is_none(), "C57/write-error", "writer failed: {:?}", werr.borrow());
    ensure!(is_done(rdone), "C57/reader-stuck", "reader did not finish after writer closed (sent {} msgs)", msgs.len());
    let got = got.borrow();
    let ok: Vec<Message> = got.iter().filter_map(|x| x.clone().ok()).collect();
    ensure!(got.iter().all(|x| x.is_ok()), "C57/roundtrip-error", "decoder error on valid stream: {:?}", got.iter().find(|x| x.is_err()));
    ensure!(ok == msgs, "C57/roundtrip-mismatch", "decoded {} msgs != encoded {} msgs (max={max}, cfg={cfg_b:?})", ok.len(), msgs.len());
    if cfg_b.read_chunking != Chunking::Full && !msgs.is_empty() {
        mark_nontrivial();
    }
    set_sample(|| format!("roundtrip max={max} sizes={:?} read={:?} write={:?} cap={}", msgs.iter().map(|m| m.data.len()).collect::<Vec<_>>(), cfg_b.read_chunking, cfg_a.write_chunking, cfg_a.capacity));
    Ok(())
}

fn class(len: usize, max: usize) -> u64 {
    if len == 0 {
        0
    } else if len + 4 >= max {
        3
    } else if len < 128 {
        1
    } else {
        2
    }
}

fn encode_all(msgs: &[Message]) -> Vec<u8> {
    // reference encoder written here (not the code under test): varint length + protobuf body
    let mut out = vec![];
    for m in msgs {
        let mut body = vec![];
        if !m.data.is_empty() {
            body.push(0x0a);
            put_varint(m.data.len() as u64, &mut body);
            body.extend_from_slice(&m.data);
        }
        put_varint(body.len() as u64, &mut out);
        out.extend(body);
    }
    out
}

pub fn put_varint(mut v: u64, out: &mut Vec<u8>) {
    loop {
        let b = (v & 0x7f) as u8;
        v >>= 7;
        if v == 0 {
            out.push(b);
            break;
        }
        out.push(b | 0x80);
    }
}

/// Every split point of a short reference-encoded stream (exhaustive inside the run).
fn splits() -> SimResult {
    let max = 300;
    let n = 1 + choose(3);
    let msgs: Vec<Message> = (0..n).map(|_| Message { data: bytes([0usize, 1, 5, 126, 127, 128, 200][choose(7)]) }).collect();
    let stream = encode_all(&msgs);
    note_val("n", n as u64);
    for k in 0..=stream.len() {
        let (a, raw) = pipe::pair_raw(PipeCfg::default());
        let got: Rc<RefCell<Vec<Result<Message, String>>>> = Default::default();
        let g = got.clone();
        let u = spawn("reader", async move {
            let mut r = FramedRead::new(a, Codec::new(max));
            while let Some(x) = r.next().await {
                g.borrow_mut().push(x.map_err(|e| e.to_string()));
            }
        });
        raw.send(&stream[..k]);
        run_until_idle();
        // nothing beyond the complete frames in the first k bytes may have been produced
        let complete = complete_frames(&stream[..k]);
        ensure!(got.borrow().len() == complete, "C57/split-early", "after {k} of {} bytes decoder produced {} items, reference says {complete}", stream.len(), got.borrow().len());
        raw.send(&stream[k..]);
        raw.close_write();
        run_until_idle();
        ensure!(is_done(u), "C57/reader-stuck", "reader stuck at split {k}");
        let ok: Vec<Message> = got.borrow().iter().filter_map(|x| x.clone().ok()).collect();
        ensure!(ok == msgs && got.borrow().len() == msgs.len(), "C57/split-mismatch", "split at {k}: got {:?}", got.borrow());
    }
    mark_nontrivial();
    set_sample(|| format!("splits: {} split points over sizes {:?}", stream.len() + 1, msgs.iter().map(|m| m.data.len()).collect::<Vec<_>>()));
    Ok(())
}

fn complete_frames(b: &[u8]) -> usize {
    let mut i = 0;
    let mut n = 0;
    loop {
        let mut len = 0u64;
        let mut shift = 0;
        let mut j = i;
        loop {
            if j >= b.len() {
                return n;
            }
            let x = b[j];
            j += 1;
            len |= ((x & 0x7f) as u64) << shift;
            shift += 7;
            if x & 0x80 == 0 {
                break;
            }
        }
        if j + len as usize > b.len() {
            return n;
        }
        i = j + len as usize;
        n += 1;
    }
}

/// A declared length above the limit is rejected before any payload byte is available.
fn oversize() -> SimResult {
    let max = [1usize, 16, 127, 128, 16384, 1 << 20][choose(6)];
    let over = max + 1 + [0usize, 1, 100, 1 << 20, usize::MAX >> 8][choose(5)].min(usize::MAX / 2 - max - 2);
    let prefix_ok = choose(3); // valid frames in front
    let msgs: Vec<Message> = (0..prefix_ok).map(|_| Message { data: bytes(choose(max.min(40))) }).collect();
    let msgs: Vec<Message> = msgs.into_iter().filter(|m| prost::Message::encoded_len(m) <= max).collect();
    let mut stream = encode_all(&msgs);
    // one run in four declares a length that does not even fit a usize (ten or more continuation bytes): above every limit
    let beyond_usize = choose(4) == 0;
    if beyond_usize {
        stream.extend(std::iter::repeat(0xFFu8).take(10 + choose(6)));
        if choose(2) == 0 {
            stream.push(0x01);
        }
        probe("length_prefix_beyond_usize");
    } else {
        put_varint(over as u64, &mut stream);
    }
    note_val("max", max as u64);
    note_val("prefix", msgs.len() as u64);
    let cfg = PipeCfg::draw();
    let (a, raw) = pipe::pair_raw(cfg);
    let got: Rc<RefCell<Vec<Result<Message, String>>>> = Default::default();
    let g = got.clone();
    spawn("reader", async move {
        let mut r = FramedRead::new(a, Codec::new(max));
        while let Some(x) = r.next().await {
            let stop = x.is_err();
            g.borrow_mut().push(x.map_err(|e| e.to_string()));
            if stop {
                break;
            }
        }
    });
    raw.send(&stream);
    // NOTE: the stream stays open and no payload byte follows.
    run_until_idle();
    let got = got.borrow();
    ensure!(got.len() == msgs.len() + 1, "C57/oversize-not-rejected-early", "declared {over} > max {max} (prefix beyond usize: {beyond_usize}): decoder produced {} items, expected {} ok + 1 error without waiting for payload", got.len(), msgs.len());
    ensure!(got.last().unwrap().is_err(), "C57/oversize-accepted", "oversize frame not rejected: {:?}", got.last());
    ensure!(got[..msgs.len()].iter().map(|x| x.clone().ok()).collect::<Vec<_>>() == msgs.iter().cloned().map(Some).collect::<Vec<_>>(), "C57/oversize-prefix", "valid frames before the oversize one were not delivered intact");
    mark_nontrivial();
    set_sample(|| format!("oversize: max={max} declared={over} after {} valid frames", msgs.len()));
    Ok(())
}

/// Arbitrary bytes then EOF: terminates, never panics, never yields more items than frames.
fn garbage() -> SimResult {
    draw_policy();
    let max = [4usize, 64, 16384][choose(3)];
    let len = small(0, 64);
    let mut data = bytes(len);
    if choose(2) == 0 && !data.is_empty() {
        // make it look like a frame
        data[0] = (len.saturating_sub(1)).min(127) as u8;
    }
    note_val("len", len as u64 / 8);
    let (a, raw) = pipe::pair_raw(PipeCfg::draw());
    let count = Rc::new(RefCell::new((0usize, false)));
    let c = count.clone();
    let u = spawn("reader", async move {
        let mut r = FramedRead::new(a, Codec::new(max));
        while let Some(x) = r.next().await {
            let mut c = c.borrow_mut();
            c.0 += 1;
            if x.is_err() {
                c.1 = true;
                break;
            }
        }
    });
    raw.send(&data);
    raw.close_write();
    run_until_idle();
    ensure!(is_done(u), "C57/garbage-hang", "reader did not terminate on {len} garbage bytes + EOF");
    let c = count.borrow();
    ensure!(c.0 <= len + 1, "C57/garbage-items", "more items ({}) than bytes ({len})", c.0);
    if c.1 {
        note("err");
    }
    mark_nontrivial();
    set_sample(|| format!("garbage: {len} bytes, items={} error={}", c.0, c.1));
    Ok(())
}
