//! C19 — plaintext and pnet upgrades preserve data and reject mismatches.
use crate::noise::keypair;
use futures::io::{AsyncReadExt, AsyncWriteExt};
use futures::{AsyncRead, AsyncWrite};
use libp2p_core::upgrade::{InboundConnectionUpgrade, OutboundConnectionUpgrade};
use libp2p_identity::PeerId;
use libp2p_pnet::{PnetConfig, PreSharedKey};
use simkit::pipe::{self, PipeCfg};
use simkit::*;
use std::cell::RefCell;
use std::rc::Rc;
use std::str::FromStr;

pub fn check() -> Check {
    Check {
        id: "C19",
        title: "Plaintext and pnet upgrades preserve data and reject mismatches",
        level: Level::Exploration,
        rule: "plaintext-pair: two real upgrades, payloads written right after the handshake, drawn chunking/readiness/schedule: stream equality both ways and each side learns the other's id. plaintext-scripted: a scripted raw peer writes its Exchange message (consistent / id-key mismatch / missing fields / garbage) and application bytes *in the same write*, delivered under drawn chunkings: mismatch => PeerIdMismatch, consistent => Ok(that id) and the application reads exactly the follow-up bytes first. pnet-pair: two real PnetConfig::handshake ends, equal or different keys, partial writes, Pending and (after the handshake) Interrupted write errors: equal keys => transparent both ways. keyfile (plain seeded input generation, not a simulation result): from_str(to_key_file(k)) == k and from_str(arbitrary text incl. 64-byte non-ASCII) returns instead of panicking. Non-trivial = follow-up bytes coalesced with the handshake message, or a fault fired, or a write was split; distinct = fingerprint of (scenario variant, key types, size classes, chunking, outcome)",
        assumptions: &["Exchange/PublicKey protobuf encodings used by the scripted peer are written by hand from the spec (fields 1,2 length-delimited)"],
        real: &["libp2p_plaintext handshake + Output", "libp2p_pnet PnetConfig::handshake, PnetOutput, CryptWriter", "PreSharedKey text format"],
        stub: &["socket -> simkit::pipe", "remote plaintext peer = scripted raw bytes"],
        scenarios: vec![
            Scenario::new("plaintext-pair", 600, 60_000, plaintext_pair),
            Scenario::new("plaintext-scripted", 1200, 120_000, plaintext_scripted),
            Scenario::new("pnet-pair", 1200, 120_000, pnet_pair),
            Scenario::new("keyfile", 1500, 200_000, keyfile).profiles(simkit::runner::NO_FAULTS),
        ],
    }
}

#[derive(Default, Debug)]
struct Side {
    result: Option<Result<PeerId, String>>,
    read: Vec<u8>,
    read_err: Option<String>,
    write_err: Option<String>,
    eof: bool,
}
type SideRef = Rc<RefCell<Side>>;

fn content(tag: u8, n: usize) -> Vec<u8> {
    (0..n).map(|i| (tag as usize * 29 + i * 13 + (i >> 8)) as u8).collect()
}

async fn exchange<S: AsyncRead + AsyncWrite + Unpin>(io: S, out: Vec<u8>, side: SideRef) {
    let (mut r, mut w) = io.split();
    let s2 = side.clone();
    let wr = async move {
        let mut off = 0;
        while off < out.len() {
            let n = (1 + choose(2000)).min(out.len() - off);
            if let Err(e) = w.write_all(&out[off..off + n]).await {
                s2.borrow_mut().write_err = Some(format!("{:?}", e.kind()));
                return;
            }
            off += n;
            if choose(4) == 0 {
                if let Err(e) = w.flush().await {
                    s2.borrow_mut().write_err = Some(format!("flush {:?}", e.kind()));
                    return;
                }
            }
        }
        if let Err(e) = w.close().await {
            s2.borrow_mut().write_err = Some(format!("close {:?}", e.kind()));
        }
    };
    let s3 = side.clone();
    let rd = async move {
        let mut buf = vec![0u8; [1usize, 5, 64, 5000][choose(4)]];
        loop {
            match r.read(&mut buf).await {
                Ok(0) => {
                    s3.borrow_mut().eof = true;
                    break;
                }
                Ok(n) => s3.borrow_mut().read.extend_from_slice(&buf[..n]),
                Err(e) => {
                    s3.borrow_mut().read_err = Some(format!("{:?}", e.kind()));
                    break;
                }
            }
        }
    };
    futures::join!(wr, rd);
}

fn plaintext_pair() -> SimResult {
    draw_policy();
    // plaintext caps its Exchange message at 100 bytes: only ed25519 / secp256k1 identities fit
    let (ta, tb) = (choose(2), choose(2));
    let (ka, kb) = (keypair(ta), keypair(tb));
    let (pa, pb) = (content(1, small(0, 3000)), content(2, small(0, 3000)));
    note_val("ta", ta as u64);
    note_val("tb", tb as u64);
    let staged = choose(3) == 0; // transport with buffered-writer semantics: bytes move only on flush
    let (a, b) = pipe::pair_cfg(PipeCfg::draw_min_cap(2048).with_staged(staged), PipeCfg::draw_min_cap(2048).with_staged(staged));
    let (sa, sb): (SideRef, SideRef) = Default::default();
    let (sa2, pa2) = (sa.clone(), pa.clone());
    let ua = spawn("A", async move {
        match libp2p_plaintext::Config::new(&ka).upgrade_outbound(a, "/plaintext/2.0.0").await {
            Ok((p, io)) => {
                sa2.borrow_mut().result = Some(Ok(p));
                exchange(io, pa2, sa2).await;
            }
            Err(e) => sa2.borrow_mut().result = Some(Err(format!("{e:?}"))),
        }
    });
    let (sb2, pb2) = (sb.clone(), pb.clone());
    let kb_id = kb.public().to_peer_id();
    let ka_id = keypair(ta).public().to_peer_id();
    let _ = ka_id;
    let ub = spawn("B", async move {
        match libp2p_plaintext::Config::new(&kb).upgrade_inbound(b, "/plaintext/2.0.0").await {
            Ok((p, io)) => {
                sb2.borrow_mut().result = Some(Ok(p));
                exchange(io, pb2, sb2).await;
            }
            Err(e) => sb2.borrow_mut().result = Some(Err(format!("{e:?}"))),
        }
    });
    run_until_idle();
    ensure!(is_done(ua) && is_done(ub), "C19/plaintext-stuck", "plaintext pair did not finish: {:?} {:?}", sa.borrow(), sb.borrow());
    let (sa, sb) = (sa.borrow(), sb.borrow());
    ensure!(sa.result == Some(Ok(kb_id)), "C19/plaintext-id", "A learned {:?}, B is {kb_id}", sa.result);
    ensure!(matches!(sb.result, Some(Ok(_))), "C19/plaintext-id", "B failed: {:?}", sb.result);
    ensure!(sb.read == pa, "C19/plaintext-data", "B read {} bytes, A wrote {} (first diff {:?})", sb.read.len(), pa.len(), crate::c14::first_diff(&sb.read, &pa));
    ensure!(sa.read == pb, "C19/plaintext-data", "A read {} bytes, B wrote {} (first diff {:?})", sa.read.len(), pb.len(), crate::c14::first_diff(&sa.read, &pb));
    if !pa.is_empty() && !pb.is_empty() {
        mark_nontrivial();
    }
    set_sample(|| format!("plaintext-pair key types {ta}/{tb}, payloads {}B/{}B", pa.len(), pb.len()));
    Ok(())
}

fn put_varint(mut v: usize, out: &mut Vec<u8>) {
    loop {
        let b = (v & 0x7f) as u8;
        v >>= 7;
        if v == 0 {
            out.push(b);
            break;
        }
        out.push(b | 0x80);
    }
}

fn exchange_msg(id: Option<&[u8]>, pubkey: Option<&[u8]>) -> Vec<u8> {
    let mut body = vec![];
    if let Some(id) = id {
        body.push(0x0a);
        put_varint(id.len(), &mut body);
        body.extend_from_slice(id);
    }
    if let Some(pk) = pubkey {
        body.push(0x12);
        put_varint(pk.len(), &mut body);
        body.extend_from_slice(pk);
    }
    let mut out = vec![];
    put_varint(body.len(), &mut out);
    out.extend(body);
    out
}

fn plaintext_scripted() -> SimResult {
    draw_policy();
    let local = keypair(choose(2));
    let (tr, to) = (choose(2), choose(2)); // Exchange is capped at 100 bytes: ed25519 / secp256k1 only
    let remote = keypair(tr);
    let other = keypair(to);
    let variant = choose(6);
    let names = ["consistent", "id-of-other-key", "key-of-other-id", "missing-id", "missing-key", "garbage-key"];
    let rid = remote.public().to_peer_id().to_bytes();
    let rpk = remote.public().encode_protobuf();
    let oid = other.public().to_peer_id().to_bytes();
    let opk = other.public().encode_protobuf();
    let msg = match variant {
        0 => exchange_msg(Some(&rid), Some(&rpk)),
        1 => exchange_msg(Some(&oid), Some(&rpk)),
        2 => exchange_msg(Some(&rid), Some(&opk)),
        3 => exchange_msg(None, Some(&rpk)),
        4 => exchange_msg(Some(&rid), None),
        _ => exchange_msg(Some(&rid), Some(&bytes(small(0, 40)))),
    };
    let follow = content(7, small(0, 600));
    note(names[variant]);
    note_val("follow", (follow.len() > 0) as u64 + (follow.len() > 100) as u64);
    let (a, raw) = pipe::pair_raw(PipeCfg::draw_min_cap(2048));
    let side: SideRef = Default::default();
    let s2 = side.clone();
    let inbound = choose(2) == 0;
    let u = spawn("real", async move {
        let cfg = libp2p_plaintext::Config::new(&local);
        let r = if inbound { cfg.upgrade_inbound(a, "/plaintext/2.0.0").await } else { cfg.upgrade_outbound(a, "/plaintext/2.0.0").await };
        match r {
            Ok((p, mut io)) => {
                s2.borrow_mut().result = Some(Ok(p));
                let mut buf = vec![0u8; [1usize, 7, 4096][choose(3)]];
                loop {
                    match io.read(&mut buf).await {
                        Ok(0) => {
                            s2.borrow_mut().eof = true;
                            break;
                        }
                        Ok(n) => s2.borrow_mut().read.extend_from_slice(&buf[..n]),
                        Err(e) => {
                            s2.borrow_mut().read_err = Some(format!("{:?}", e.kind()));
                            break;
                        }
                    }
                }
            }
            Err(e) => s2.borrow_mut().result = Some(Err(format!("{e:?}"))),
        }
    });
    // handshake message and application bytes in the same write
    let mut all = msg.clone();
    all.extend_from_slice(&follow);
    raw.send(&all);
    raw.close_write();
    loop {
        run_until_idle();
        if raw.recv_all().is_empty() {
            break;
        }
    }
    ensure!(is_done(u), "C19/plaintext-scripted-stuck", "{}: real side did not finish", names[variant]);
    let s = side.borrow();
    trace!("{}: {:?} read={}", names[variant], s.result, s.read.len());
    match variant {
        0 => {
            ensure!(s.result == Some(Ok(remote.public().to_peer_id())), "C19/plaintext-consistent-rejected", "consistent exchange -> {:?}", s.result);
            ensure!(s.read == follow, "C19/plaintext-followup-lost", "application read {} bytes, the remote sent {} right after its exchange message (first diff {:?})", s.read.len(), follow.len(), crate::c14::first_diff(&s.read, &follow));
            ensure!(s.eof, "C19/plaintext-no-eof", "no EOF after follow-up");
            if !follow.is_empty() {
                mark_nontrivial();
                probe("followup_coalesced_with_exchange");
            }
        }
        1 | 2 => {
            ensure!(matches!(&s.result, Some(Err(e)) if e.contains("PeerIdMismatch")), "C19/plaintext-mismatch-accepted", "{}: expected PeerIdMismatch, got {:?}", names[variant], s.result);
            mark_nontrivial();
        }
        _ => {
            ensure!(matches!(s.result, Some(Err(_))), "C19/plaintext-malformed-accepted", "{}: expected an error, got {:?}", names[variant], s.result);
            mark_nontrivial();
        }
    }
    set_sample(|| format!("plaintext-scripted {} (remote key type {tr}), follow-up {}B, local is {} -> {:?}", names[variant], follow.len(), if inbound { "listener" } else { "dialer" }, s.result.as_ref().map(|r| r.is_ok())));
    Ok(())
}

fn pnet_pair() -> SimResult {
    draw_policy();
    let k1 = PreSharedKey::new(std::array::from_fn(|_| choose(256) as u8));
    let same = choose(5) != 0;
    let k2 = if same { k1 } else { PreSharedKey::new(std::array::from_fn(|i| if i == 0 { 0xFF ^ choose(255) as u8 } else { choose(256) as u8 })) };
    let same = same || k1 == k2;
    let (pa, pb) = (content(3, small(0, 6000)), content(4, small(0, 6000)));
    let staged = choose(3) == 0;
    let (a, b) = pipe::pair_cfg(PipeCfg::draw_min_cap(64).with_staged(staged), PipeCfg::draw_min_cap(64).with_staged(staged));
    let (ca, cb) = (a.ctl(), b.ctl());
    let (sa, sb): (SideRef, SideRef) = Default::default();
    let eintr = [0u32, 0, 50, 200][choose(4)];
    note_val("same", same as u64);
    note_val("eintr", eintr as u64);
    let (sa2, pa2, ca2) = (sa.clone(), pa.clone(), ca.clone());
    let ua = spawn("A", async move {
        match PnetConfig::new(k1).handshake(a).await {
            Ok(io) => {
                sa2.borrow_mut().result = Some(Ok(PeerId::random()));
                ca2.set_eintr(eintr); // CryptWriter documents handling of Interrupted; the raw handshake does not
                exchange(io, pa2, sa2).await;
            }
            Err(e) => sa2.borrow_mut().result = Some(Err(format!("{e:?}"))),
        }
    });
    let (sb2, pb2, cb2) = (sb.clone(), pb.clone(), cb.clone());
    let ub = spawn("B", async move {
        match PnetConfig::new(k2).handshake(b).await {
            Ok(io) => {
                sb2.borrow_mut().result = Some(Ok(PeerId::random()));
                cb2.set_eintr(eintr);
                exchange(io, pb2, sb2).await;
            }
            Err(e) => sb2.borrow_mut().result = Some(Err(format!("{e:?}"))),
        }
    });
    run_until_idle();
    ensure!(is_done(ua) && is_done(ub), "C19/pnet-stuck", "pnet pair did not finish: {:?} / {:?}", sa.borrow().result, sb.borrow().result);
    let (sa, sb) = (sa.borrow(), sb.borrow());
    ensure!(matches!(sa.result, Some(Ok(_))) && matches!(sb.result, Some(Ok(_))), "C19/pnet-handshake", "pnet handshake failed: {:?} {:?}", sa.result, sb.result);
    ensure!(sa.write_err.is_none() && sb.write_err.is_none(), "C19/pnet-write-error", "write error surfaced (Interrupted must be retried): {:?} {:?}", sa.write_err, sb.write_err);
    if same {
        ensure!(sb.read == pa, "C19/pnet-data", "B read {} bytes, A wrote {} (first diff {:?}); eintr={eintr}", sb.read.len(), pa.len(), crate::c14::first_diff(&sb.read, &pa));
        ensure!(sa.read == pb, "C19/pnet-data", "A read {} bytes, B wrote {} (first diff {:?}); eintr={eintr}", sa.read.len(), pb.len(), crate::c14::first_diff(&sa.read, &pb));
    } else {
        ensure!(sb.read.len() == pa.len() && sa.read.len() == pb.len(), "C19/pnet-length", "stream cipher must preserve lengths");
        if pa.len() >= 16 {
            ensure!(sb.read != pa, "C19/pnet-different-keys-transparent", "different pre-shared keys but data passed unchanged");
        }
    }
    // ciphertext on the wire differs from the plaintext
    if pa.len() + pb.len() > 0 {
        mark_nontrivial();
    }
    set_sample(|| format!("pnet-pair same_key={same} payloads {}B/{}B eintr={eintr}‰", pa.len(), pb.len()));
    Ok(())
}

/// Rider: plain seeded input generation (not a simulation result).
fn keyfile() -> SimResult {
    let k = PreSharedKey::new(std::array::from_fn(|_| choose(256) as u8));
    let text = k.to_key_file();
    let back = PreSharedKey::from_str(&text);
    ensure!(back == Ok(k), "C19/keyfile-roundtrip", "to_key_file -> from_str does not round-trip");
    ensure!(k.to_string().parse::<PreSharedKey>() == Ok(k), "C19/keyfile-roundtrip", "Display -> parse does not round-trip");
    // arbitrary third lines, including multi-byte UTF-8 whose total length is exactly 64 bytes
    let alphabet: &[&str] = &["a", "0", "f", "G", "é", "ß", "€", "😀", "+", " ", "-", "\u{0301}"];
    let mut key_line = String::new();
    let target = [64usize, 64, 64, 63, 65, 0, 10][choose(7)];
    let mut guard = 0;
    while key_line.len() != target && guard < 400 {
        guard += 1;
        let c = alphabet[choose(alphabet.len())];
        if key_line.len() + c.len() <= target {
            key_line.push_str(c);
        } else if key_line.len() + 1 <= target {
            key_line.push('a');
        }
    }
    let head = ["/key/swarm/psk/1.0.0/", "/key/swarm/psk/1.0.0", "x", ""][if choose(4) == 0 { 1 + choose(3) } else { 0 }];
    let enc = ["/base16/", "/base64/", ""][if choose(6) == 0 { 1 + choose(2) } else { 0 }];
    let sep = ["\n", "\r\n"][choose(2)];
    let text = format!("{head}{sep}{enc}{sep}{key_line}{}", ["", "\n", "  \n"][choose(3)]);
    note_val("len", key_line.len() as u64);
    note_val("ascii", key_line.is_ascii() as u64);
    // must return (Ok or Err), never panic: a panic is caught by the runner and reported
    let r = PreSharedKey::from_str(&text);
    if let Ok(k2) = r {
        // whatever parsed must print back to something that parses to the same key
        ensure!(k2.to_key_file().parse::<PreSharedKey>() == Ok(k2), "C19/keyfile-roundtrip", "parsed key does not round-trip");
    }
    if !key_line.is_ascii() && key_line.len() == 64 {
        mark_nontrivial();
        probe("non_ascii_64_byte_key_line");
    }
    set_sample(|| format!("keyfile: third line {:?} ({} bytes) -> {:?}", key_line, key_line.len(), r.map(|_| "ok")));
    Ok(())
}
