//! C25 — mplex framing round-trips (role mirrored) under any split, hostile input is bounded.
//! C26 — mplex substream / buffer limits (same raw-peer machinery).
use futures::future;
use futures::io::{AsyncReadExt, AsyncWriteExt};
use futures::{AsyncRead, AsyncWrite};
use libp2p_core::muxing::{StreamMuxer, StreamMuxerExt};
use libp2p_core::upgrade::OutboundConnectionUpgrade;
use libp2p_mplex::{Config, MaxBufferBehaviour, Multiplex};
use simkit::pipe::{self, Chunking, End, PipeCfg, Raw};
use simkit::*;
use std::cell::RefCell;
use std::collections::BTreeMap;
use std::rc::Rc;
use std::task::Poll;

// ---- reference codec (written from the mplex spec) -------------------------------------------
pub const NEW_STREAM: u8 = 0;
pub const MSG_RECEIVER: u8 = 1;
pub const MSG_INITIATOR: u8 = 2;
pub const CLOSE_RECEIVER: u8 = 3;
pub const CLOSE_INITIATOR: u8 = 4;
pub const RESET_RECEIVER: u8 = 5;
pub const RESET_INITIATOR: u8 = 6;

#[derive(Clone, Debug, PartialEq, Eq)]
pub struct RFrame {
    pub id: u64,
    pub flag: u8,
    pub data: Vec<u8>,
}

pub fn put_varint(mut v: u64, out: &mut Vec<u8>) {
    loop {
        let b = (v & 0x7f) as u8;
        v >>= 7;
        if v == 0 {
            out.push(b);
            break;
        }
        out.push(b | 0x80);
    }
}

pub fn encode(f: &RFrame, out: &mut Vec<u8>) {
    put_varint((f.id << 3) | f.flag as u64, out);
    put_varint(f.data.len() as u64, out);
    out.extend_from_slice(&f.data);
}

fn get_varint(b: &[u8], i: &mut usize) -> Option<u64> {
    let mut v = 0u64;
    let mut shift = 0;
    loop {
        let x = *b.get(*i)?;
        *i += 1;
        v |= ((x & 0x7f) as u64) << shift;
        if x & 0x80 == 0 {
            return Some(v);
        }
        shift += 7;
        if shift > 63 {
            return None;
        }
    }
}

/// Parse as many complete frames as `b` contains; returns frames and bytes consumed.
pub fn parse(b: &[u8]) -> (Vec<RFrame>, usize) {
    let mut out = vec![];
    let mut i = 0;
    loop {
        let start = i;
        let Some(h) = get_varint(b, &mut i) else { return (out, start) };
        let Some(len) = get_varint(b, &mut i) else { return (out, start) };
        if b.len() < i + len as usize {
            return (out, start);
        }
        out.push(RFrame { id: h >> 3, flag: (h & 7) as u8, data: b[i..i + len as usize].to_vec() });
        i += len as usize;
    }
}

// ---- real endpoint driven by a command queue ---------------------------------------------------
#[derive(Default)]
pub struct Ep {
    /// inbound substreams handed out, in order, with what was read from each
    pub inbound: Vec<StreamLog>,
    pub outbound: Vec<StreamLog>,
    pub muxer_err: Option<String>,
    pub want_open: usize,
    pub accept_paused: bool,
}

#[derive(Default, Debug, Clone)]
pub struct StreamLog {
    pub read: Vec<u8>,
    pub eof: bool,
    pub read_err: Option<String>,
    pub write_err: Option<String>,
    pub closed: bool,
    /// reader is paused (slow reader) while this is true
    pub paused: bool,
    pub to_write: Vec<u8>,
    pub close_after_write: bool,
    pub drop_now: bool,
    pub dropped: bool,
}

pub type EpRef = Rc<RefCell<Ep>>;

type Sub = <Multiplex<End> as StreamMuxer>::Substream;

async fn stream_unit(mut s: Sub, ep: EpRef, inbound: bool, idx: usize) {
    let log = move |ep: &EpRef, f: &mut dyn FnMut(&mut StreamLog)| {
        let mut e = ep.borrow_mut();
        let l = if inbound { &mut e.inbound[idx] } else { &mut e.outbound[idx] };
        f(l)
    };
    // single task alternating between commanded writes and reads (poll-based so that a paused
    // reader really does not touch the substream)
    let mut buf = [0u8; 64];
    future::poll_fn(|cx| {
        loop {
            let mut progress = false;
            let (paused, to_write, close, drop_now, eof, rerr) = {
                let e = ep.borrow();
                let l = if inbound { &e.inbound[idx] } else { &e.outbound[idx] };
                (l.paused, l.to_write.clone(), l.close_after_write && !l.closed, l.drop_now, l.eof, l.read_err.is_some())
            };
            if drop_now {
                log(&ep, &mut |l| l.dropped = true);
                return Poll::Ready(());
            }
            if !to_write.is_empty() {
                match std::pin::Pin::new(&mut s).poll_write(cx, &to_write) {
                    Poll::Ready(Ok(n)) => {
                        log(&ep, &mut |l| {
                            l.to_write.drain(..n);
                        });
                        progress = true;
                    }
                    Poll::Ready(Err(e)) => {
                        log(&ep, &mut |l| {
                            l.write_err = Some(format!("{:?}", e.kind()));
                            l.to_write.clear();
                        });
                        progress = true;
                    }
                    Poll::Pending => {}
                }
            } else if close {
                match std::pin::Pin::new(&mut s).poll_close(cx) {
                    Poll::Ready(Ok(())) => {
                        log(&ep, &mut |l| l.closed = true);
                        progress = true;
                    }
                    Poll::Ready(Err(e)) => {
                        log(&ep, &mut |l| {
                            l.write_err = Some(format!("close {:?}", e.kind()));
                            l.closed = true;
                        });
                        progress = true;
                    }
                    Poll::Pending => {}
                }
            } else {
                // flush whatever was written
                let _ = std::pin::Pin::new(&mut s).poll_flush(cx);
            }
            if !paused && !eof && !rerr {
                match std::pin::Pin::new(&mut s).poll_read(cx, &mut buf) {
                    Poll::Ready(Ok(0)) => {
                        log(&ep, &mut |l| l.eof = true);
                        progress = true;
                    }
                    Poll::Ready(Ok(n)) => {
                        let d = buf[..n].to_vec();
                        log(&ep, &mut |l| l.read.extend_from_slice(&d));
                        progress = true;
                    }
                    Poll::Ready(Err(e)) => {
                        log(&ep, &mut |l| l.read_err = Some(format!("{:?}", e.kind())));
                        progress = true;
                    }
                    Poll::Pending => {}
                }
            }
            if !progress {
                return Poll::Pending;
            }
        }
    })
    .await;
    drop(s);
}

pub struct Real {
    pub ep: EpRef,
    pub driver: UnitId,
    pub units: Rc<RefCell<Vec<UnitId>>>,
}

impl Real {
    /// wake every unit so that changed commands are noticed
    pub fn kick(&self) {
        spurious_wake(self.driver);
        for u in self.units.borrow().iter() {
            spurious_wake(*u);
        }
    }
}

pub fn spawn_real(io: End, cfg: Config) -> Real {
    let mut m = futures::executor::block_on(cfg.upgrade_outbound(io, "/mplex/6.7.0")).unwrap();
    let ep: EpRef = Default::default();
    let units: Rc<RefCell<Vec<UnitId>>> = Default::default();
    let (e2, u2) = (ep.clone(), units.clone());
    let driver = spawn("mplex-driver", async move {
        future::poll_fn(move |cx| {
            loop {
                let mut progress = false;
                if e2.borrow().muxer_err.is_some() {
                    return Poll::Ready(());
                }
                if !e2.borrow().accept_paused {
                    match m.poll_inbound_unpin(cx) {
                        Poll::Ready(Ok(s)) => {
                            let idx = {
                                let mut e = e2.borrow_mut();
                                e.inbound.push(StreamLog::default());
                                e.inbound.len() - 1
                            };
                            note("inbound-substream");
                            let u = spawn(format!("in-{idx}"), stream_unit(s, e2.clone(), true, idx));
                            u2.borrow_mut().push(u);
                            progress = true;
                        }
                        Poll::Ready(Err(e)) => {
                            e2.borrow_mut().muxer_err = Some(format!("{:?}: {e}", e.kind()));
                            return Poll::Ready(());
                        }
                        Poll::Pending => {}
                    }
                }
                if e2.borrow().want_open > 0 {
                    match m.poll_outbound_unpin(cx) {
                        Poll::Ready(Ok(s)) => {
                            let idx = {
                                let mut e = e2.borrow_mut();
                                e.want_open -= 1;
                                e.outbound.push(StreamLog::default());
                                e.outbound.len() - 1
                            };
                            let u = spawn(format!("out-{idx}"), stream_unit(s, e2.clone(), false, idx));
                            u2.borrow_mut().push(u);
                            progress = true;
                        }
                        Poll::Ready(Err(e)) => {
                            e2.borrow_mut().muxer_err = Some(format!("{:?}: {e}", e.kind()));
                            return Poll::Ready(());
                        }
                        Poll::Pending => {}
                    }
                }
                if !progress {
                    return Poll::Pending;
                }
            }
        })
        .await;
    });
    Real { ep, driver, units }
}

/// Run to quiescence, collecting what the real side put on the wire.
pub fn pump(raw: &Raw, wire: &mut Vec<u8>) {
    loop {
        run_until_idle();
        let b = raw.recv_all();
        if b.is_empty() {
            break;
        }
        wire.extend(b);
    }
}

/// Like `pump`, but bounded: while a blocked substream has no reader, mplex re-wakes the polling
/// task by design, so the system never becomes idle.
pub fn pump_bounded(raw: &Raw, wire: &mut Vec<u8>) {
    for _ in 0..6 {
        run_steps(400);
        let b = raw.recv_all();
        wire.extend(b);
        if ready_count() == 0 {
            break;
        }
    }
}

pub fn check_c25() -> Check {
    Check {
        id: "C25",
        title: "Mplex framing round-trips and bounds hostile input",
        level: Level::FaultEnumeration,
        rule: "a real mplex endpoint faces a scripted raw peer speaking a reference mplex codec written in the harness. outbound: every operation of the real side (open, write, close, drop) must appear on the wire as the reference frame for it (initiator/receiver flag mirrored). inbound: frames of every kind x ids up to 2^60 x payload sizes are delivered under every split offset of the byte stream (exhaustive inside the run for short streams) and must have exactly their effect (open -> inbound substream, data -> bytes on that substream only, close -> EOF, wrong-role data -> not delivered). hostile: declared length 1 MiB+1 with no payload must already fail; type 7, over-long varints, random bytes: error, never panic. Non-trivial = at least one frame was split across reads or a hostile case ran; distinct = fingerprint of (case, flags, id magnitude, size class, split class, outcome)",
        assumptions: &["reference codec written from the mplex spec"],
        real: &["libp2p_mplex codec (Encoder/Decoder), io::Multiplexed, Substream"],
        stub: &["remote mplex endpoint = scripted raw peer", "socket -> simkit::pipe"],
        scenarios: vec![
            Scenario::new("outbound-wire", 1200, 100_000, outbound_wire),
            Scenario::new("inbound-splits", 400, 40_000, inbound_splits),
            Scenario::new("inbound-random-chunks", 1200, 100_000, inbound_chunks),
            Scenario::new("hostile", 2000, 200_000, hostile),
        ],
    }
}

fn cfg_default() -> Config {
    Config::new()
}

/// Real side opens streams, writes, closes, drops; wire must equal the reference frames.
fn outbound_wire() -> SimResult {
    draw_policy();
    let mut cfg = cfg_default();
    let split = [1usize, 7, 100, 8192][choose(4)];
    cfg.set_split_send_size(split);
    let (a, raw) = pipe::pair_raw(PipeCfg::draw());
    let real = spawn_real(a, cfg);
    let mut wire = vec![];
    let n = 1 + choose(3);
    real.ep.borrow_mut().want_open = n;
    real.kick();
    pump(&raw, &mut wire);
    ensure!(real.ep.borrow().outbound.len() == n, "C25/open-failed", "asked for {n} outbound substreams, got {}", real.ep.borrow().outbound.len());
    // per stream: data then close or drop
    let mut expect_per_stream: BTreeMap<u64, (Vec<u8>, u8)> = BTreeMap::new();
    for i in 0..n {
        let data = bytes(small(0, 300));
        let fin = choose(3); // 0 close, 1 drop, 2 leave open
        {
            let mut e = real.ep.borrow_mut();
            e.outbound[i].to_write = data.clone();
            e.outbound[i].close_after_write = fin == 0;
        }
        real.kick();
        pump(&raw, &mut wire);
        if fin == 1 {
            real.ep.borrow_mut().outbound[i].drop_now = true;
            real.kick();
            pump(&raw, &mut wire);
            // the Reset produced by a drop is only sent "at the next opportunity": provoke one
        }
        expect_per_stream.insert(i as u64, (data, fin as u8));
        note_val("fin", fin as u64);
    }
    // give pending frames an opportunity: open one more stream and flush through it
    real.ep.borrow_mut().want_open = 1;
    real.kick();
    pump(&raw, &mut wire);
    {
        let mut e = real.ep.borrow_mut();
        let last = e.outbound.len() - 1;
        e.outbound[last].to_write = vec![0xEE];
    }
    real.kick();
    pump(&raw, &mut wire);
    let (frames, used) = parse(&wire);
    ensure!(used == wire.len(), "C25/wire-garbage", "real side emitted bytes the reference parser cannot frame ({} of {} consumed)", used, wire.len());
    ensure!(real.ep.borrow().muxer_err.is_none(), "C25/muxer-error", "unexpected muxer error {:?}", real.ep.borrow().muxer_err);
    // group per id
    for (id, (data, fin)) in &expect_per_stream {
        let fs: Vec<&RFrame> = frames.iter().filter(|f| f.id == *id).collect();
        ensure!(!fs.is_empty() && fs[0].flag == NEW_STREAM, "C25/open-frame", "stream {id}: first frame is not NewStream: {:?}", fs.first());
        let mut got = vec![];
        let mut tail = vec![];
        for f in &fs[1..] {
            match f.flag {
                MSG_INITIATOR => {
                    ensure!(tail.is_empty(), "C25/data-after-close", "stream {id}: data after close/reset");
                    ensure!(f.data.len() <= split, "C25/split-send-size", "stream {id}: data frame of {} bytes exceeds split_send_size {split}", f.data.len());
                    got.extend_from_slice(&f.data);
                }
                CLOSE_INITIATOR | RESET_INITIATOR => tail.push(f.flag),
                other => return Err(violation!("C25/role-not-mirrored", "stream {id} opened by the real side carries flag {other} (must use the initiator flags 2/4/6)")),
            }
        }
        ensure!(&got == data, "C25/outbound-data", "stream {id}: wire data differs from written data at {:?}", crate::c14::first_diff(&got, data));
        match fin {
            0 => ensure!(tail == vec![CLOSE_INITIATOR], "C25/close-frame", "stream {id}: expected exactly one CloseInitiator, got {tail:?}"),
            1 => ensure!(tail == vec![RESET_INITIATOR], "C25/reset-frame", "stream {id}: dropped while open: expected exactly one ResetInitiator, got {tail:?}"),
            _ => ensure!(tail.is_empty(), "C25/spurious-close", "stream {id}: left open but wire has {tail:?}"),
        }
    }
    mark_nontrivial();
    set_sample(|| format!("outbound-wire: {n} streams split_send_size={split} plan={:?} -> {} frames", expect_per_stream.iter().map(|(k, v)| (*k, v.0.len(), v.1)).collect::<Vec<_>>(), frames.len()));
    Ok(())
}

#[derive(Clone, Debug)]
struct Script {
    frames: Vec<RFrame>,
    /// expected per inbound stream (in open order): data, eof
    expect_in: Vec<(Vec<u8>, bool)>,
    /// expected on the locally opened stream 0: data, eof
    expect_out0: (Vec<u8>, bool),
}

/// A frame sequence exercising every kind, with its expected effect computed independently.
fn draw_script() -> Script {
    let id_of = |k: usize| -> u64 { [0u64, 1, 5, 127, 128, 1 << 20, (1 << 60) - 1][choose(7)] + k as u64 * 1000 };
    let nin = 1 + choose(3);
    let mut frames = vec![];
    let mut expect_in = vec![];
    let mut ids = vec![];
    for k in 0..nin {
        let id = id_of(k);
        ids.push(id);
        frames.push(RFrame { id, flag: NEW_STREAM, data: if choose(2) == 0 { vec![] } else { format!("name{k}").into_bytes() } });
        expect_in.push((vec![], false));
    }
    let mut expect_out0 = (vec![], false);
    let mut closed_in = vec![false; nin];
    let nops = 2 + choose(8);
    for _ in 0..nops {
        match choose(8) {
            0..=2 => {
                // data on an inbound stream (remote is initiator -> MSG_INITIATOR)
                let k = choose(nin);
                let d = bytes([0usize, 1, 5, 127, 128, 300][choose(6)]);
                frames.push(RFrame { id: ids[k], flag: MSG_INITIATOR, data: d.clone() });
                if !closed_in[k] {
                    expect_in[k].0.extend(d);
                }
            }
            3 => {
                // data for the locally opened stream 0 (remote is receiver -> MSG_RECEIVER)
                let d = bytes(1 + choose(40));
                frames.push(RFrame { id: 0, flag: MSG_RECEIVER, data: d.clone() });
                if !expect_out0.1 {
                    expect_out0.0.extend(d);
                }
            }
            4 => {
                // wrong role: MSG_RECEIVER on an id that only exists as remote-initiated stream
                let k = choose(nin);
                if ids[k] != 0 {
                    frames.push(RFrame { id: ids[k], flag: MSG_RECEIVER, data: b"WRONGROLE".to_vec() });
                }
            }
            5 => {
                let k = choose(nin);
                frames.push(RFrame { id: ids[k], flag: CLOSE_INITIATOR, data: vec![] });
                closed_in[k] = true;
                expect_in[k].1 = true;
            }
            6 => {
                let k = choose(nin);
                frames.push(RFrame { id: ids[k], flag: RESET_INITIATOR, data: vec![] });
                closed_in[k] = true;
                expect_in[k].1 = true;
            }
            _ => {
                frames.push(RFrame { id: 0, flag: CLOSE_RECEIVER, data: vec![] });
                expect_out0.1 = true;
            }
        }
    }
    Script { frames, expect_in, expect_out0 }
}

fn run_script(sc: &Script, deliver: &mut dyn FnMut(&Raw, &[u8], &mut Vec<u8>)) -> SimResult {
    let (a, raw) = pipe::pair_raw(PipeCfg::draw());
    let real = spawn_real(a, cfg_default());
    let mut wire = vec![];
    // the real side opens its stream 0 first so that receiver-flag frames have a target
    real.ep.borrow_mut().want_open = 1;
    real.kick();
    pump(&raw, &mut wire);
    real.ep.borrow_mut().outbound[0].to_write = vec![1];
    real.kick();
    pump(&raw, &mut wire);
    let mut stream = vec![];
    for f in &sc.frames {
        encode(f, &mut stream);
    }
    deliver(&raw, &stream, &mut wire);
    real.kick();
    pump(&raw, &mut wire);
    let e = real.ep.borrow();
    trace!("inbound logs: {:?}; outbound0 read={} eof={}", e.inbound.iter().map(|l| (l.read.len(), l.eof, l.read_err.clone())).collect::<Vec<_>>(), e.outbound[0].read.len(), e.outbound[0].eof);
    ensure!(e.muxer_err.is_none(), "C25/valid-frames-rejected", "muxer error {:?} on a valid frame sequence {:?}", e.muxer_err, sc.frames.iter().map(|f| (f.id, f.flag, f.data.len())).collect::<Vec<_>>());
    ensure!(e.inbound.len() == sc.expect_in.len(), "C25/inbound-count", "expected {} inbound substreams, got {}", sc.expect_in.len(), e.inbound.len());
    for (k, (d, eof)) in sc.expect_in.iter().enumerate() {
        let l = &e.inbound[k];
        ensure!(&l.read == d, "C25/inbound-data", "inbound stream #{k}: read {:?}.. expected {:?}.. (lens {} vs {}); frames {:?}", &l.read[..l.read.len().min(12)], &d[..d.len().min(12)], l.read.len(), d.len(), sc.frames.iter().map(|f| (f.id, f.flag, f.data.len())).collect::<Vec<_>>());
        ensure!(l.eof == *eof, "C25/inbound-eof", "inbound stream #{k}: eof={} expected {}", l.eof, eof);
    }
    ensure!(e.outbound[0].read == sc.expect_out0.0, "C25/role-mirror-data", "locally opened stream 0 read {} bytes, expected {} (receiver-flag frames must reach it, initiator-flag frames must not)", e.outbound[0].read.len(), sc.expect_out0.0.len());
    ensure!(e.outbound[0].eof == sc.expect_out0.1, "C25/role-mirror-eof", "locally opened stream 0 eof={} expected {}", e.outbound[0].eof, sc.expect_out0.1);
    Ok(())
}

fn inbound_splits() -> SimResult {
    let sc = draw_script();
    let mut stream_len = 0;
    for f in &sc.frames {
        let mut v = vec![];
        encode(f, &mut v);
        stream_len += v.len();
    }
    note_val("frames", sc.frames.len() as u64);
    // every split offset (exhaustive inside the run); long streams: a drawn subset
    let offsets: Vec<usize> = if stream_len <= 400 { (0..=stream_len).collect() } else { (0..60).map(|_| choose(stream_len + 1)).collect() };
    for k in offsets {
        run_script(&sc, &mut |raw, s, wire| {
            raw.send(&s[..k]);
            pump(raw, wire);
            raw.send(&s[k..]);
        })?;
    }
    mark_nontrivial();
    set_sample(|| format!("inbound-splits: {} frames, {} bytes, all split offsets; frames {:?}", sc.frames.len(), stream_len, sc.frames.iter().map(|f| (f.id, f.flag, f.data.len())).collect::<Vec<_>>()));
    Ok(())
}

fn inbound_chunks() -> SimResult {
    draw_policy();
    let sc = draw_script();
    note_val("frames", sc.frames.len() as u64);
    for f in &sc.frames {
        note_val("f", f.flag as u64 + 8 * (f.id > 127) as u64 + 16 * (f.data.len() > 127) as u64);
    }
    run_script(&sc, &mut |raw, s, wire| {
        let mut rest = s;
        while !rest.is_empty() {
            let k = 1 + choose(rest.len().min(40));
            raw.send(&rest[..k]);
            rest = &rest[k..];
            if choose(2) == 0 {
                pump(raw, wire);
            }
        }
    })?;
    mark_nontrivial();
    set_sample(|| format!("inbound-random-chunks: frames {:?}", sc.frames.iter().map(|f| (f.id, f.flag, f.data.len())).collect::<Vec<_>>()));
    Ok(())
}

fn hostile() -> SimResult {
    draw_policy();
    let (a, raw) = pipe::pair_raw(PipeCfg::draw());
    let real = spawn_real(a, cfg_default());
    let mut wire = vec![];
    let mut s = vec![];
    // optional valid prefix
    let valid_prefix = choose(2) == 1;
    if valid_prefix {
        encode(&RFrame { id: 3, flag: NEW_STREAM, data: vec![] }, &mut s);
        encode(&RFrame { id: 3, flag: MSG_INITIATOR, data: b"ok".to_vec() }, &mut s);
    }
    let (kind, must_err): (&'static str, bool) = match choose(6) {
        0 => {
            // declared length 1 MiB + 1 (+ more), and NOT a single payload byte follows
            put_varint((9 << 3) | MSG_INITIATOR as u64, &mut s);
            put_varint((1 << 20) + 1 + [0u64, 1, 1 << 20, 1 << 40][choose(4)], &mut s);
            ("length-over-1MiB", true)
        }
        1 => {
            put_varint((9 << 3) | 7, &mut s);
            put_varint(0, &mut s);
            ("unknown-type-7", true)
        }
        2 => {
            // over-long varint header (11 continuation bytes)
            s.extend_from_slice(&[0xff; 11]);
            s.push(0x01);
            ("overlong-varint", true)
        }
        3 => {
            // exactly 1 MiB is legal: must NOT be rejected just from its header
            put_varint((9 << 3) | MSG_INITIATOR as u64, &mut s);
            put_varint(1 << 20, &mut s);
            ("length-exactly-1MiB-header-only", false)
        }
        4 => {
            s.extend(bytes(small(1, 60)));
            ("random", false)
        }
        _ => {
            // Open for an already open substream: protocol error
            encode(&RFrame { id: 3, flag: NEW_STREAM, data: vec![] }, &mut s);
            if valid_prefix {
                ("duplicate-open", true)
            } else {
                ("single-open", false)
            }
        }
    };
    note(kind);
    note_val("prefix", valid_prefix as u64);
    // deliver in drawn pieces; the stream stays open afterwards (no EOF!)
    let mut rest = &s[..];
    while !rest.is_empty() {
        let k = 1 + choose(rest.len());
        raw.send(&rest[..k]);
        rest = &rest[k..];
        pump(&raw, &mut wire);
    }
    real.kick();
    pump(&raw, &mut wire);
    let e = real.ep.borrow();
    trace!("{kind}: muxer_err={:?} inbound={}", e.muxer_err, e.inbound.len());
    if must_err {
        ensure!(e.muxer_err.is_some(), "C25/hostile-not-rejected", "{kind}: the muxer did not fail although the offending header was fully delivered (nothing else will arrive): inbound={} ", e.inbound.len());
    }
    if kind == "length-exactly-1MiB-header-only" {
        ensure!(e.muxer_err.is_none(), "C25/legal-length-rejected", "a frame of exactly 1 MiB was rejected: {:?}", e.muxer_err);
    }
    if valid_prefix && kind != "random" {
        ensure!(e.inbound.len() >= 1, "C25/prefix-lost", "{kind}: valid frames before the hostile one were not processed");
    }
    mark_nontrivial();
    set_sample(|| format!("hostile {kind} (valid prefix: {valid_prefix}): {} bytes -> muxer_err={:?}", s.len(), e.muxer_err));
    Ok(())
}

// =================================================================================================
// C26
// =================================================================================================

pub fn check_c26() -> Check {
    Check {
        id: "C26",
        title: "Mplex enforces its substream and buffer limits without losing data",
        level: Level::Exploration,
        rule: "small max_substreams (1..4) and max_buffer_len (1..4), both MaxBufferBehaviours; the scripted raw peer opens more streams than allowed and floods data frames on chosen streams while the local readers are paused/resumed by the schedule; local drops free slots. Oracle: substreams handed out and not yet dropped <= max_substreams at every step; every excess Open is answered by a Reset for that id; Block: the real side never consumes more than max_buffer_len+1 data frames of a stream beyond what its reader took (+ frames of other streams read meanwhile are bounded the same way), and after readers resume every frame is read, in order; ResetStream: a Reset for the overflowing id appears on the wire and reads on it end. limits-under-write-backpressure: the same limits are hit while the real side's own bulk write is stalled because the peer stopped reading (pipe full, muxer write buffer past its high-water mark); the owed Resets and the bulk data must all reach the wire after the peer reads again. Non-trivial = a limit was actually reached (excess open or full buffer); distinct = fingerprint of (limits, behaviour, flood shape, pause pattern, outcome)",
        assumptions: &["frames consumed by the real side are measured as bytes taken from the pipe, mapped to frames by the reference parser"],
        real: &["libp2p_mplex io::Multiplexed limits, buffering, notifier wake-ups"],
        stub: &["remote endpoint = scripted raw peer", "socket -> simkit::pipe"],
        scenarios: vec![
            Scenario::new("substream-limit", 1500, 100_000, substream_limit),
            Scenario::new("buffer-block", 1500, 100_000, buffer_block),
            Scenario::new("buffer-reset", 1500, 100_000, buffer_reset),
            Scenario::new("limits-under-write-backpressure", 400, 20_000, limits_backpressure),
        ],
    }
}

fn live_streams(e: &Ep) -> usize {
    e.inbound.iter().chain(e.outbound.iter()).filter(|l| !l.dropped).count()
}

fn substream_limit() -> SimResult {
    draw_policy();
    let max = 1 + choose(4);
    let mut cfg = cfg_default();
    cfg.set_max_num_streams(max);
    note_val("max", max as u64);
    let (a, raw) = pipe::pair_raw(PipeCfg::draw());
    let real = spawn_real(a, cfg);
    let mut wire = vec![];
    let mut next_id = 1u64;
    let mut opened: Vec<u64> = vec![]; // ids for which the peer sent Open, in order
    let mut accepted_expected: Vec<u64> = vec![];
    let mut reset_expected: Vec<u64> = vec![];
    let steps = 4 + choose(12);
    for _ in 0..steps {
        match choose(5) {
            4 => {
                // the peer ends an accepted stream: Close and/or Reset, possibly repeated. The local
                // handle stays until dropped locally, so it keeps counting against the limit.
                if !accepted_expected.is_empty() {
                    let id = accepted_expected[choose(accepted_expected.len())];
                    let mut s = vec![];
                    for _ in 0..1 + choose(3) {
                        let flag = if choose(3) == 0 { CLOSE_INITIATOR } else { RESET_INITIATOR };
                        encode(&RFrame { id, flag, data: vec![] }, &mut s);
                    }
                    raw.send(&s);
                    real.kick();
                    pump(&raw, &mut wire);
                    note("peer-ends-stream");
                }
            }
            0 | 1 => {
                // peer opens a burst
                let burst = 1 + choose(3);
                let mut s = vec![];
                let live_before = live_streams(&real.ep.borrow());
                for b in 0..burst {
                    encode(&RFrame { id: next_id, flag: NEW_STREAM, data: vec![] }, &mut s);
                    opened.push(next_id);
                    if live_before + b < max {
                        accepted_expected.push(next_id);
                    } else {
                        reset_expected.push(next_id);
                        probe("excess_open_sent");
                        mark_nontrivial();
                    }
                    next_id += 1;
                }
                raw.send(&s);
                real.kick();
                pump(&raw, &mut wire);
            }
            2 => {
                // local side drops one live inbound stream (frees a slot)
                let cand: Vec<usize> = real.ep.borrow().inbound.iter().enumerate().filter(|(_, l)| !l.drop_now).map(|(i, _)| i).collect();
                if !cand.is_empty() {
                    let i = cand[choose(cand.len())];
                    real.ep.borrow_mut().inbound[i].drop_now = true;
                    real.kick();
                    pump(&raw, &mut wire);
                    note("local-drop");
                }
            }
            _ => {
                // local side wants an outbound stream (must wait while at the limit)
                if real.ep.borrow().want_open == 0 {
                    real.ep.borrow_mut().want_open = 1;
                    real.kick();
                    pump(&raw, &mut wire);
                    note("want-open");
                }
            }
        }
        let e = real.ep.borrow();
        ensure!(e.muxer_err.is_none(), "C26/muxer-error", "muxer failed: {:?}", e.muxer_err);
        let live = live_streams(&e);
        ensure!(live <= max, "C26/too-many-substreams", "{live} substreams handed out and not dropped, max_substreams={max}");
    }
    // Pending Reset frames are only written "at the next opportunity": provide one by dropping
    // every local stream, opening an outbound one and flushing through it.
    {
        let mut e = real.ep.borrow_mut();
        for l in e.inbound.iter_mut() {
            l.drop_now = true;
        }
        for l in e.outbound.iter_mut() {
            l.drop_now = true;
        }
    }
    real.kick();
    pump(&raw, &mut wire);
    let dropped_at_end: Vec<bool> = real.ep.borrow().inbound.iter().map(|_| true).collect();
    let _ = dropped_at_end;
    real.ep.borrow_mut().want_open = 1;
    real.kick();
    pump(&raw, &mut wire);
    {
        let mut e = real.ep.borrow_mut();
        if let Some(l) = e.outbound.last_mut() {
            l.drop_now = false;
            l.to_write = vec![0xEE];
        }
    }
    real.kick();
    pump(&raw, &mut wire);
    let (frames, _) = parse(&wire);
    let resets: Vec<u64> = frames.iter().filter(|f| f.flag == RESET_RECEIVER).map(|f| f.id).collect();
    let e = real.ep.borrow();
    // NOTE: which opens are excess depends on when local drops/opens took effect; the model above
    // evaluates the limit at burst time with the state after the previous step, which is exact
    // because every step is pumped to quiescence.
    ensure!(e.inbound.len() == accepted_expected.len(), "C26/accepted-count", "accepted {} inbound substreams, model says {} (max={max}, opened={opened:?}, expected accepts {accepted_expected:?})", e.inbound.len(), accepted_expected.len());
    for id in &reset_expected {
        ensure!(resets.contains(id), "C26/excess-open-not-reset", "Open for id {id} beyond max_substreams={max} was not answered with a Reset (resets on wire: {resets:?})");
    }
    let _ = &accepted_expected;
    set_sample(|| format!("substream-limit max={max}: opened {opened:?}, accepted {accepted_expected:?}, excess {reset_expected:?}, resets on wire {resets:?}"));
    Ok(())
}

/// Count complete data frames per stream id among the first `consumed` bytes of `sent`.
fn frames_in_prefix(sent: &[u8], consumed: usize) -> BTreeMap<u64, usize> {
    let (fs, _) = parse(&sent[..consumed.min(sent.len())]);
    let mut m = BTreeMap::new();
    for f in fs {
        if f.flag == MSG_INITIATOR {
            *m.entry(f.id).or_insert(0) += 1;
        }
    }
    m
}

fn buffer_common(behaviour: MaxBufferBehaviour) -> SimResult {
    draw_policy();
    let maxbuf = 1 + choose(4);
    let mut cfg = cfg_default();
    cfg.set_max_buffer_size(maxbuf).set_max_buffer_behaviour(behaviour);
    note_val("maxbuf", maxbuf as u64);
    let (a, raw) = pipe::pair_raw(PipeCfg::default());
    let real = spawn_real(a, cfg);
    let mut wire = vec![];
    let nstreams = 2 + choose(2);
    let mut sent = vec![];
    for id in 1..=nstreams as u64 {
        encode(&RFrame { id, flag: NEW_STREAM, data: vec![] }, &mut sent);
    }
    raw.send(&sent);
    real.kick();
    pump_bounded(&raw, &mut wire);
    ensure!(real.ep.borrow().inbound.len() == nstreams, "C26/setup", "setup: {} inbound", real.ep.borrow().inbound.len());
    // pause the reader of stream 1 (index 0); flood it while stream 2 is being read
    real.ep.borrow_mut().inbound[0].paused = true;
    let flood = maxbuf + 1 + choose(6);
    let mut expected: BTreeMap<u64, Vec<u8>> = BTreeMap::new();
    let mut seq = 0u8;
    let mut total_frames_sent: BTreeMap<u64, usize> = BTreeMap::new();
    let mut max_overrun = 0usize;
    let rounds = 1 + choose(3);
    for round in 0..rounds {
        for k in 0..flood {
            // mostly the paused stream, sometimes the others
            let id = if choose(4) == 0 { 2 + choose(nstreams - 1) as u64 } else { 1 };
            let d = vec![seq, id as u8, k as u8];
            seq = seq.wrapping_add(1);
            encode(&RFrame { id, flag: MSG_INITIATOR, data: d.clone() }, &mut sent);
            let mut one = vec![];
            encode(&RFrame { id, flag: MSG_INITIATOR, data: d.clone() }, &mut one);
            raw.send(&one);
            expected.entry(id).or_default().extend(d);
            *total_frames_sent.entry(id).or_insert(0) += 1;
            // one frame at a time, pumped to quiescence: the framed reader then never holds more
            // than the frame it is decoding, so bytes taken from the pipe map exactly to frames
            real.kick();
            pump_bounded(&raw, &mut wire);
        }
        // measure: frames of stream 1 the real side has taken off the wire vs frames its reader took
        let consumed = raw.consumed() as usize;
        let taken = frames_in_prefix(&sent, consumed).get(&1).copied().unwrap_or(0);
        let read_frames = real.ep.borrow().inbound[0].read.len() / 3;
        let overrun = taken.saturating_sub(read_frames);
        max_overrun = max_overrun.max(overrun);
        trace!("round {round}: stream1 frames sent={} taken={} read={} overrun={}", total_frames_sent.get(&1).copied().unwrap_or(0), taken, read_frames, overrun);
        if overrun >= maxbuf + 1 {
            probe("buffer_full_reached");
            mark_nontrivial();
        }
        if behaviour == MaxBufferBehaviour::Block {
            ensure!(overrun <= maxbuf + 1, "C26/buffer-overrun", "Block: {overrun} frames of the paused substream buffered, max_buffer_len+1 = {}", maxbuf + 1);
        }
        if choose(2) == 0 && round + 1 < rounds {
            // let the reader catch up in between
            real.ep.borrow_mut().inbound[0].paused = false;
            real.kick();
            pump_bounded(&raw, &mut wire);
            real.ep.borrow_mut().inbound[0].paused = true;
        }
    }
    // Sometimes the paused substream is finished from both sides while its frames are still buffered: the local side
    // half-closes it, the peer sends its Close (read off the wire by the task of another substream). Buffered frames
    // must survive that.
    if choose(3) == 0 {
        real.ep.borrow_mut().inbound[0].close_after_write = true;
        real.kick();
        pump_bounded(&raw, &mut wire);
        let mut c = vec![];
        encode(&RFrame { id: 1, flag: CLOSE_INITIATOR, data: vec![] }, &mut c);
        raw.send(&c);
        real.kick();
        pump_bounded(&raw, &mut wire);
        probe("closed_from_both_sides_while_buffered");
    }
    // resume all readers
    real.ep.borrow_mut().inbound[0].paused = false;
    real.kick();
    pump_bounded(&raw, &mut wire);
    let e = real.ep.borrow();
    ensure!(e.muxer_err.is_none(), "C26/muxer-error", "muxer failed: {:?}", e.muxer_err);
    let (frames, _) = parse(&wire);
    let resets: Vec<u64> = frames.iter().filter(|f| f.flag == RESET_RECEIVER).map(|f| f.id).collect();
    match behaviour {
        MaxBufferBehaviour::Block => {
            ensure!(resets.is_empty(), "C26/block-reset", "Block behaviour but Reset frames on the wire: {resets:?}");
            for id in 1..=nstreams as u64 {
                let exp = expected.get(&id).cloned().unwrap_or_default();
                let got = &e.inbound[id as usize - 1].read;
                ensure!(got == &exp, "C26/block-data-lost", "Block: stream {id} read {} bytes, {} were sent (first diff {:?}) — a data frame was dropped or reordered", got.len(), exp.len(), crate::c14::first_diff(got, &exp));
            }
        }
        MaxBufferBehaviour::ResetStream => {
            let sent1 = total_frames_sent.get(&1).copied().unwrap_or(0);
            for id in 2..=nstreams as u64 {
                // the other streams were always being read: they keep everything unless they overflowed too
                let exp = expected.get(&id).cloned().unwrap_or_default();
                let got = &e.inbound[id as usize - 1].read;
                ensure!(exp.starts_with(got), "C26/reset-other-stream-corrupt", "ResetStream: stream {id} read non-prefix data");
                if !resets.contains(&id) {
                    ensure!(got == &exp, "C26/reset-other-stream-lost", "ResetStream: stream {id} was not reset but read {} of {} bytes", got.len(), exp.len());
                }
            }
            let exp1 = expected.get(&1).cloned().unwrap_or_default();
            let got1 = &e.inbound[0].read;
            ensure!(exp1.starts_with(got1), "C26/reset-data-corrupt", "ResetStream: paused stream read non-prefix data");
            if max_overrun > maxbuf || sent1 > maxbuf + 1 + got1.len() / 3 {
                // it overflowed at some point (more than maxbuf+1 frames outstanding)
            }
            if resets.contains(&1) {
                probe("reset_on_overflow_seen");
                ensure!(e.inbound[0].eof, "C26/reset-no-eof", "ResetStream: stream 1 was reset on overflow but its reader did not reach end-of-stream");
                ensure!(got1.len() / 3 <= sent1, "C26/reset-extra-data", "more frames read than sent");
            } else {
                ensure!(got1 == &exp1, "C26/reset-lost-without-reset", "ResetStream: stream 1 lost data ({} of {} bytes) without being reset", got1.len(), exp1.len());
            }
        }
    }
    set_sample(|| format!("buffer {behaviour:?} maxbuf={maxbuf} streams={nstreams} flood={flood}x{rounds}: max overrun {max_overrun}, resets {resets:?}"));
    Ok(())
}

/// Limits hit while the real side's own writes are back-pressured: the transport stops accepting bytes (the peer does
/// not read) until the muxer's write buffer is past its high-water mark, then the peer sends excess Opens and floods a
/// substream nobody reads (ResetStream). The Resets the muxer owes can only be queued at that moment; they must still
/// reach the wire once the peer reads again.
fn limits_backpressure() -> SimResult {
    draw_policy();
    let max = 2 + choose(3);
    let maxbuf = 1 + choose(3);
    let mut cfg = cfg_default();
    cfg.set_max_num_streams(max).set_max_buffer_size(maxbuf).set_max_buffer_behaviour(MaxBufferBehaviour::ResetStream);
    cfg.set_split_send_size([1024, 8192, 1 << 20][choose(3)]);
    let ch = |v| if v == 0 { Chunking::Random } else { Chunking::Full };
    let pc = PipeCfg { capacity: [1024, 4096, 1 << 16][choose(3)], read_chunking: ch(choose(3)), write_chunking: ch(choose(3)), pending_permille: [0, 0, 30][choose(3)], eintr_permille: 0, staged: false };
    note_val("max", max as u64);
    note_val("cap", pc.capacity as u64);
    let (a, raw) = pipe::pair_raw(pc);
    let real = spawn_real(a, cfg);
    let mut wire = vec![];
    let mut s = vec![];
    for id in 1..=max as u64 {
        encode(&RFrame { id, flag: NEW_STREAM, data: vec![] }, &mut s);
    }
    raw.send(&s);
    real.kick();
    pump(&raw, &mut wire);
    ensure!(real.ep.borrow().inbound.len() == max, "C26/setup", "setup: {} inbound", real.ep.borrow().inbound.len());
    // stream 1 (index 0): nobody reads; stream 2 (index 1): bulk writer
    real.ep.borrow_mut().inbound[0].paused = true;
    let bulk_len = [2_000, 100_000, 140_000 + choose(120_000), 300_000][choose(4)];
    let bulk: Vec<u8> = (0..bulk_len).map(|i| (i * 7 + i / 251) as u8).collect();
    real.ep.borrow_mut().inbound[1].to_write = bulk.clone();
    real.kick();
    run_steps(20_000);
    let blocked = !real.ep.borrow().inbound[1].to_write.is_empty();
    if blocked {
        probe("write_backpressure_reached");
        mark_nontrivial();
    }
    // the peer hits both limits while the real side cannot write
    let mut reset_expected: Vec<u64> = vec![];
    let mut s = vec![];
    let excess = choose(3);
    for k in 0..excess {
        let id = max as u64 + 1 + k as u64;
        encode(&RFrame { id, flag: NEW_STREAM, data: vec![] }, &mut s);
        reset_expected.push(id);
    }
    let flood = if choose(4) == 0 { 0 } else { maxbuf + 2 + choose(3) };
    let mut exp1 = vec![];
    for k in 0..flood {
        let d = vec![0xA0, k as u8, 1];
        encode(&RFrame { id: 1, flag: MSG_INITIATOR, data: d.clone() }, &mut s);
        exp1.extend(d);
    }
    raw.send(&s);
    real.kick();
    run_steps(5_000);
    // the peer reads again: in pieces first, then everything
    for _ in 0..choose(4) {
        wire.extend(raw.recv_upto(1 + choose(50_000)));
        run_steps(choose(2_000));
    }
    pump_bounded(&raw, &mut wire);
    pump(&raw, &mut wire);
    real.ep.borrow_mut().inbound[0].paused = false;
    real.kick();
    pump(&raw, &mut wire);
    // "at the next opportunity": every unit flushes once more
    real.kick();
    pump(&raw, &mut wire);
    let e = real.ep.borrow();
    ensure!(e.muxer_err.is_none(), "C26/muxer-error", "muxer failed: {:?}", e.muxer_err);
    ensure!(e.inbound.len() == max, "C26/too-many-substreams", "{} inbound substreams handed out, max_substreams={max}", e.inbound.len());
    let (frames, _) = parse(&wire);
    let resets: Vec<u64> = frames.iter().filter(|f| f.flag == RESET_RECEIVER).map(|f| f.id).collect();
    let got_bulk: Vec<u8> = frames.iter().filter(|f| f.id == 2 && f.flag == MSG_RECEIVER).flat_map(|f| f.data.iter().copied()).collect();
    ensure!(got_bulk == bulk, "C26/backpressure-data-lost", "bulk write under back-pressure: {} of {} bytes on the wire (first diff {:?})", got_bulk.len(), bulk.len(), crate::c14::first_diff(&got_bulk, &bulk));
    for id in &reset_expected {
        ensure!(resets.contains(id), "C26/excess-open-not-reset", "Open for id {id} beyond max_substreams={max}, received while the muxer's writes were back-pressured (blocked={blocked}), was never answered with a Reset (resets on wire: {resets:?})");
    }
    let got1 = &e.inbound[0].read;
    ensure!(exp1.starts_with(got1), "C26/reset-data-corrupt", "ResetStream: paused stream read non-prefix data");
    if resets.contains(&1) {
        probe("reset_on_overflow_seen");
        ensure!(e.inbound[0].eof, "C26/reset-no-eof", "ResetStream: stream 1 was reset on overflow but its reader did not reach end-of-stream");
    } else {
        ensure!(got1 == &exp1, "C26/reset-lost-without-reset", "ResetStream: stream 1 lost data ({} of {} bytes) after overflowing under write back-pressure (blocked={blocked}), but no Reset for it reached the wire (resets {resets:?})", got1.len(), exp1.len());
    }
    if flood > 0 {
        ensure!(resets.contains(&1), "C26/overflow-not-reset", "ResetStream: {flood} frames for a substream nobody reads, max_buffer_len={maxbuf}, but no Reset for it on the wire (resets {resets:?})");
    }
    if !reset_expected.is_empty() || flood > 0 {
        probe("limit_hit_under_backpressure");
    }
    set_sample(|| format!("limits under back-pressure: max={max} maxbuf={maxbuf} bulk={bulk_len} blocked={blocked} excess {reset_expected:?} flood {flood}: resets on wire {resets:?}"));
    Ok(())
}

fn buffer_block() -> SimResult {
    buffer_common(MaxBufferBehaviour::Block)
}

fn buffer_reset() -> SimResult {
    buffer_common(MaxBufferBehaviour::ResetStream)
}

#[allow(dead_code)]
async fn _unused<S: futures::AsyncRead + futures::AsyncWrite + Unpin>(mut s: S) {
    let _ = s.write_all(b"").await;
    let mut b = [0u8; 1];
    let _ = s.read(&mut b).await;
}
