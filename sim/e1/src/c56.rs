//! C56 — WebRTC stream half-close state machine is safe.
use futures::{AsyncRead, AsyncWrite, Future};
use libp2p_webrtc_utils::{DropListener, Stream};
use simkit::pipe::{self, Ctl, End, PipeCfg};
use simkit::*;
use std::io;
use std::pin::Pin;
use std::sync::{Arc, Mutex};
use std::task::{Context, Poll};

pub fn check() -> Check {
    Check {
        id: "C56",
        title: "WebRTC stream half-close state machine is safe",
        level: Level::Exploration,
        rule: "a pair of real webrtc-utils Streams over a clonable simulated data channel, plus a raw injector that inserts FIN / STOP_SENDING / RESET (and data) messages into either direction. exact: 10..60 drawn operations (read, write, flush, close, close_read on either stream; injections), each driven to completion; reads use buffers of 1, 7, 300 or 20000 bytes (so payload stays buffered inside the stream across other operations) and injected flags may carry a payload in the same message; every result is compared with a reference half-close state machine that consumes the same message sequence (reads allowed only while the read half is open, writes only while the write half is open, ConnectionReset for everything after a processed RESET, data equality chunk by chunk, a payload behind FIN / RESET in the same message or left in the buffer when the read half closes is never readable). interleaved: operations are polled once (spurious Pending faults leave closes half-done), streams may be dropped (DropListener sends RESET); weak oracle: no panic, once ConnectionReset always ConnectionReset, data read is a prefix of data written. Non-trivial = at least one flag was processed and an operation was attempted after it; distinct = fingerprint of the (operation kind, result class) sequence",
        assumptions: &["flag messages carry no data (as produced by every libp2p implementation)", "frames are written atomically into the simulated data channel (WebRTC data channels are message oriented)"],
        real: &["libp2p_webrtc_utils::Stream (state.rs, framed_dc, drop_listener)", "prost-codec framing"],
        stub: &["WebRTC data channel -> clonable simkit::pipe end"],
        scenarios: vec![
            Scenario::new("exact", 4000, 400_000, exact).profiles(simkit::runner::NO_FAULTS),
            Scenario::new("interleaved", 4000, 400_000, interleaved),
        ],
    }
}

/// Clonable data channel (webrtc data channels are handles).
#[derive(Clone)]
pub struct Dc(Arc<Mutex<End>>);

impl AsyncRead for Dc {
    fn poll_read(self: Pin<&mut Self>, cx: &mut Context<'_>, buf: &mut [u8]) -> Poll<io::Result<usize>> {
        Pin::new(&mut *self.0.lock().unwrap()).poll_read(cx, buf)
    }
}
impl AsyncWrite for Dc {
    fn poll_write(self: Pin<&mut Self>, cx: &mut Context<'_>, buf: &[u8]) -> Poll<io::Result<usize>> {
        Pin::new(&mut *self.0.lock().unwrap()).poll_write(cx, buf)
    }
    fn poll_flush(self: Pin<&mut Self>, cx: &mut Context<'_>) -> Poll<io::Result<()>> {
        Pin::new(&mut *self.0.lock().unwrap()).poll_flush(cx)
    }
    fn poll_close(self: Pin<&mut Self>, cx: &mut Context<'_>) -> Poll<io::Result<()>> {
        Pin::new(&mut *self.0.lock().unwrap()).poll_close(cx)
    }
}

const MAX_MSG_LEN: usize = 16 * 1024;
const MAX_DATA_LEN: usize = MAX_MSG_LEN - 2 - 5;
const FIN: u8 = 0;
const STOP: u8 = 1;
const RESET: u8 = 2;

#[derive(Clone, Debug, PartialEq)]
enum Msg {
    Flag(u8),
    Data(Vec<u8>),
    /// one message carrying a flag and a payload (legal on the wire; other implementations send FIN with the last data)
    FlagData(u8, Vec<u8>),
}

fn encode(m: &Msg) -> Vec<u8> {
    let mut body = vec![];
    match m {
        Msg::Flag(f) => {
            body.push(0x08);
            body.push(*f);
        }
        Msg::Data(d) => {
            body.push(0x12);
            crate::c57::put_varint(d.len() as u64, &mut body);
            body.extend_from_slice(d);
        }
        Msg::FlagData(f, d) => {
            body.push(0x08);
            body.push(*f);
            body.push(0x12);
            crate::c57::put_varint(d.len() as u64, &mut body);
            body.extend_from_slice(d);
        }
    }
    let mut out = vec![];
    crate::c57::put_varint(body.len() as u64, &mut out);
    out.extend(body);
    out
}

#[derive(Debug, Clone, PartialEq)]
enum Res {
    Ok(usize),
    Pending,
    Err(io::ErrorKind),
}

fn res_usize(p: Poll<io::Result<usize>>) -> Res {
    match p {
        Poll::Ready(Ok(n)) => Res::Ok(n),
        Poll::Ready(Err(e)) => Res::Err(e.kind()),
        Poll::Pending => Res::Pending,
    }
}
fn res_unit(p: Poll<io::Result<()>>) -> Res {
    match p {
        Poll::Ready(Ok(())) => Res::Ok(0),
        Poll::Ready(Err(e)) => Res::Err(e.kind()),
        Poll::Pending => Res::Pending,
    }
}

/// Reference half-close state machine of one stream.
#[derive(Default, Debug, Clone)]
struct Model {
    inbound: Vec<Msg>,
    consumed: usize,
    r_closed: bool,
    w_closed: bool,
    reset: bool,
    flags_processed: usize,
    /// payload of the current message not yet handed to the reader (reads with small buffers)
    leftover: Vec<u8>,
}

impl Model {
    fn apply_flag(&mut self, f: u8) {
        self.flags_processed += 1;
        match f {
            FIN => self.r_closed = true,
            STOP => self.w_closed = true,
            _ => {
                self.reset = true;
                self.r_closed = true;
                self.w_closed = true;
            }
        }
    }
    /// expected result of a read into a buffer of `cap` bytes
    fn read(&mut self, cap: usize) -> (Res, Option<Vec<u8>>) {
        loop {
            if self.reset {
                return (Res::Err(io::ErrorKind::ConnectionReset), None);
            }
            if self.r_closed {
                return (Res::Err(io::ErrorKind::BrokenPipe), None);
            }
            if !self.leftover.is_empty() {
                let n = cap.min(self.leftover.len());
                let d: Vec<u8> = self.leftover.drain(..n).collect();
                return (Res::Ok(n), Some(d));
            }
            if self.consumed >= self.inbound.len() {
                return (Res::Pending, None);
            }
            let m = self.inbound[self.consumed].clone();
            self.consumed += 1;
            match m {
                Msg::Flag(f) => {
                    self.apply_flag(f);
                    return (Res::Ok(0), None);
                }
                Msg::Data(d) if d.is_empty() => return (Res::Ok(0), None),
                Msg::Data(d) => self.leftover = d,
                Msg::FlagData(f, d) => {
                    // the flag takes effect before the payload is looked at: a payload behind FIN / RESET is never readable
                    self.apply_flag(f);
                    if d.is_empty() {
                        return (Res::Ok(0), None);
                    }
                    self.leftover = d;
                }
            }
        }
    }
    fn write(&mut self, n: usize) -> Res {
        // a stream whose read half is closed looks for flags before writing
        if self.r_closed && !self.w_closed && !self.reset {
            while self.consumed < self.inbound.len() {
                let m = self.inbound[self.consumed].clone();
                self.consumed += 1;
                if let Msg::Flag(f) | Msg::FlagData(f, _) = m {
                    // after a FIN the read half is closed: FIN again changes nothing
                    self.apply_flag(f);
                }
                if self.w_closed || self.reset {
                    // the implementation re-checks its state before every further message
                    break;
                }
            }
        }
        if self.reset {
            return Res::Err(io::ErrorKind::ConnectionReset);
        }
        if self.w_closed {
            return Res::Err(io::ErrorKind::BrokenPipe);
        }
        Res::Ok(n.min(MAX_DATA_LEN))
    }
    fn close(&mut self) -> (Res, bool) {
        if self.reset {
            return (Res::Err(io::ErrorKind::ConnectionReset), false);
        }
        if self.w_closed && self.r_closed {
            return (Res::Err(io::ErrorKind::BrokenPipe), false);
        }
        if self.w_closed {
            return (Res::Ok(0), false);
        }
        self.w_closed = true;
        (Res::Ok(0), true)
    }
    fn close_read(&mut self) -> (Res, bool) {
        if self.reset {
            return (Res::Err(io::ErrorKind::ConnectionReset), false);
        }
        if self.w_closed && self.r_closed {
            return (Res::Err(io::ErrorKind::BrokenPipe), false);
        }
        if self.r_closed {
            return (Res::Ok(0), false);
        }
        self.r_closed = true;
        (Res::Ok(0), true)
    }
}

struct Side {
    stream: Option<Stream<Dc>>,
    listener: Option<DropListener<Dc>>,
    ctl: Ctl,
    model: Model,
    name: &'static str,
}

fn setup(cfg: PipeCfg) -> (Side, Side) {
    let (a, b) = pipe::pair(cfg);
    let (ca, cb) = (a.ctl(), b.ctl());
    let (sa, la) = Stream::new(Dc(Arc::new(Mutex::new(a))));
    let (sb, lb) = Stream::new(Dc(Arc::new(Mutex::new(b))));
    (
        Side { stream: Some(sa), listener: Some(la), ctl: ca, model: Model::default(), name: "A" },
        Side { stream: Some(sb), listener: Some(lb), ctl: cb, model: Model::default(), name: "B" },
    )
}

fn cx_do<R>(f: impl FnOnce(&mut Context<'_>) -> R) -> R {
    let w = futures::task::noop_waker();
    let mut cx = Context::from_waker(&w);
    f(&mut cx)
}

fn data(tag: u8, seq: usize, n: usize) -> Vec<u8> {
    (0..n).map(|i| (tag as usize * 31 + seq * 7 + i) as u8).collect()
}

fn exact() -> SimResult {
    let (mut a, mut b) = setup(PipeCfg::default());
    let nops = 10 + choose(50);
    let mut seq = 0usize;
    let mut big = vec![0u8; 20_000];
    let mut sample = vec![];
    for _ in 0..nops {
        let on_a = choose(2) == 0;
        let (me, peer) = if on_a { (&mut a, &mut b) } else { (&mut b, &mut a) };
        let op = choose(10);
        let s = me.stream.as_mut().unwrap();
        let desc: String;
        match op {
            0..=2 => {
                let cap = [1usize, 7, 300, 20_000, 20_000][choose(5)];
                let got = cx_do(|cx| res_usize(Pin::new(&mut *s).poll_read(cx, &mut big[..cap])));
                let (exp, d) = me.model.read(cap);
                if !me.model.leftover.is_empty() {
                    probe("partial_read_leaves_buffered_payload");
                }
                desc = format!("{}.read({cap}) -> {:?}", me.name, got);
                ensure!(got == exp, "C56/read-result", "{}: read returned {got:?}, reference state machine says {exp:?} (model {:?})", me.name, summary(&me.model));
                if let (Res::Ok(n), Some(d)) = (&got, d) {
                    ensure!(big[..*n] == d[..], "C56/read-data", "{}: read data differs from the message written by the peer", me.name);
                }
            }
            3..=5 => {
                seq += 1;
                let n = [0usize, 1, 10, 300, MAX_DATA_LEN, MAX_DATA_LEN + 1, 40_000][choose(7)];
                let d = data(if on_a { 1 } else { 2 }, seq, n);
                let got = cx_do(|cx| res_usize(Pin::new(&mut *s).poll_write(cx, &d)));
                let exp = me.model.write(n);
                desc = format!("{}.write({n}) -> {:?}", me.name, got);
                ensure!(got == exp, "C56/write-result", "{}: write({n}) returned {got:?}, reference says {exp:?} (model {:?})", me.name, summary(&me.model));
                if let Res::Ok(k) = got {
                    let fl = cx_do(|cx| res_unit(Pin::new(&mut *s).poll_flush(cx)));
                    ensure!(fl == Res::Ok(0), "C56/flush", "flush after write: {fl:?}");
                    peer.model.inbound.push(Msg::Data(d[..k].to_vec()));
                }
            }
            6 => {
                let got = cx_do(|cx| res_unit(Pin::new(&mut *s).poll_close(cx)));
                let (exp, sent) = me.model.close();
                desc = format!("{}.close -> {:?}", me.name, got);
                ensure!(got == exp, "C56/close-result", "{}: close returned {got:?}, reference says {exp:?} (model {:?})", me.name, summary(&me.model));
                if sent {
                    peer.model.inbound.push(Msg::Flag(FIN));
                }
            }
            7 => {
                let got = cx_do(|cx| res_unit(Pin::new(&mut *s).poll_close_read(cx)));
                let (exp, sent) = me.model.close_read();
                desc = format!("{}.close_read -> {:?}", me.name, got);
                ensure!(got == exp, "C56/close-read-result", "{}: close_read returned {got:?}, reference says {exp:?} (model {:?})", me.name, summary(&me.model));
                if sent {
                    peer.model.inbound.push(Msg::Flag(STOP));
                }
            }
            8 => {
                // raw injector: a flag arrives at `me` (as if the peer's implementation sent it), alone or together with a payload
                let f = [FIN, STOP, RESET][choose(3)];
                let m = if choose(3) == 0 {
                    seq += 1;
                    probe("flag_with_payload_injected");
                    Msg::FlagData(f, data(9, seq, [0usize, 1, 20, 300][choose(4)]))
                } else {
                    Msg::Flag(f)
                };
                me.ctl.inject_rx(&encode(&m));
                me.model.inbound.push(m);
                desc = format!("inject flag {f} -> {}", me.name);
                fired(["inject_fin", "inject_stop_sending", "inject_reset"][f as usize]);
            }
            _ => {
                let got = cx_do(|cx| res_unit(Pin::new(&mut *s).poll_flush(cx)));
                desc = format!("{}.flush -> {:?}", me.name, got);
            }
        }
        note_val("op", op as u64);
        trace!("{desc}");
        if sample.len() < 40 {
            sample.push(desc);
        }
    }
    if a.model.flags_processed + b.model.flags_processed > 0 {
        mark_nontrivial();
    }
    if a.model.reset || b.model.reset {
        probe("reset_processed");
    }
    set_sample(|| sample.join("; "));
    Ok(())
}

fn summary(m: &Model) -> String {
    format!("r_closed={} w_closed={} reset={} consumed={}/{}", m.r_closed, m.w_closed, m.reset, m.consumed, m.inbound.len())
}

/// Weak-oracle scenario with half-done operations, drops and spurious Pendings.
fn interleaved() -> SimResult {
    let mut cfg = PipeCfg::default();
    cfg.pending_permille = [0u32, 100, 300][choose(3)];
    let (mut a, mut b) = setup(cfg);
    let nops = 10 + choose(60);
    let mut written: [Vec<u8>; 2] = [vec![], vec![]]; // by A, by B (only what poll_write accepted)
    let mut read: [Vec<u8>; 2] = [vec![], vec![]]; // by A, by B
    let mut reset_seen = [false, false];
    let mut injected_data = false;
    let mut seq = 0;
    let mut sample = vec![];
    for _ in 0..nops {
        let on_a = choose(2) == 0;
        let idx = if on_a { 0 } else { 1 };
        let me = if on_a { &mut a } else { &mut b };
        let op = choose(12);
        note_val("op", op as u64);
        if op == 10 {
            // drop the stream without closing; its DropListener must then send a RESET
            if me.stream.take().is_some() {
                fired("stream_dropped");
            }
            continue;
        }
        if op == 11 {
            if let Some(l) = me.listener.as_mut() {
                let r = cx_do(|cx| Pin::new(l).poll(cx));
                if r.is_ready() {
                    me.listener = None;
                }
            }
            continue;
        }
        if op == 9 {
            let f = [FIN, STOP, RESET][choose(3)];
            me.ctl.inject_rx(&encode(&Msg::Flag(f)));
            fired(["inject_fin", "inject_stop_sending", "inject_reset"][f as usize]);
            if sample.len() < 40 {
                sample.push(format!("inject {f}->{}", me.name));
            }
            continue;
        }
        let Some(s) = me.stream.as_mut() else { continue };
        let mut buf = vec![0u8; [1usize, 10, 20_000][choose(3)]];
        let (kind, got) = match op {
            0..=2 => {
                let r = cx_do(|cx| res_usize(Pin::new(&mut *s).poll_read(cx, &mut buf)));
                if let Res::Ok(n) = r {
                    read[idx].extend_from_slice(&buf[..n]);
                }
                ("read", r)
            }
            3..=5 => {
                seq += 1;
                let d = data(idx as u8 + 1, seq, [0usize, 1, 100, 17_000][choose(4)]);
                let r = cx_do(|cx| res_usize(Pin::new(&mut *s).poll_write(cx, &d)));
                if let Res::Ok(n) = r {
                    written[idx].extend_from_slice(&d[..n]);
                }
                ("write", r)
            }
            6 => ("close", cx_do(|cx| res_unit(Pin::new(&mut *s).poll_close(cx)))),
            7 => ("close_read", cx_do(|cx| res_unit(Pin::new(&mut *s).poll_close_read(cx)))),
            _ => ("flush", cx_do(|cx| res_unit(Pin::new(&mut *s).poll_flush(cx)))),
        };
        trace!("{}.{kind} -> {got:?}", me.name);
        if sample.len() < 40 {
            sample.push(format!("{}.{kind}->{got:?}", me.name));
        }
        if kind != "flush" {
            if reset_seen[idx] {
                ensure!(matches!(got, Res::Err(io::ErrorKind::ConnectionReset)), "C56/op-after-reset", "{}: {kind} returned {got:?} after an earlier operation had already failed with ConnectionReset", me.name);
            }
            if matches!(got, Res::Err(io::ErrorKind::ConnectionReset)) {
                reset_seen[idx] = true;
                mark_nontrivial();
            }
        }
        let _ = &mut injected_data;
    }
    // data integrity: what each side read is a prefix of what the other side's writes were accepted
    ensure!(written[1].starts_with(&read[0]), "C56/data-not-prefix", "A read bytes that are not a prefix of what B wrote (read {} written {})", read[0].len(), written[1].len());
    ensure!(written[0].starts_with(&read[1]), "C56/data-not-prefix", "B read bytes that are not a prefix of what A wrote (read {} written {})", read[1].len(), written[0].len());
    set_sample(|| sample.join("; "));
    Ok(())
}
