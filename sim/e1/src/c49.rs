//! C49 — relayed circuits forward faithfully within their byte and time limits.
use futures::io::{AsyncReadExt, AsyncWriteExt};
use simkit::pipe::{self, PipeCfg};
use simkit::*;
use std::cell::RefCell;
use std::rc::Rc;
use std::time::Duration;

pub fn check() -> Check {
    Check {
        id: "C49",
        title: "Relayed circuits forward faithfully within their limits",
        level: Level::Exploration,
        rule: "the real relay CopyFuture (cfg(libp2p_verif) facade) between two simulated duplexes with drawn capacity/chunking/readiness; two outer endpoints write drawn amounts in drawn chunks with drawn stalls (virtual-clock Delays) and read concurrently. Limits drawn small: max_circuit_bytes in {0 (unlimited), 1..40000}, max_circuit_duration 1..60 s. The virtual clock is advanced past the deadline. Oracle: each endpoint receives a prefix of what the other wrote (everything, followed by EOF, when within the limits and closed before the deadline, and the future returns Ok); bytes forwarded in total <= max_circuit_bytes + one 8 KiB buffer per direction and the future ends with an error once the limit is exceeded; when the deadline passes with nothing left to forward the future ends with TimedOut. Non-trivial = a limit was reached, or both directions carried data concurrently; distinct = fingerprint of (limit classes, volume classes, stall pattern, chunking, outcome)",
        assumptions: &["time is the simulator's virtual clock (patched futures-timer)"],
        real: &["libp2p_relay copy_future::CopyFuture, forward_data"],
        stub: &["relayed substreams -> simkit::pipe", "wall clock -> virtual clock"],
        scenarios: vec![Scenario::new("circuit", 4000, 400_000, circuit)],
    }
}

#[derive(Default, Debug)]
struct EndLog {
    written: usize,
    write_err: Option<String>,
    closed: bool,
    read: Vec<u8>,
    eof: bool,
    read_err: Option<String>,
    /// stalls that were really executed (ms)
    stalled: Vec<u64>,
}

fn byte_at(tag: u8, i: usize) -> u8 {
    (tag as usize * 41 + i * 3 + (i >> 9)) as u8
}

fn spawn_end(name: &'static str, io: pipe::End, tag: u8, total: usize, stalls: Vec<(usize, u64)>, log: Rc<RefCell<EndLog>>) -> UnitId {
    spawn(name, async move {
        let (mut r, mut w) = io.split();
        let l2 = log.clone();
        let wr = async move {
            let mut off = 0;
            let mut stalls = stalls.into_iter();
            let mut next_stall = stalls.next();
            while off < total {
                if let Some((at, ms)) = next_stall {
                    if off >= at {
                        l2.borrow_mut().stalled.push(ms);
                        futures_timer::Delay::new(Duration::from_millis(ms)).await;
                        next_stall = stalls.next();
                        continue;
                    }
                }
                let mut n = (1 + choose(3000)).min(total - off);
                if let Some((at, _)) = next_stall {
                    n = n.min(at - off); // stop exactly at the stall point
                }
                let chunk: Vec<u8> = (off..off + n).map(|i| byte_at(tag, i)).collect();
                match w.write(&chunk).await {
                    Ok(0) => {
                        l2.borrow_mut().write_err = Some("WriteZero".into());
                        return;
                    }
                    Ok(k) => {
                        off += k;
                        l2.borrow_mut().written = off;
                    }
                    Err(e) => {
                        l2.borrow_mut().write_err = Some(format!("{:?}", e.kind()));
                        return;
                    }
                }
            }
            if w.close().await.is_ok() {
                l2.borrow_mut().closed = true;
            }
        };
        let l3 = log.clone();
        let rd = async move {
            let mut buf = vec![0u8; [1usize, 100, 9000][choose(3)]];
            loop {
                match r.read(&mut buf).await {
                    Ok(0) => {
                        l3.borrow_mut().eof = true;
                        break;
                    }
                    Ok(n) => l3.borrow_mut().read.extend_from_slice(&buf[..n]),
                    Err(e) => {
                        l3.borrow_mut().read_err = Some(format!("{:?}", e.kind()));
                        break;
                    }
                }
            }
        };
        futures::join!(wr, rd);
    })
}

fn circuit() -> SimResult {
    draw_policy();
    let max_bytes: u64 = [0u64, 0, 1, 100, 5000, 20_000, 40_000][choose(7)];
    let max_secs = [1u64, 5, 60][choose(3)];
    let vol = |_: ()| [0usize, 1, 50, 3000, 9000, 30_000, 60_000][choose(7)];
    let (va, vb) = (vol(()), vol(()));
    let stall = |v: usize| -> Vec<(usize, u64)> {
        if choose(3) == 0 && v > 0 {
            vec![(choose(v), [10u64, 900, 1100, 6000, 70_000][choose(5)])]
        } else {
            vec![]
        }
    };
    let (sta, stb) = (stall(va), stall(vb));
    note_val("max_bytes", max_bytes.min(3) + (max_bytes > 5000) as u64);
    note_val("secs", max_secs);
    note_val("va", (va > 0) as u64 + (va > 8192) as u64 + (va > 30_000) as u64);
    note_val("vb", (vb > 0) as u64 + (vb > 8192) as u64 + (vb > 30_000) as u64);
    note_val("stall", sta.len() as u64 + 2 * stb.len() as u64);
    // endpoint A <-> (a_relay | copy | b_relay) <-> endpoint B
    // the relay's two legs may have buffered-writer semantics (they are muxer substreams in production): what the copy
    // writes to a leg reaches the endpoint only when the copy flushes that leg
    let staged = choose(3) == 0;
    let (ea, a_relay) = pipe::pair_cfg(PipeCfg::draw_min_cap(256), PipeCfg::draw_min_cap(256).with_staged(staged));
    let (eb, b_relay) = pipe::pair_cfg(PipeCfg::draw_min_cap(256), PipeCfg::draw_min_cap(256).with_staged(staged));
    let (ca, cb) = (a_relay.ctl(), b_relay.ctl());
    let (la, lb): (Rc<RefCell<EndLog>>, Rc<RefCell<EndLog>>) = Default::default();
    let result: Rc<RefCell<Option<Result<(), String>>>> = Default::default();
    let r2 = result.clone();
    let cu = spawn("copy", async move {
        let r = libp2p_relay::verif::copy_future(a_relay, b_relay, Duration::from_secs(max_secs), max_bytes).await;
        *r2.borrow_mut() = Some(r.map_err(|e| format!("{:?}", e.kind())));
    });
    let ua = spawn_end("A", ea, 1, va, sta.clone(), la.clone());
    let ub = spawn_end("B", eb, 2, vb, stb.clone(), lb.clone());
    // run, letting virtual time pass well beyond every stall and the deadline
    settle(Duration::from_secs(200));
    let forwarded = ca.tx_written() + cb.tx_written(); // bytes the relay wrote towards A and towards B
    let res = result.borrow().clone();
    let (la, lb) = (la.borrow(), lb.borrow());
    let exp_a: Vec<u8> = (0..la.written).map(|i| byte_at(1, i)).collect();
    let exp_b: Vec<u8> = (0..lb.written).map(|i| byte_at(2, i)).collect();
    trace!("max_bytes={max_bytes} max_secs={max_secs} va={va} vb={vb} stalls {sta:?} {stb:?}: forwarded={forwarded} result={res:?} A read {} eof={} B read {} eof={}", la.read.len(), la.eof, lb.read.len(), lb.eof);
    ensure!(exp_a.starts_with(&lb.read), "C49/not-a-prefix", "B received bytes that are not a prefix of what A wrote (first diff {:?})", crate::c14::first_diff(&lb.read, &exp_a));
    ensure!(exp_b.starts_with(&la.read), "C49/not-a-prefix", "A received bytes that are not a prefix of what B wrote (first diff {:?})", crate::c14::first_diff(&la.read, &exp_b));
    ensure!(is_done(cu), "C49/copy-never-ends", "the copy future is still pending 200 virtual seconds later (max duration {max_secs}s): result {res:?}");
    let res = res.unwrap();
    if max_bytes > 0 {
        ensure!(forwarded <= max_bytes + 2 * 8192, "C49/byte-limit-overshoot", "forwarded {forwarded} bytes with max_circuit_bytes={max_bytes} (allowance: one 8 KiB buffer per direction)");
        if (va + vb) as u64 > max_bytes + 2 * 8192 {
            ensure!(res.is_err(), "C49/limit-exceeded-but-ok", "{} bytes were offered with max_circuit_bytes={max_bytes} but the circuit ended Ok", va + vb);
            probe("byte_limit_reached");
            mark_nontrivial();
        }
    }
    // the whole exchange fits the limits and needs no more time than the deadline => complete and Ok
    let total_stall_ms: u64 = la.stalled.iter().chain(lb.stalled.iter()).sum();
    let within_bytes = max_bytes == 0 || (va + vb) as u64 <= max_bytes;
    let within_time = total_stall_ms == 0;
    if within_bytes && within_time {
        ensure!(res == Ok(()), "C49/spurious-failure", "everything within limits (bytes {}+{} <= {max_bytes}, no stalls) but the circuit ended with {res:?}", va, vb);
        ensure!(lb.read == exp_a && la.read == exp_b && la.eof && lb.eof, "C49/data-lost", "within limits but A read {}/{} (eof {}), B read {}/{} (eof {})", la.read.len(), vb, la.eof, lb.read.len(), va, lb.eof);
        ensure!(is_done(ua) && is_done(ub), "C49/endpoints-stuck", "endpoints did not finish");
    }
    // a stall that alone outlasts the deadline: nothing to forward when the deadline passes => TimedOut
    let long_stall = la.stalled.iter().chain(lb.stalled.iter()).any(|ms| *ms > max_secs * 1000 + 500);
    if long_stall && within_bytes {
        ensure!(res == Err("TimedOut".to_string()), "C49/no-timeout", "a writer stalled beyond max_circuit_duration={max_secs}s with nothing to forward, yet the circuit ended with {res:?}");
        probe("time_limit_reached");
        mark_nontrivial();
    }
    if va > 0 && vb > 0 {
        mark_nontrivial();
    }
    set_sample(|| format!("max_bytes={max_bytes} max_secs={max_secs} A writes {va} (stalls {sta:?}) B writes {vb} (stalls {stb:?}) -> forwarded {forwarded}, result {res:?}"));
    Ok(())
}
