//! C24 — multiplexed substreams (mplex, yamux) deliver exactly their own bytes.
use futures::future::{self, Either};
use futures::io::{AsyncReadExt, AsyncWriteExt};
use futures::{AsyncRead, AsyncWrite};
use libp2p_core::muxing::{StreamMuxer, StreamMuxerExt};
use libp2p_core::upgrade::{InboundConnectionUpgrade, OutboundConnectionUpgrade};
use simkit::pipe::{self, PipeCfg};
use simkit::*;
use std::cell::RefCell;
use std::collections::BTreeMap;
use std::rc::Rc;
use std::task::Poll;

pub fn check() -> Check {
    Check {
        id: "C24",
        title: "Multiplexed substreams deliver exactly their own bytes",
        level: Level::Exploration,
        rule: "each run builds a real mplex or yamux pair over a drawn pipe (capacity, chunking, spurious Pending), draws 1..8 substreams opened from either end, each with its own writer/reader units on both ends (write sizes around split_send_size, flushes, half-close or drop, small read buffers); every byte encodes (stream tag, direction, offset). The scheduler interleaves 2 muxer drivers + up to 16 stream units. Heavy profile may reset the connection. The *-bulk scenarios use 1..3 substreams of which one moves 140..640 kB in one or both directions (beyond mplex's 128 KiB write high-water mark and yamux's 256 KiB receive window) over pipes of 1 KiB..1 MiB. Oracle per substream and direction: bytes read are a prefix of bytes written (equality after a clean close when no fault was injected), EOF only after the writer closed/dropped. Non-trivial = at least 2 substreams had data in flight concurrently or a fault fired; distinct = fingerprint over (muxer, config knobs, stream count, per-stream size class and close kind, fault kinds)",
        assumptions: &["pipe is a reliable ordered byte stream unless a reset is injected"],
        real: &["libp2p_mplex::Multiplex (codec, io)", "libp2p_yamux::Muxer + yamux 0.14", "StreamMuxer trait plumbing"],
        stub: &["socket -> simkit::pipe", "Swarm connection task -> harness muxer driver unit"],
        scenarios: vec![
            Scenario::new("mplex", 1500, 150_000, run_mplex),
            Scenario::new("yamux", 1500, 150_000, run_yamux),
            Scenario::new("mplex-bulk", 120, 6_000, run_mplex_bulk),
            Scenario::new("yamux-bulk", 120, 6_000, run_yamux_bulk),
        ],
    }
}

#[derive(Default, Debug, Clone)]
pub struct Rec {
    written: Vec<u8>,
    write_closed: bool,
    write_dropped: bool,
    write_err: Option<String>,
    read: Vec<u8>,
    eof: bool,
    read_err: Option<String>,
    reader_aborted: bool,
}

#[derive(Clone, Copy, Debug, PartialEq)]
enum CloseKind {
    Close,
    Drop,
}

#[derive(Clone, Debug)]
struct Plan {
    tag: u32,
    len0: usize,
    len1: usize,
    close0: CloseKind,
    close1: CloseKind,
}

pub type Recs = Rc<RefCell<BTreeMap<(u32, u8), Rec>>>;

struct Shared {
    recs: Recs,
    finished: RefCell<usize>,
    total_units: usize,
    conn_err: RefCell<Vec<String>>,
    max_write: usize,
    concurrent_peak: RefCell<usize>,
    active: RefCell<usize>,
    /// (tag, end) with end 0 = opener's end, 1 = acceptor's end
    ends_done: RefCell<std::collections::BTreeSet<(u32, u8)>>,
}

fn content(tag: u32, dir: u8, i: usize) -> u8 {
    (tag.wrapping_mul(131) as usize + dir as usize * 17 + i * 7 + (i >> 8) * 13) as u8
}

fn header(p: &Plan) -> Vec<u8> {
    let mut h = p.tag.to_le_bytes().to_vec();
    h.extend_from_slice(&(p.len1 as u32).to_le_bytes());
    h.push(match p.close1 {
        CloseKind::Close => 0,
        CloseKind::Drop => 1,
    });
    h
}

async fn write_side<W: AsyncWrite + Unpin>(mut w: W, data: Vec<u8>, key: (u32, u8), kind: CloseKind, sh: Rc<Shared>) -> W {
    let mut off = 0;
    while off < data.len() {
        let n = (1 + choose(sh.max_write)).min(data.len() - off);
        // one write in four is vectored (2..3 slices over the same bytes): a muxer may take any prefix of them, once
        let res = if n >= 2 && choose(4) == 0 {
            let a = 1 + choose(n - 1);
            let b = a + choose(n - a + 1);
            let chunk = &data[off..off + n];
            let slices = [std::io::IoSlice::new(&chunk[..a]), std::io::IoSlice::new(&chunk[a..b]), std::io::IoSlice::new(&chunk[b..])];
            probe("vectored_write");
            w.write_vectored(&slices).await
        } else {
            w.write(&data[off..off + n]).await
        };
        match res {
            Ok(0) => {
                sh.recs.borrow_mut().entry(key).or_default().write_err = Some("WriteZero".into());
                return w;
            }
            Ok(k) => {
                sh.recs.borrow_mut().entry(key).or_default().written.extend_from_slice(&data[off..off + k]);
                off += k;
            }
            Err(e) => {
                sh.recs.borrow_mut().entry(key).or_default().write_err = Some(format!("{:?}", e.kind()));
                return w;
            }
        }
        if choose(4) == 0 {
            if let Err(e) = w.flush().await {
                sh.recs.borrow_mut().entry(key).or_default().write_err = Some(format!("flush {:?}", e.kind()));
                return w;
            }
        }
    }
    match kind {
        CloseKind::Close => match w.close().await {
            Ok(()) => sh.recs.borrow_mut().entry(key).or_default().write_closed = true,
            Err(e) => sh.recs.borrow_mut().entry(key).or_default().write_err = Some(format!("close {:?}", e.kind())),
        },
        CloseKind::Drop => {
            let _ = w.flush().await;
            sh.recs.borrow_mut().entry(key).or_default().write_dropped = true;
        }
    }
    w
}

async fn read_side<R: AsyncRead + Unpin>(mut r: R, key: (u32, u8), sh: Rc<Shared>) -> R {
    let cap = if bulk() { [64usize, 4096, 1 << 16][choose(3)] } else { [1usize, 3, 16, 64, 4096][choose(5)] };
    let mut buf = vec![0u8; cap];
    loop {
        match r.read(&mut buf).await {
            Ok(0) => {
                sh.recs.borrow_mut().entry(key).or_default().eof = true;
                break;
            }
            Ok(n) => sh.recs.borrow_mut().entry(key).or_default().read.extend_from_slice(&buf[..n]),
            Err(e) => {
                sh.recs.borrow_mut().entry(key).or_default().read_err = Some(format!("{:?}", e.kind()));
                break;
            }
        }
    }
    r
}

/// Both halves of one end of one substream.
async fn run_stream<S: AsyncRead + AsyncWrite + Unpin>(s: S, wkey: (u32, u8), rkey: (u32, u8), data: Vec<u8>, kind: CloseKind, sh: Rc<Shared>) {
    {
        let mut a = sh.active.borrow_mut();
        *a += 1;
        let mut p = sh.concurrent_peak.borrow_mut();
        *p = (*p).max(*a);
    }
    let (r, w) = s.split();
    let wr = Box::pin(write_side(w, data, wkey, kind, sh.clone()));
    let rd = Box::pin(read_side(r, rkey, sh.clone()));
    match future::select(wr, rd).await {
        Either::Left((w, rd)) => {
            if kind == CloseKind::Drop {
                // abandon the stream right after writing: reader is aborted, stream dropped (reset)
                sh.recs.borrow_mut().entry(rkey).or_default().reader_aborted = true;
                drop(rd);
                drop(w);
            } else {
                let r = rd.await;
                drop((r, w));
            }
        }
        Either::Right((r, wr)) => {
            let w = wr.await;
            drop((r, w));
        }
    }
    *sh.active.borrow_mut() -= 1;
    *sh.finished.borrow_mut() += 1;
    // the end that writes direction d is end d
    sh.ends_done.borrow_mut().insert((wkey.0, wkey.1));
}

async fn acceptor<S: AsyncRead + AsyncWrite + Unpin>(mut s: S, sh: Rc<Shared>) {
    // read the 9 byte header to learn which stream this is
    let mut h = [0u8; 9];
    let mut got = 0;
    while got < 9 {
        match s.read(&mut h[got..]).await {
            Ok(0) | Err(_) => {
                // opener vanished before sending the header; cannot attribute: count as finished
                sh.conn_err.borrow_mut().push("acceptor: header not received".into());
                *sh.finished.borrow_mut() += 1;
                return;
            }
            Ok(n) => got += n,
        }
    }
    let tag = u32::from_le_bytes(h[..4].try_into().unwrap());
    let len1 = u32::from_le_bytes(h[4..8].try_into().unwrap()) as usize;
    let kind = if h[8] == 0 { CloseKind::Close } else { CloseKind::Drop };
    sh.recs.borrow_mut().entry((tag, 0)).or_default().read.extend_from_slice(&h);
    let data: Vec<u8> = (0..len1).map(|i| content(tag, 1, i)).collect();
    run_stream(s, (tag, 1), (tag, 0), data, kind, sh).await;
}

async fn opener<S: AsyncRead + AsyncWrite + Unpin>(s: S, p: Plan, sh: Rc<Shared>) {
    let mut data = header(&p);
    data.extend((0..p.len0).map(|i| content(p.tag, 0, i)));
    run_stream(s, (p.tag, 0), (p.tag, 1), data, p.close0, sh).await;
}

/// The harness's stand-in for the Swarm connection task: polls the muxer, accepts and opens.
fn spawn_driver<M>(name: &'static str, mut m: M, mut to_open: Vec<Plan>, sh: Rc<Shared>) -> UnitId
where
    M: StreamMuxer + Unpin + 'static,
    M::Substream: Unpin + 'static,
{
    spawn(name, async move {
        let sh2 = sh.clone();
        future::poll_fn(move |cx| {
            loop {
                if *sh2.finished.borrow() >= sh2.total_units {
                    return Poll::Ready(());
                }
                let mut progress = false;
                match m.poll_unpin(cx) {
                    Poll::Ready(Ok(_)) => {
                        trace!("{name}: muxer event");
                        progress = true
                    }
                    Poll::Ready(Err(e)) => {
                        sh2.conn_err.borrow_mut().push(format!("{name} poll: {e}"));
                        return Poll::Ready(());
                    }
                    Poll::Pending => {}
                }
                match m.poll_inbound_unpin(cx) {
                    Poll::Ready(Ok(s)) => {
                        trace!("{name}: inbound substream");
                        spawn(format!("{name}-acceptor"), acceptor(s, sh2.clone()));
                        progress = true;
                    }
                    Poll::Ready(Err(e)) => {
                        sh2.conn_err.borrow_mut().push(format!("{name} inbound: {e}"));
                        return Poll::Ready(());
                    }
                    Poll::Pending => {}
                }
                if !to_open.is_empty() {
                    match m.poll_outbound_unpin(cx) {
                        Poll::Ready(Ok(s)) => {
                            let p = to_open.remove(0);
                            trace!("{name}: opened outbound substream for tag {}", p.tag);
                            spawn(format!("{name}-opener-{}", p.tag), opener(s, p, sh2.clone()));
                            progress = true;
                        }
                        Poll::Ready(Err(e)) => {
                            sh2.conn_err.borrow_mut().push(format!("{name} outbound: {e}"));
                            return Poll::Ready(());
                        }
                        Poll::Pending => {}
                    }
                }
                if !progress {
                    trace!("{name}: driver pending");
                    return Poll::Pending;
                }
            }
        })
        .await;
    })
}

thread_local! {
    /// bulk mode: few substreams, one of them moving more than the muxers' internal windows / high-water marks
    static BULK: std::cell::Cell<bool> = const { std::cell::Cell::new(false) };
}

fn bulk() -> bool {
    BULK.with(|b| b.get())
}

fn bulk_pipe() -> PipeCfg {
    let ch = |v| if v == 0 { pipe::Chunking::Random } else { pipe::Chunking::Full };
    PipeCfg { capacity: [1024, 1 << 16, 1 << 20][choose(3)], read_chunking: ch(choose(3)), write_chunking: ch(choose(3)), pending_permille: [0, 0, 30][choose(3)], eintr_permille: 0, staged: false }
}

fn draw_plans() -> Vec<(u8, Plan)> {
    if bulk() {
        let n = 1 + choose(3);
        let big = choose(n);
        return (0..n)
            .map(|i| {
                let len = |b: bool| if b { 140_000 + choose(500_000) } else { choose(20_000) };
                let both = choose(3) == 0;
                let first = choose(2) == 0;
                let ck = |_: ()| if choose(8) == 0 { CloseKind::Drop } else { CloseKind::Close };
                (choose(2) as u8, Plan { tag: 1000 + i as u32, len0: len(i == big && (both || first)), len1: len(i == big && (both || !first)), close0: ck(()), close1: ck(()) })
            })
            .collect();
    }
    let n = 1 + choose(8);
    (0..n)
        .map(|i| {
            let len = |_: ()| match choose(5) {
                0 => 0,
                1 => small(1, 20),
                2 => 90 + choose(30),
                3 => choose(3000),
                _ => choose(20_000),
            };
            let ck = |_: ()| if choose(5) == 0 { CloseKind::Drop } else { CloseKind::Close };
            (choose(2) as u8, Plan { tag: 1000 + i as u32, len0: len(()), len1: len(()), close0: ck(()), close1: ck(()) })
        })
        .collect()
}

fn size_class(n: usize) -> u64 {
    match n {
        0 => 0,
        1..=99 => 1,
        100..=2999 => 2,
        3000..=99_999 => 3,
        _ => 4,
    }
}

fn run_generic<MA, MB>(name: &'static str, a: MA, b: MB, ctl: pipe::Ctl, max_write: usize) -> SimResult
where
    MA: StreamMuxer + Unpin + 'static,
    MA::Substream: Unpin + 'static,
    MB: StreamMuxer + Unpin + 'static,
    MB::Substream: Unpin + 'static,
{
    let plans = draw_plans();
    note(name);
    note_val("streams", plans.len() as u64);
    for (side, p) in &plans {
        note_val("plan", *side as u64 + 2 * size_class(p.len0) + 16 * size_class(p.len1) + 128 * (p.close0 == CloseKind::Drop) as u64 + 256 * (p.close1 == CloseKind::Drop) as u64);
    }
    let sh = Rc::new(Shared {
        recs: Default::default(),
        finished: RefCell::new(0),
        total_units: plans.len() * 2,
        conn_err: Default::default(),
        max_write: if bulk() { 1 << 16 } else { max_write },
        concurrent_peak: RefCell::new(0),
        active: RefCell::new(0),
        ends_done: Default::default(),
    });
    let pa: Vec<Plan> = plans.iter().filter(|(s, _)| *s == 0).map(|(_, p)| p.clone()).collect();
    let pb: Vec<Plan> = plans.iter().filter(|(s, _)| *s == 1).map(|(_, p)| p.clone()).collect();
    let da = spawn_driver("A", a, pa, sh.clone());
    let db = spawn_driver("B", b, pb, sh.clone());
    let reset_at = if profile() == Profile::Heavy && choose(4) == 0 { Some(1 + choose(400)) } else { None };
    let mut n = 0;
    let mut reset = false;
    while step() {
        n += 1;
        if Some(n) == reset_at {
            ctl.reset();
            fired("conn_reset");
            reset = true;
        }
        // the drivers finish when all stream units are done; wake them to notice
        if *sh.finished.borrow() >= sh.total_units && (!is_done(da) || !is_done(db)) {
            spurious_wake(da);
            spurious_wake(db);
        }
    }
    trace!("pipe A->B written={} consumed={} buffered={}; B->A written={} consumed={} buffered={}", ctl.tx_written(), ctl.tx_consumed(), ctl.tx_buffered(), ctl.rx_written(), ctl.rx_consumed(), ctl.rx_buffered());
    let faulty = reset || !sh.conn_err.borrow().is_empty();
    let recs = sh.recs.borrow();
    if *sh.concurrent_peak.borrow() >= 4 {
        mark_nontrivial();
        probe("concurrent_streams_ge_2");
    }
    set_sample(|| format!("{name}: {} substreams {:?}, peak concurrent stream-ends {}, reset={reset}, conn_err={:?}", plans.len(), plans.iter().map(|(s, p)| (*s, p.len0, p.len1, p.close0, p.close1)).collect::<Vec<_>>(), sh.concurrent_peak.borrow(), sh.conn_err.borrow()));
    if recs.values().any(|r| r.read.len() > 262_144) {
        probe("stream_delivered_over_256k");
        mark_nontrivial();
    }
    for ((tag, dir), r) in recs.iter() {
        trace!("stream {tag}/{dir}: written={} closed={} dropped={} werr={:?} read={} eof={} rerr={:?} aborted={}", r.written.len(), r.write_closed, r.write_dropped, r.write_err, r.read.len(), r.eof, r.read_err, r.reader_aborted);
        ensure!(r.written.starts_with(&r.read), "C24/not-a-prefix", "{name} stream {tag} dir {dir}: bytes read are not a prefix of bytes written (read {} written {}, first diff at {:?}); foreign tag = cross-talk", r.read.len(), r.written.len(), crate::c14::first_diff(&r.read, &r.written));
        if r.eof && !faulty {
            ensure!(r.write_closed || r.write_dropped || r.write_err.is_some(), "C24/eof-before-close", "{name} stream {tag} dir {dir}: reader saw EOF but the writer neither closed nor dropped (written {}, read {})", r.written.len(), r.read.len());
        }
        if r.eof && r.write_closed && !faulty {
            ensure!(r.read == r.written, "C24/eof-truncated", "{name} stream {tag} dir {dir}: EOF after clean close but only {} of {} bytes delivered", r.read.len(), r.written.len());
        }
    }
    if !faulty {
        ensure!(sh.conn_err.borrow().is_empty(), "C24/conn-error", "{name}: connection error without injected fault: {:?}", sh.conn_err.borrow());
        // Every stream end must finish, except an end whose peer *dropped* the stream instead of
        // closing it: the property promises end-of-stream after a close, not after a drop (mplex
        // sends the resulting Reset/Close "at the next opportunity", which on an idle connection
        // may never come).
        for (_, p) in &plans {
            for end in 0..2u8 {
                if sh.ends_done.borrow().contains(&(p.tag, end)) {
                    continue;
                }
                let peer_dropped = recs.get(&(p.tag, 1 - end)).map(|x| x.write_dropped).unwrap_or(false);
                let never_started = end == 1 && !recs.contains_key(&(p.tag, 1)) && recs.get(&(p.tag, 0)).map(|x| x.write_dropped).unwrap_or(false);
                ensure!(peer_dropped || never_started, "C24/stalled", "{name}: end {end} of stream {} did not finish although its peer closed cleanly and no fault was injected; recs: {:?}", p.tag, recs.iter().map(|(k, r)| (k, r.written.len(), r.read.len(), r.eof, r.write_closed, r.write_dropped, r.reader_aborted)).collect::<Vec<_>>());
                probe("end_excused_peer_dropped");
            }
        }
        for (side, p) in &plans {
            let _ = side;
            for dir in 0..2u8 {
                let r = recs.get(&(p.tag, dir)).cloned().unwrap_or_default();
                let peer_dropped = recs.get(&(p.tag, 1 - dir)).map(|x| x.write_dropped).unwrap_or(false);
                if r.write_closed && !r.reader_aborted && !peer_dropped {
                    ensure!(r.eof && r.read == r.written, "C24/lost-after-close", "{name} stream {} dir {dir}: clean close, reader not aborted, but read {} of {} (eof={})", p.tag, r.read.len(), r.written.len(), r.eof);
                }
                if r.read_err.is_some() {
                    // a read error is only legitimate if the writer dropped (reset) the stream
                    let w_dropped = r.write_dropped || recs.get(&(p.tag, dir)).map(|x| x.write_err.is_some()).unwrap_or(false);
                    ensure!(w_dropped || peer_dropped, "C24/read-error", "{name} stream {} dir {dir}: read error {:?} without reset", p.tag, r.read_err);
                }
            }
        }
    }
    Ok(())
}

fn run_mplex_bulk() -> SimResult {
    BULK.with(|b| b.set(true));
    simkit::set_max_steps(3_000_000);
    let r = run_mplex();
    BULK.with(|b| b.set(false));
    r
}

fn run_yamux_bulk() -> SimResult {
    BULK.with(|b| b.set(true));
    simkit::set_max_steps(3_000_000);
    let r = run_yamux();
    BULK.with(|b| b.set(false));
    r
}

fn run_mplex() -> SimResult {
    draw_policy();
    let mut cfg = libp2p_mplex::Config::new();
    let split = if bulk() { [1000usize, 8192, 1 << 20][choose(3)] } else { [1usize, 16, 100, 1000, 8192][choose(5)] };
    let maxbuf = [1usize, 2, 4, 32][choose(4)];
    cfg.set_split_send_size(split).set_max_buffer_size(maxbuf).set_max_buffer_behaviour(libp2p_mplex::MaxBufferBehaviour::Block);
    note_val("split", split as u64);
    note_val("maxbuf", maxbuf as u64);
    let (a, b) = if bulk() { pipe::pair_cfg(bulk_pipe(), bulk_pipe()) } else { {
        let staged = choose(3) == 0; // connection with buffered-writer semantics: bytes move only on flush
        pipe::pair_cfg(PipeCfg::draw().with_staged(staged), PipeCfg::draw().with_staged(staged))
    } };
    let ctl = a.ctl();
    let ma = futures::executor::block_on(cfg.clone().upgrade_outbound(a, "/mplex/6.7.0")).unwrap();
    let mb = futures::executor::block_on(cfg.upgrade_inbound(b, "/mplex/6.7.0")).unwrap();
    run_generic("mplex", ma, mb, ctl, (split * 2 + 3).min(9000))
}

fn run_yamux() -> SimResult {
    draw_policy();
    let cfg = libp2p_yamux::Config::default();
    // Socket-level back-pressure is not explored for yamux: the external yamux 0.14 crate stops
    // reading while it holds an unsent Pong, so two endpoints whose send buffers are full at the
    // same time (capacity 1 makes that certain) block each other forever. That is behaviour of
    // the dependency, not of /repo; chunking and readiness are still drawn.
    let big = |mut c: PipeCfg| {
        c.capacity = 4 << 20;
        c
    };
    let (a, b) = if bulk() { pipe::pair_cfg(big(bulk_pipe()), big(bulk_pipe())) } else {
        let staged = choose(3) == 0;
        pipe::pair_cfg(big(PipeCfg::draw()).with_staged(staged), big(PipeCfg::draw()).with_staged(staged))
    };
    let ctl = a.ctl();
    let ma = futures::executor::block_on(cfg.clone().upgrade_outbound(a, "/yamux/1.0.0")).unwrap();
    let mb = futures::executor::block_on(cfg.upgrade_inbound(b, "/yamux/1.0.0")).unwrap();
    run_generic("yamux", ma, mb, ctl, 9000)
}
