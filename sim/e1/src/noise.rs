//! C16 — noise handshake authenticates exactly the remote identity.
//! C17 — noise transport delivers exactly the written bytes or fails.
use futures::io::{AsyncReadExt, AsyncWriteExt};
use libp2p_core::upgrade::{InboundConnectionUpgrade, OutboundConnectionUpgrade};
use libp2p_identity::{Keypair, PeerId};
use libp2p_noise::{Config, Output};
use simkit::pipe::{self, End, PipeCfg, Raw};
use simkit::*;
use std::cell::RefCell;
use std::rc::Rc;

const MAX_FRAME_LEN: usize = 65535 - 1024;

pub fn keypair(kind: usize) -> Keypair {
    match kind % 4 {
        0 => Keypair::generate_ed25519(),
        1 => Keypair::generate_secp256k1(),
        2 => Keypair::generate_ecdsa(),
        _ => {
            let mut der = include_bytes!("/repo/identity/src/test/rsa-2048.pk8").to_vec();
            Keypair::rsa_from_pkcs8(&mut der).unwrap()
        }
    }
}

const KINDS: &[&str] = &["ed25519", "secp256k1", "ecdsa", "rsa"];

#[derive(Default)]
pub struct SideOut {
    pub result: Option<Result<PeerId, String>>,
    pub read: Vec<u8>,
    pub read_err: Option<String>,
    pub eof: bool,
    pub write_err: Option<String>,
}
type SideRef = Rc<RefCell<SideOut>>;

async fn after_handshake(io: Output<End>, side: SideRef, writes: Vec<(usize, bool)>, tag: u8) {
    let (mut r, mut w) = io.split();
    let s2 = side.clone();
    let wr = async move {
        let mut off = 0usize;
        for (n, flush) in writes {
            let data: Vec<u8> = (0..n).map(|i| content(tag, off + i)).collect();
            if let Err(e) = w.write_all(&data).await {
                s2.borrow_mut().write_err = Some(format!("{:?}", e.kind()));
                return;
            }
            off += n;
            if flush {
                if let Err(e) = w.flush().await {
                    s2.borrow_mut().write_err = Some(format!("flush {:?}", e.kind()));
                    return;
                }
            }
        }
        if let Err(e) = w.close().await {
            s2.borrow_mut().write_err = Some(format!("close {:?}", e.kind()));
        }
    };
    let s3 = side.clone();
    let rd = async move {
        let cap = [1usize, 7, 100, 4096, 70000][choose(5)];
        let mut buf = vec![0u8; cap];
        loop {
            match r.read(&mut buf).await {
                Ok(0) => {
                    s3.borrow_mut().eof = true;
                    break;
                }
                Ok(n) => s3.borrow_mut().read.extend_from_slice(&buf[..n]),
                Err(e) => {
                    s3.borrow_mut().read_err = Some(format!("{:?}: {e}", e.kind()));
                    break;
                }
            }
        }
    };
    futures::join!(wr, rd);
}

pub fn content(tag: u8, i: usize) -> u8 {
    (tag as usize * 37 + i * 11 + (i >> 8) * 5 + (i >> 16)) as u8
}

fn expected(tag: u8, writes: &[(usize, bool)]) -> Vec<u8> {
    let total: usize = writes.iter().map(|w| w.0).sum();
    (0..total).map(|i| content(tag, i)).collect()
}

pub fn spawn_initiator(io: End, cfg: Config, side: SideRef, writes: Vec<(usize, bool)>) -> UnitId {
    spawn("initiator", async move {
        match cfg.upgrade_outbound(io, "/noise").await {
            Ok((peer, out)) => {
                side.borrow_mut().result = Some(Ok(peer));
                after_handshake(out, side, writes, 0xA).await;
            }
            Err(e) => side.borrow_mut().result = Some(Err(format!("{e:?}"))),
        }
    })
}

pub fn spawn_responder(io: End, cfg: Config, side: SideRef, writes: Vec<(usize, bool)>) -> UnitId {
    spawn("responder", async move {
        match cfg.upgrade_inbound(io, "/noise").await {
            Ok((peer, out)) => {
                side.borrow_mut().result = Some(Ok(peer));
                after_handshake(out, side, writes, 0xB).await;
            }
            Err(e) => side.borrow_mut().result = Some(Err(format!("{e:?}"))),
        }
    })
}

/// Man in the middle between two real ends: forwards bytes, applying `f(dir, stream offset, bytes)`.
pub struct Mitm {
    pub a: Raw,
    pub b: Raw,
    pub off: [usize; 2],
    /// everything seen per direction (0 = a->b, 1 = b->a), before mutation
    pub seen: [Vec<u8>; 2],
}

impl Mitm {
    pub fn new(a: Raw, b: Raw) -> Self {
        Mitm { a, b, off: [0, 0], seen: [vec![], vec![]] }
    }
    /// Move pending bytes both ways; returns whether anything moved.
    pub fn shuttle(&mut self, f: &mut dyn FnMut(usize, usize, Vec<u8>) -> Vec<u8>) -> bool {
        let mut moved = false;
        let x = self.a.recv_all();
        if !x.is_empty() {
            moved = true;
            self.seen[0].extend_from_slice(&x);
            let n = x.len();
            let y = f(0, self.off[0], x);
            self.off[0] += n;
            self.b.send(&y);
        }
        let x = self.b.recv_all();
        if !x.is_empty() {
            moved = true;
            self.seen[1].extend_from_slice(&x);
            let n = x.len();
            let y = f(1, self.off[1], x);
            self.off[1] += n;
            self.a.send(&y);
        }
        // propagate half-closes
        if self.a.peer_closed() && self.a.available() == 0 {
            self.b.close_write();
        }
        if self.b.peer_closed() && self.b.available() == 0 {
            self.a.close_write();
        }
        moved
    }
    pub fn run(&mut self, f: &mut dyn FnMut(usize, usize, Vec<u8>) -> Vec<u8>) {
        loop {
            run_until_idle();
            if !self.shuttle(f) {
                run_until_idle();
                if !self.shuttle(f) {
                    break;
                }
            }
        }
    }
}

fn draw_writes() -> Vec<(usize, bool)> {
    let n = choose(5);
    (0..n)
        .map(|_| {
            let sz = match choose(9) {
                0 => 0,
                1 => 1,
                2 => small(2, 200),
                3 => MAX_FRAME_LEN - 1,
                4 => MAX_FRAME_LEN,
                5 => MAX_FRAME_LEN + 1,
                6 => 2 * MAX_FRAME_LEN,
                7 => 2 * MAX_FRAME_LEN + 1 + choose(100),
                _ => choose(5000),
            };
            (sz, choose(3) == 0)
        })
        .collect()
}

pub fn check_c17() -> Check {
    Check {
        id: "C17",
        title: "Secure channels deliver exactly the written bytes or fail",
        level: Level::FaultEnumeration,
        rule: "transport: after an honest handshake both sides write drawn sequences (sizes 0, 1, MAX_FRAME_LEN-1/+0/+1, 2x, random; interleaved flushes) under drawn chunking/readiness and read with drawn buffer sizes; oracle: bytes read == bytes written. corruption: a man-in-the-middle flips one byte of the post-handshake ciphertext stream at *every* offset in turn (each offset = a fresh session inside the run; length prefix, body and tag positions all covered) or truncates it at every offset; oracle: the reader's output is a strict prefix of the plaintext ending before the corrupted frame, followed by an error / EOF, never altered or extra bytes. Non-trivial = a write crossed the frame limit, a short read split a frame, or a corruption was injected; distinct = fingerprint of (size classes, flush pattern, chunking, corruption kind and region, outcome)",
        assumptions: &["x25519/ChaChaPoly/SHA256 primitives are trusted (ring, x25519-dalek, snow)"],
        real: &["libp2p_noise::Config upgrade (XX handshake)", "noise io::Output", "io::framed codec", "snow 0.10"],
        stub: &["socket -> simkit::pipe", "on-path adversary = harness Mitm"],
        scenarios: vec![
            Scenario::new("transport", 250, 20_000, transport),
            Scenario::new("corrupt-every-offset", 12, 600, corrupt_every_offset),
            Scenario::new("truncate-every-offset", 8, 400, truncate_every_offset),
        ],
    }
}

fn transport() -> SimResult {
    draw_policy();
    let (ka, kb) = (keypair(0), keypair(0));
    let wa = draw_writes();
    let wb = draw_writes();
    for w in wa.iter().chain(wb.iter()) {
        note_val("w", size_class(w.0) * 2 + w.1 as u64);
        if w.0 > MAX_FRAME_LEN {
            mark_nontrivial();
        }
    }
    let total: usize = wa.iter().chain(wb.iter()).map(|w| w.0).sum();
    let tame = |mut c: PipeCfg| {
        if total > 5000 {
            // byte-by-byte delivery of hundreds of kilobytes only burns the step budget
            if c.read_chunking == pipe::Chunking::Byte {
                c.read_chunking = pipe::Chunking::Random;
            }
            if c.write_chunking == pipe::Chunking::Byte {
                c.write_chunking = pipe::Chunking::Random;
            }
            c.capacity = c.capacity.max(4096);
            c.pending_permille = c.pending_permille.min(30);
        }
        c
    };
    let staged = choose(3) == 0; // transport with buffered-writer semantics: bytes move only on flush
    let (a, b) = pipe::pair_cfg(tame(PipeCfg::draw_min_cap(1024)).with_staged(staged), tame(PipeCfg::draw_min_cap(1024)).with_staged(staged));
    let (sa, sb): (SideRef, SideRef) = Default::default();
    let ua = spawn_initiator(a, Config::new(&ka).unwrap(), sa.clone(), wa.clone());
    let ub = spawn_responder(b, Config::new(&kb).unwrap(), sb.clone(), wb.clone());
    run_until_idle();
    ensure!(is_done(ua) && is_done(ub), "C17/stuck", "session did not finish: initiator done={} responder done={} results {:?} {:?}", is_done(ua), is_done(ub), sa.borrow().result, sb.borrow().result);
    let (sa, sb) = (sa.borrow(), sb.borrow());
    ensure!(sa.result == Some(Ok(kb.public().to_peer_id())), "C16/honest-initiator", "honest handshake: initiator got {:?}", sa.result);
    ensure!(sb.result == Some(Ok(ka.public().to_peer_id())), "C16/honest-responder", "honest handshake: responder got {:?}", sb.result);
    ensure!(sa.write_err.is_none() && sb.write_err.is_none() && sa.read_err.is_none() && sb.read_err.is_none(), "C17/io-error", "io errors without fault: {:?} {:?} {:?} {:?}", sa.write_err, sb.write_err, sa.read_err, sb.read_err);
    let (ea, eb) = (expected(0xA, &wa), expected(0xB, &wb));
    ensure!(sb.read == ea, "C17/a-to-b", "responder read {} bytes, initiator wrote {} (first diff {:?}); writes {wa:?}", sb.read.len(), ea.len(), crate::c14::first_diff(&sb.read, &ea));
    ensure!(sa.read == eb, "C17/b-to-a", "initiator read {} bytes, responder wrote {} (first diff {:?}); writes {wb:?}", sa.read.len(), eb.len(), crate::c14::first_diff(&sa.read, &eb));
    ensure!(sa.eof && sb.eof, "C17/no-eof", "EOF not seen after close");
    set_sample(|| format!("transport: initiator writes {wa:?}, responder writes {wb:?}"));
    Ok(())
}

fn size_class(n: usize) -> u64 {
    match n {
        0 => 0,
        1 => 1,
        x if x < MAX_FRAME_LEN - 1 => 2,
        x if x <= MAX_FRAME_LEN + 1 => 3 + (x + 1 - MAX_FRAME_LEN) as u64,
        _ => 6,
    }
}

/// One session through a Mitm with a mutation function; returns (sides, handshake length a->b, mitm).
fn session_with_mitm(wa: &[(usize, bool)], f: &mut dyn FnMut(usize, usize, Vec<u8>) -> Vec<u8>) -> Result<(SideRef, SideRef, Mitm, bool), Violation> {
    let (ka, kb) = (keypair(0), keypair(0));
    let (a, ra) = pipe::pair_raw(PipeCfg::draw_min_cap(1 << 20));
    let (b, rb) = pipe::pair_raw(PipeCfg::draw_min_cap(1 << 20));
    let (sa, sb): (SideRef, SideRef) = Default::default();
    let ua = spawn_initiator(a, Config::new(&ka).unwrap(), sa.clone(), wa.to_vec());
    let ub = spawn_responder(b, Config::new(&kb).unwrap(), sb.clone(), vec![]);
    let mut m = Mitm::new(ra, rb);
    m.run(f);
    let done = is_done(ua) && is_done(ub);
    Ok((sa, sb, m, done))
}

/// Length in bytes of the three handshake messages as seen on the wire.
fn handshake_lens(seen: &[Vec<u8>; 2]) -> (usize, usize) {
    // a->b: msg1, msg3 ; b->a: msg2. Each is u16 BE length + body.
    let frame_len = |b: &[u8], at: usize| -> usize { 2 + u16::from_be_bytes([b[at], b[at + 1]]) as usize };
    let m1 = frame_len(&seen[0], 0);
    let m3 = frame_len(&seen[0], m1);
    let m2 = frame_len(&seen[1], 0);
    (m1 + m3, m2)
}

fn corrupt_every_offset() -> SimResult {
    // a few small frames after the handshake
    let wa: Vec<(usize, bool)> = (0..1 + choose(3)).map(|_| (1 + choose(24), true)).collect();
    let plain = expected(0xA, &wa);
    // reference session to learn the stream layout
    let (_, _, m0, done0) = session_with_mitm(&wa, &mut |_, _, x| x)?;
    ensure!(done0, "C17/stuck", "reference session did not finish");
    let (hs_a2b, _) = handshake_lens(&m0.seen);
    let total = m0.seen[0].len();
    ensure!(total > hs_a2b, "C17/harness", "no post-handshake bytes");
    // frame boundaries of the ciphertext stream (for the prefix oracle)
    let mut bounds = vec![];
    let mut at = hs_a2b;
    let mut plain_before = vec![];
    let mut acc = 0usize;
    let mut wi = 0;
    while at < total {
        let len = 2 + u16::from_be_bytes([m0.seen[0][at], m0.seen[0][at + 1]]) as usize;
        bounds.push((at, at + len));
        plain_before.push(acc);
        // each flushed write is one frame (sizes < MAX_FRAME_LEN)
        if wi < wa.len() {
            acc += wa[wi].0;
            wi += 1;
        }
        at += len;
    }
    note_val("frames", bounds.len() as u64);
    let mut flips = 0u64;
    for k in hs_a2b..total {
        let bit = 1u8 << choose(8);
        let (_, sb, _, _) = session_with_mitm(&wa, &mut |dir, off, mut x| {
            if dir == 0 && off <= k && k < off + x.len() {
                x[k - off] ^= bit;
            }
            x
        })?;
        flips += 1;
        let sb = sb.borrow();
        // which frame was hit
        let fi = bounds.iter().position(|(s, e)| *s <= k && k < *e).unwrap();
        let max_ok = plain_before[fi];
        ensure!(plain.starts_with(&sb.read), "C17/corrupt-altered-plaintext", "flip at ciphertext offset {k} (frame {fi}): reader produced bytes that are not a prefix of the plaintext");
        ensure!(sb.read.len() <= max_ok, "C17/corrupt-frame-accepted", "flip at ciphertext offset {k} (frame {fi}, bit {bit:#x}): reader delivered {} bytes but only {max_ok} precede the corrupted frame", sb.read.len());
        ensure!(sb.read_err.is_some() || (sb.eof && sb.read.len() <= max_ok) || !sb.eof, "C17/corrupt-no-error", "flip at {k}: no error");
        // a clean end-of-stream tells the application "that was all": it is only acceptable if
        // everything was delivered, never after a corruption cut the stream short
        ensure!(!(sb.eof && sb.read.len() < plain.len()), "C17/corrupt-clean-eof", "flip at ciphertext offset {k} (frame {fi}, byte {} of the frame, bit {bit:#x}): the reader reported a clean end-of-stream after {} of {} plaintext bytes instead of an error", k - bounds[fi].0, sb.read.len(), plain.len());
        if sb.read_err.is_some() {
            probe("corruption_detected_as_error");
        } else {
            // a corrupted length prefix can make the frame longer than the stream: EOF / stall
            probe("corruption_led_to_eof_or_stall");
            ensure!(k - bounds[fi].0 < 2, "C17/corrupt-body-no-error", "flip at {k} inside body/tag of frame {fi} produced no read error (read {} eof={})", sb.read.len(), sb.eof);
        }
    }
    fired("ciphertext_byte_flip");
    set_sample(|| format!("corrupt-every-offset: writes {wa:?}, ciphertext bytes {}..{} each flipped once ({flips} sessions)", hs_a2b, total));
    Ok(())
}

fn truncate_every_offset() -> SimResult {
    let wa: Vec<(usize, bool)> = (0..1 + choose(3)).map(|_| (1 + choose(24), true)).collect();
    let plain = expected(0xA, &wa);
    let (_, _, m0, _) = session_with_mitm(&wa, &mut |_, _, x| x)?;
    let (hs_a2b, _) = handshake_lens(&m0.seen);
    let total = m0.seen[0].len();
    let mut frame_ends = vec![];
    let mut at = hs_a2b;
    while at + 2 <= total {
        at += 2 + u16::from_be_bytes([m0.seen[0][at], m0.seen[0][at + 1]]) as usize;
        frame_ends.push(at);
    }
    for cut in hs_a2b..total {
        let (_, sb, _, _) = session_with_mitm(&wa, &mut |dir, off, mut x| {
            if dir == 0 && off + x.len() > cut {
                x.truncate(cut.saturating_sub(off));
            }
            x
        })?;
        let sb = sb.borrow();
        ensure!(plain.starts_with(&sb.read), "C17/truncate-altered", "cut at {cut}: non-prefix data");
        ensure!(sb.read.len() < plain.len(), "C17/truncate-complete", "cut at {cut} of {total}: reader still got all {} bytes", plain.len());
        // a cut inside a frame must surface as an error; only a cut exactly on a frame boundary is
        // indistinguishable from an orderly close
        let on_boundary = cut == hs_a2b || frame_ends.contains(&cut);
        if !on_boundary {
            ensure!(sb.read_err.is_some() && !sb.eof, "C17/truncate-clean-eof", "stream cut at offset {cut} (inside a frame): reader saw eof={} error={:?} after {} of {} bytes; a truncated frame must be an error, not a clean end-of-stream", sb.eof, sb.read_err, sb.read.len(), plain.len());
        }
    }
    fired("ciphertext_truncation");
    set_sample(|| format!("truncate-every-offset: writes {wa:?}, cuts {}..{}", hs_a2b, total));
    Ok(())
}

// =================================================================================================
// C16
// =================================================================================================

pub fn check_c16() -> Check {
    Check {
        id: "C16",
        title: "Noise handshake authenticates exactly the remote identity",
        level: Level::FaultEnumeration,
        rule: "honest: initiator/responder identities over every key type (ed25519, secp256k1, ecdsa, rsa) x chunking/schedules, each side must report the other's true peer id; prologue mismatch must fail both. on-path adversary (frame-aware Mitm): for each of the 3 handshake messages every single-byte flip (exhaustive inside the run), sampled double flips, every truncation point, drop, duplicate, and replacement by the same message recorded from another session. byzantine endpoint: the real handshake code with a spliced announced identity (cfg(libp2p_verif) facade): (key, signature) taken from another identity, own key with foreign/empty/garbage signature, foreign key with own signature, across key types. Oracle: an honest side returns Ok(p) only if p is the identity whose key signed the static DH key of the party that holds the session (ground truth known to the simulator); otherwise error or stall. Non-trivial = adversarial action applied or mixed key types; distinct = fingerprint of (key types, adversary action, message index, outcome kinds)",
        assumptions: &["signature schemes and DH are trusted primitives", "the byzantine endpoint cannot sign with the victim's private key"],
        real: &["libp2p_noise handshake (send/recv identity, finish: signature check)", "snow XX", "libp2p_identity verify for 4 key types"],
        stub: &["socket -> simkit::pipe", "adversaries = harness Mitm / spliced Config"],
        scenarios: vec![
            Scenario::new("honest-key-types", 300, 20_000, honest_key_types),
            Scenario::new("prologue-mismatch", 100, 5_000, prologue_mismatch),
            Scenario::new("onpath-flip-every-byte", 6, 300, onpath_flip_every_byte),
            Scenario::new("onpath-structural", 300, 20_000, onpath_structural),
            Scenario::new("byzantine-splice", 600, 40_000, byzantine_splice),
        ],
    }
}

fn honest_key_types() -> SimResult {
    draw_policy();
    let (ta, tb) = (choose(4), choose(4));
    note(KINDS[ta]);
    note(KINDS[tb]);
    let (ka, kb) = (keypair(ta), keypair(tb));
    let (a, b) = pipe::pair_cfg(PipeCfg::draw_min_cap(4096), PipeCfg::draw_min_cap(4096));
    let (sa, sb): (SideRef, SideRef) = Default::default();
    let ua = spawn_initiator(a, Config::new(&ka).unwrap(), sa.clone(), vec![(5, true)]);
    let ub = spawn_responder(b, Config::new(&kb).unwrap(), sb.clone(), vec![(7, true)]);
    run_until_idle();
    ensure!(is_done(ua) && is_done(ub), "C16/honest-stuck", "honest handshake {}/{} did not finish", KINDS[ta], KINDS[tb]);
    ensure!(sa.borrow().result == Some(Ok(kb.public().to_peer_id())), "C16/honest-initiator", "initiator ({}) reports {:?}, responder is {}", KINDS[ta], sa.borrow().result, kb.public().to_peer_id());
    ensure!(sb.borrow().result == Some(Ok(ka.public().to_peer_id())), "C16/honest-responder", "responder ({}) reports {:?}, initiator is {}", KINDS[tb], sb.borrow().result, ka.public().to_peer_id());
    ensure!(sb.borrow().read == expected(0xA, &[(5, true)]) && sa.borrow().read == expected(0xB, &[(7, true)]), "C17/after-handshake-data", "data after handshake differs");
    if ta != tb {
        mark_nontrivial();
    }
    set_sample(|| format!("honest {} initiator / {} responder", KINDS[ta], KINDS[tb]));
    Ok(())
}

fn prologue_mismatch() -> SimResult {
    draw_policy();
    let (ka, kb) = (keypair(choose(4)), keypair(choose(4)));
    let pa = bytes(choose(8));
    let mut pb = pa.clone();
    let same = choose(4) == 0;
    if !same {
        match choose(3) {
            0 => pb.push(choose(256) as u8),
            1 if !pb.is_empty() => {
                let i = choose(pb.len());
                pb[i] ^= 1 << choose(8);
            }
            _ => pb = bytes(1 + choose(8)),
        }
        if pb == pa {
            pb.push(1);
        }
    }
    let (a, b) = pipe::pair_cfg(PipeCfg::draw_min_cap(4096), PipeCfg::draw_min_cap(4096));
    let (sa, sb): (SideRef, SideRef) = Default::default();
    spawn_initiator(a, Config::new(&ka).unwrap().with_prologue(pa.clone()), sa.clone(), vec![]);
    spawn_responder(b, Config::new(&kb).unwrap().with_prologue(pb.clone()), sb.clone(), vec![]);
    run_until_idle();
    note_val("same", same as u64);
    let (ra, rb) = (sa.borrow().result.clone(), sb.borrow().result.clone());
    if same {
        ensure!(matches!(ra, Some(Ok(_))) && matches!(rb, Some(Ok(_))), "C16/same-prologue-failed", "equal prologues but {ra:?} / {rb:?}");
    } else {
        ensure!(!matches!(ra, Some(Ok(_))), "C16/prologue-mismatch-accepted", "initiator succeeded with different prologues {pa:?} vs {pb:?}");
        ensure!(!matches!(rb, Some(Ok(_))), "C16/prologue-mismatch-accepted", "responder succeeded with different prologues {pa:?} vs {pb:?}");
        mark_nontrivial();
    }
    set_sample(|| format!("prologue {pa:?} vs {pb:?} -> {ra:?} / {rb:?}"));
    Ok(())
}

/// Ground-truth check shared by the adversarial scenarios.
fn check_truth(side: &str, got: &Option<Result<PeerId, String>>, truth: &PeerId, what: &str) -> SimResult {
    if let Some(Ok(p)) = got {
        ensure!(p == truth, "C16/wrong-peer-authenticated", "{what}: {side} reports {p} but completed the key exchange with {truth}");
    }
    Ok(())
}

struct HsRun {
    sa: SideRef,
    sb: SideRef,
    ida: PeerId,
    idb: PeerId,
    seen: [Vec<u8>; 2],
}

fn hs_with(f: &mut dyn FnMut(usize, usize, Vec<u8>) -> Vec<u8>, ta: usize, tb: usize) -> HsRun {
    let (ka, kb) = (keypair(ta), keypair(tb));
    let (a, ra) = pipe::pair_raw(PipeCfg::draw_min_cap(1 << 16));
    let (b, rb) = pipe::pair_raw(PipeCfg::draw_min_cap(1 << 16));
    let (sa, sb): (SideRef, SideRef) = Default::default();
    spawn_initiator(a, Config::new(&ka).unwrap(), sa.clone(), vec![(3, true)]);
    spawn_responder(b, Config::new(&kb).unwrap(), sb.clone(), vec![(3, true)]);
    let mut m = Mitm::new(ra, rb);
    m.run(f);
    HsRun { sa, sb, ida: ka.public().to_peer_id(), idb: kb.public().to_peer_id(), seen: m.seen }
}

fn onpath_flip_every_byte() -> SimResult {
    let (ta, tb) = (0, 0); // ed25519: fixed-size signatures keep the byte layout identical across sessions
    let r0 = hs_with(&mut |_, _, x| x, ta, tb);
    ensure!(r0.sa.borrow().result == Some(Ok(r0.idb)) && r0.sb.borrow().result == Some(Ok(r0.ida)), "C16/honest-through-mitm", "reference handshake through a passive Mitm failed: {:?} {:?}", r0.sa.borrow().result, r0.sb.borrow().result);
    let (hs_a, hs_b) = handshake_lens(&r0.seen);
    let mut both_ok = 0;
    let mut sessions = 0u64;
    for dir in 0..2usize {
        let n = if dir == 0 { hs_a } else { hs_b };
        for k in 0..n {
            let bit = 1u8 << choose(8);
            let r = hs_with(
                &mut |d, off, mut x| {
                    if d == dir && off <= k && k < off + x.len() {
                        x[k - off] ^= bit;
                    }
                    x
                },
                ta,
                tb,
            );
            sessions += 1;
            check_truth("initiator", &r.sa.borrow().result, &r.idb, "byte flip")?;
            check_truth("responder", &r.sb.borrow().result, &r.ida, "byte flip")?;
            if matches!(r.sa.borrow().result, Some(Ok(_))) && matches!(r.sb.borrow().result, Some(Ok(_))) {
                both_ok += 1;
            }
        }
    }
    // Every handshake byte is authenticated by the transcript hash: a flip must break at least one side.
    ensure!(both_ok == 0, "C16/tampered-handshake-accepted", "{both_ok} of {sessions} single-byte flips of handshake bytes left both sides succeeding");
    fired("handshake_byte_flip");
    set_sample(|| format!("flip every byte: {}+{} handshake bytes, {sessions} sessions, key types {}/{}", hs_a, hs_b, KINDS[ta], KINDS[tb]));
    Ok(())
}

fn split_frames(b: &[u8]) -> Vec<Vec<u8>> {
    let mut out = vec![];
    let mut at = 0;
    while at + 2 <= b.len() {
        let len = 2 + u16::from_be_bytes([b[at], b[at + 1]]) as usize;
        if at + len > b.len() {
            break;
        }
        out.push(b[at..at + len].to_vec());
        at += len;
    }
    out
}

fn onpath_structural() -> SimResult {
    draw_policy();
    let (ta, tb) = (choose(4), choose(4));
    // another session between the same kinds of parties, to take replacement messages from
    let other = hs_with(&mut |_, _, x| x, ta, tb);
    // message index: 0 = msg1 (a->b #0), 1 = msg2 (b->a #0), 2 = msg3 (a->b #1)
    let msg = choose(3);
    let (dir, idx) = [(0usize, 0usize), (1, 0), (0, 1)][msg];
    let other_frames = split_frames(&other.seen[dir]);
    ensure!(other_frames.len() > idx, "C16/harness", "reference session too short");
    let replacement = other_frames[idx].clone();
    let action = choose(5);
    let names = ["truncate", "drop", "duplicate", "replace-from-other-session", "double-flip"];
    note(names[action]);
    note_val("msg", msg as u64);
    note(KINDS[ta]);
    note(KINDS[tb]);
    let (c1, c2, c3) = (choose(1 << 16), choose(1 << 16), choose(1 << 16));
    let mut acc: Vec<u8> = vec![];
    let mut forwarded = 0usize;
    let mut done = false;
    let mut cancelled = false;
    let r = hs_with(
        &mut |d, _off, x| {
            if d != dir || done {
                return x;
            }
            acc.extend_from_slice(&x);
            let mut out = vec![];
            loop {
                if acc.len() < 2 {
                    break;
                }
                let len = 2 + u16::from_be_bytes([acc[0], acc[1]]) as usize;
                if acc.len() < len {
                    break;
                }
                let mut f: Vec<u8> = acc.drain(..len).collect();
                if forwarded == idx {
                    done = true;
                    match action {
                        0 => f.truncate(c1 % f.len()),
                        1 => f.clear(),
                        2 => {
                            let g = f.clone();
                            f.extend(g);
                        }
                        3 => f = replacement.clone(),
                        _ => {
                            let (p, q) = (c2 % f.len(), c3 % f.len());
                            f[p] ^= 0x01;
                            f[q] ^= 0x01;
                            cancelled = p == q;
                        }
                    }
                    out.extend(f);
                    out.append(&mut acc); // rest passes through untouched
                    break;
                }
                forwarded += 1;
                out.extend(f);
            }
            out
        },
        ta,
        tb,
    );
    fired("handshake_structural_tamper");
    check_truth("initiator", &r.sa.borrow().result, &r.idb, names[action])?;
    check_truth("responder", &r.sb.borrow().result, &r.ida, names[action])?;
    let both = matches!(r.sa.borrow().result, Some(Ok(_))) && matches!(r.sb.borrow().result, Some(Ok(_)));
    if both {
        // only a manipulation that cancelled itself out may leave both sides successful
        // ... or a duplicate, whose second copy is simply (undecryptable) transport data that
        // arrives after a handshake that was itself untouched
        ensure!((action == 4 && cancelled) || action == 2, "C16/tampered-handshake-accepted", "{} of message {} left both sides succeeding", names[action], msg + 1);
    }
    set_sample(|| format!("on-path {} of handshake message {} ({} / {}): initiator ok={:?}, responder ok={:?}", names[action], msg + 1, KINDS[ta], KINDS[tb], r.sa.borrow().result.as_ref().map(|x| x.is_ok()), r.sb.borrow().result.as_ref().map(|x| x.is_ok())));
    Ok(())
}

fn byzantine_splice() -> SimResult {
    draw_policy();
    let (th, tv, mut tm) = (choose(4), choose(4), choose(4));
    if tv == 3 && tm == 3 {
        tm = 0; // only one RSA fixture key exists: victim and adversary must be different identities
    }
    let honest = keypair(th); // the honest party under test
    let victim = keypair(tv); // identity the adversary would like to be taken for
    let mallory = keypair(tm); // the adversary's own identity
    let victim_cfg = Config::new(&victim).unwrap(); // a config the adversary observed in another session
    let (vpub, vsig) = victim_cfg.verif_announced_identity();
    let mcfg = Config::new(&mallory).unwrap();
    let (mpub, msig) = mcfg.verif_announced_identity();
    let other_m = Config::new(&mallory).unwrap(); // mallory's signature over a *different* static key
    let (_, msig_other) = other_m.verif_announced_identity();
    let splice = choose(8);
    let names = ["honest-mallory", "victim-key+victim-sig", "victim-key+mallory-sig", "mallory-key+victim-sig", "mallory-key+empty-sig", "mallory-key+garbage-sig", "mallory-key+sig-over-other-static", "victim-key+empty-sig"];
    let (apub, asig) = match splice {
        0 => (mpub.clone(), msig.clone()),
        1 => (vpub.clone(), vsig.clone()),
        2 => (vpub.clone(), msig.clone()),
        3 => (mpub.clone(), vsig.clone()),
        4 => (mpub.clone(), vec![]),
        5 => (mpub.clone(), bytes(msig.len().max(1))),
        6 => (mpub.clone(), msig_other.clone()),
        _ => (vpub.clone(), vec![]),
    };
    let byz = mcfg.verif_with_announced_identity(apub, asig);
    let byz_is_initiator = choose(2) == 0;
    note(names[splice]);
    note_val("byz_init", byz_is_initiator as u64);
    note(KINDS[th]);
    note(KINDS[tv]);
    note(KINDS[tm]);
    let (a, b) = pipe::pair_cfg(PipeCfg::draw_min_cap(1 << 16), PipeCfg::draw_min_cap(1 << 16));
    let (sh, sz): (SideRef, SideRef) = Default::default();
    let hcfg = Config::new(&honest).unwrap();
    if byz_is_initiator {
        spawn_initiator(a, byz, sz.clone(), vec![]);
        spawn_responder(b, hcfg, sh.clone(), vec![]);
    } else {
        spawn_initiator(a, hcfg, sh.clone(), vec![]);
        spawn_responder(b, byz, sz.clone(), vec![]);
    }
    run_until_idle();
    fired("byzantine_identity_splice");
    let got = sh.borrow().result.clone();
    trace!("{}: honest side got {:?}", names[splice], got);
    let mallory_id = mallory.public().to_peer_id();
    match splice {
        0 => ensure!(got == Some(Ok(mallory_id)), "C16/honest-byzantine-baseline", "unspliced adversary should authenticate as itself, got {got:?}"),
        _ => {
            // no private key other than mallory's signed the static key held by the adversary,
            // and mallory's valid signature was replaced: nothing may be accepted
            ensure!(!matches!(got, Some(Ok(_))), "C16/spliced-identity-accepted", "{}: honest {} side accepted the handshake as {:?} (victim {}, adversary {})", names[splice], KINDS[th], got, victim.public().to_peer_id(), mallory_id);
        }
    }
    set_sample(|| format!("byzantine {} as {} against honest {}: honest side -> {:?}", names[splice], if byz_is_initiator { "initiator" } else { "responder" }, KINDS[th], got.as_ref().map(|r| r.as_ref().map(|p| p.to_string()))));
    Ok(())
}
