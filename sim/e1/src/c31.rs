//! C31 — gossipsub RPC size limits are applied per frame.
use asynchronous_codec::FramedRead;
use futures::StreamExt;
use libp2p_gossipsub::verif as gs;
use libp2p_gossipsub::ValidationMode;
use simkit::pipe::{self, Chunking, PipeCfg};
use simkit::*;
use std::cell::RefCell;
use std::collections::HashMap;
use std::rc::Rc;

pub fn check() -> Check {
    Check {
        id: "C31",
        title: "Gossipsub RPC size limits are applied per frame",
        level: Level::Exploration,
        rule: "the real GossipsubCodec (cfg(libp2p_verif) constructor) behind asynchronous_codec::FramedRead over a pipe. Each run draws small limits (max_transmit_size 100..2000, max_publish_messages 1..4, max_control_message_size 50..400) and a stream of 1..6 RPCs built with a hand-written protobuf encoder whose encodings sit at limit-1 / limit / limit+1 of each limit, concatenated and delivered under drawn chunkings - including everything in one read and byte by byte. Oracle: the decoded sequence equals the RPCs up to the first over-limit one, which yields an error; an RPC within all limits is never rejected, however frames split or coalesce. Non-trivial = at least two frames were present in the decoder's buffer at once or a frame was split across reads; distinct = fingerprint of (limit classes per RPC, chunking, outcome)",
        assumptions: &["reference protobuf encoder for Rpc/Message/SubOpts/ControlMessage written by hand from rpc.proto"],
        real: &["gossipsub protocol::GossipsubCodec::decode, validate_rpc_limits", "prost-codec", "FramedRead"],
        stub: &["substream -> simkit::pipe"],
        scenarios: vec![Scenario::new("rpc-stream", 5000, 500_000, rpc_stream)],
    }
}

fn varint(mut v: usize, out: &mut Vec<u8>) {
    loop {
        let b = (v & 0x7f) as u8;
        v >>= 7;
        if v == 0 {
            out.push(b);
            break;
        }
        out.push(b | 0x80);
    }
}

fn field(tag: u8, payload: &[u8], out: &mut Vec<u8>) {
    out.push((tag << 3) | 2);
    varint(payload.len(), out);
    out.extend_from_slice(payload);
}

/// publish message {data=2, topic=4}
fn message(data_len: usize, topic: &str, fill: u8) -> Vec<u8> {
    let mut m = vec![];
    field(2, &vec![fill; data_len], &mut m);
    field(4, topic.as_bytes(), &mut m);
    m
}

/// subscription {subscribe=1 (varint), topicid=2}
fn subopts(topic: &str) -> Vec<u8> {
    let mut m = vec![0x08, 0x01];
    field(2, topic.as_bytes(), &mut m);
    m
}

/// control {graft=3 {topicID=1}} repeated so that the control field has roughly the wanted size
fn control(grafts: usize, topic: &str) -> Vec<u8> {
    let mut c = vec![];
    for _ in 0..grafts {
        let mut g = vec![];
        field(1, topic.as_bytes(), &mut g);
        field(3, &g, &mut c);
    }
    c
}

#[derive(Debug, Clone)]
struct Rpc {
    body: Vec<u8>,
    publishes: usize,
    control_bytes: usize,
    subs: usize,
    grafts: usize,
}

fn build(pubs: &[(usize, u8)], subs: usize, grafts: usize) -> Rpc {
    let mut body = vec![];
    let mut control_bytes = 0;
    for _ in 0..subs {
        let before = body.len();
        field(1, &subopts("t"), &mut body);
        control_bytes += body.len() - before;
    }
    for (len, fill) in pubs {
        field(2, &message(*len, "t", *fill), &mut body);
    }
    if grafts > 0 {
        let before = body.len();
        field(3, &control(grafts, "t"), &mut body);
        control_bytes += body.len() - before;
    }
    Rpc { body, publishes: pubs.len(), control_bytes, subs, grafts }
}

/// Build an RPC with one publish whose total body length is exactly `target` (if feasible).
fn with_body_len(target: usize, extra_pubs: usize, fill: u8) -> Rpc {
    // body = [extra small publishes] + publish(data_len); search data_len
    let mut pubs: Vec<(usize, u8)> = (0..extra_pubs).map(|_| (1, fill)).collect();
    pubs.push((0, fill));
    let base = build(&pubs, 0, 0).body.len();
    if target <= base {
        return build(&pubs, 0, 0);
    }
    let mut dl = target - base;
    loop {
        let last = pubs.len() - 1;
        pubs[last].0 = dl;
        let r = build(&pubs, 0, 0);
        if r.body.len() <= target || dl == 0 {
            return r;
        }
        dl -= 1; // varint length prefixes grew
    }
}

fn rpc_stream() -> SimResult {
    draw_policy();
    let max_transmit = [100usize, 127, 128, 129, 300, 1000, 2000][choose(7)];
    let max_publish = 1 + choose(4);
    let max_control = [50usize, 100, 400][choose(3)];
    note_val("mt", max_transmit as u64);
    note_val("mp", max_publish as u64);
    let n = 1 + choose(6);
    let mut rpcs = vec![];
    for i in 0..n {
        let r = match choose(8) {
            0 => with_body_len(max_transmit - 1, 0, i as u8),
            1 | 2 => with_body_len(max_transmit, 0, i as u8),
            3 => with_body_len(max_transmit + 1, 0, i as u8),
            4 => with_body_len((max_transmit / 2).max(20), max_publish - 1, i as u8), // publish count at the limit
            5 => with_body_len((max_transmit / 2).max(20), max_publish, i as u8),     // one too many
            6 => {
                // control size around its limit
                let mut g = 1;
                let mut best = build(&[], 1, 1);
                while build(&[], 1, g + 1).control_bytes <= max_control + choose(2) * 6 {
                    g += 1;
                    best = build(&[], 1, g);
                    if best.body.len() + 10 > max_transmit {
                        break;
                    }
                }
                best
            }
            _ => with_body_len(10 + choose(40), 0, i as u8),
        };
        note_val("cls", (r.body.len() > max_transmit) as u64 + 2 * (r.publishes > max_publish) as u64 + 4 * (r.control_bytes > max_control) as u64 + 8 * (r.body.len() == max_transmit) as u64);
        rpcs.push(r);
    }
    // expected outcome from the statement
    let over = |r: &Rpc| r.body.len() > max_transmit || r.publishes > max_publish || r.control_bytes > max_control;
    let first_bad = rpcs.iter().position(over);
    let mut stream = vec![];
    for r in &rpcs {
        varint(r.body.len(), &mut stream);
        stream.extend_from_slice(&r.body);
    }
    let mut cfg = PipeCfg::draw();
    match choose(3) {
        0 => {
            cfg.read_chunking = Chunking::Full;
            cfg.capacity = 1 << 20;
        }
        1 => cfg.read_chunking = Chunking::Byte,
        _ => {}
    }
    let coalesce = cfg.read_chunking == Chunking::Full && n > 1;
    let (a, raw) = pipe::pair_raw(cfg.clone());
    let got: Rc<RefCell<Vec<Result<gs::DecodedRpc, String>>>> = Default::default();
    let g = got.clone();
    let u = spawn("reader", async move {
        let codec = gs::codec(max_transmit, ValidationMode::None, HashMap::new(), max_publish, max_control);
        let mut r = FramedRead::new(a, codec);
        while let Some(x) = r.next().await {
            let stop = x.is_err();
            g.borrow_mut().push(match x {
                Ok(ev) => Ok(gs::view_handler_event(&ev).unwrap_or_default()),
                Err(e) => Err(e.to_string()),
            });
            if stop {
                break;
            }
        }
    });
    if choose(2) == 0 {
        raw.send(&stream);
    } else {
        let mut rest = &stream[..];
        while !rest.is_empty() {
            let k = 1 + choose(rest.len());
            raw.send(&rest[..k]);
            rest = &rest[k..];
            run_until_idle();
        }
    }
    raw.close_write();
    run_until_idle();
    ensure!(is_done(u), "C31/hang", "decoder did not terminate");
    let got = got.borrow();
    let describe = || format!("limits transmit={max_transmit} publish={max_publish} control={max_control}; rpcs (body,pubs,ctrl)={:?}; read chunking {:?}; decoded {:?}", rpcs.iter().map(|r| (r.body.len(), r.publishes, r.control_bytes)).collect::<Vec<_>>(), cfg.read_chunking, got.iter().map(|x| x.as_ref().map(|d| d.messages.len()).map_err(|e| e.chars().take(50).collect::<String>())).collect::<Vec<_>>());
    let ok_expected = first_bad.unwrap_or(n);
    for (i, r) in rpcs.iter().enumerate().take(ok_expected) {
        let Some(x) = got.get(i) else {
            return Err(violation!("C31/valid-rpc-missing", "RPC #{i} within all limits was not decoded; {}", describe()));
        };
        match x {
            Err(e) => return Err(violation!("C31/valid-rpc-rejected", "RPC #{i} (body {} bytes <= max_transmit_size {max_transmit}, {} publishes <= {max_publish}, control {} <= {max_control}) was rejected: {e}; {}", r.body.len(), r.publishes, r.control_bytes, describe())),
            Ok(d) => {
                ensure!(d.messages.len() + d.invalid_messages.len() == r.publishes, "C31/decoded-content", "RPC #{i}: decoded {} messages, sent {}", d.messages.len() + d.invalid_messages.len(), r.publishes);
                // the decoder always appends one `Extensions(..)` entry to the control list
                let nctl = d.control.iter().filter(|c| !c.starts_with("Extensions")).count();
                ensure!(d.subscriptions.len() == r.subs && nctl == r.grafts, "C31/decoded-content", "RPC #{i}: decoded {} subs / {} control, sent {} / {}", d.subscriptions.len(), d.control.len(), r.subs, r.grafts);
            }
        }
    }
    if let Some(b) = first_bad {
        ensure!(got.len() == b + 1 && got[b].is_err(), "C31/over-limit-accepted", "RPC #{b} exceeds a limit but the decoder produced {:?}; {}", got.get(b).map(|x| x.is_ok()), describe());
    } else {
        ensure!(got.len() == n, "C31/extra-items", "decoded {} items from {n} RPCs; {}", got.len(), describe());
    }
    if coalesce || cfg.read_chunking != Chunking::Full {
        mark_nontrivial();
    }
    if coalesce {
        probe("frames_coalesced_in_one_read");
    }
    set_sample(describe);
    Ok(())
}
