//! E1 — byte-stream simulator checks.
simkit::interpose_getrandom!();

mod c14;
mod c15;
mod c19;
mod c23;
mod c24;
mod c25;
mod c31;
mod c49;
mod c56;
mod c57;
mod noise;

fn main() {
    simkit::main_with(vec![c14::check(), c15::check(), c19::check(), c23::check(), c24::check(), c25::check_c25(), c25::check_c26(), c31::check(), c49::check(), c56::check(), c57::check(), noise::check_c16(), noise::check_c17()]);
}
