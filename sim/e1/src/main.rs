//! E1 — byte-stream simulator checks.
simkit::interpose_getrandom!();

mod c57;

fn main() {
    simkit::main_with(vec![c57::check()]);
}
