//! E1 — byte-stream simulator checks.
simkit::interpose_getrandom!();

mod c14;
mod c15;
mod c57;

fn main() {
    simkit::main_with(vec![c14::check(), c15::check(), c57::check()]);
}
