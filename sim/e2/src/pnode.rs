//! A Swarm around any behaviour with its events kept typed (for the protocol checks, where the
//! oracle reads the behaviour's own events instead of the connection-lifecycle abstraction).

use crate::net::{self, SimTransport};
use crate::node::Knobs;
use futures::StreamExt;
use libp2p_core::{Multiaddr, Transport};
use libp2p_identity::{Keypair, PeerId};
use libp2p_swarm::dial_opts::{DialOpts, PeerCondition};
use libp2p_swarm::{ConnectionId, NetworkBehaviour, Swarm, SwarmEvent};
use simkit::*;
use std::cell::RefCell;
use std::rc::Rc;
use std::task::Poll;
use std::time::Duration;

pub struct PNode<B: NetworkBehaviour> {
    pub idx: usize,
    pub peer: PeerId,
    pub key: Keypair,
    pub swarm: Rc<RefCell<Swarm<B>>>,
    pub unit: UnitId,
    pub events: Rc<RefCell<Vec<(u64, Duration, SwarmEvent<B::ToSwarm>)>>>,
    pub listen_port: u16,
}

/// Which connection stack the nodes of a run use.
#[derive(Clone, Copy, Debug, PartialEq)]
pub enum Stack {
    /// SimTransport + SimMuxer (security and muxing stubbed)
    Stub,
    /// simulated byte pipes under the real multistream-select + noise + yamux/mplex
    Full(crate::full::Mux, bool),
}

impl Stack {
    pub fn draw_full() -> Self {
        Stack::Full(if choose(2) == 0 { crate::full::Mux::Yamux } else { crate::full::Mux::Mplex }, choose(3) == 0)
    }
    pub fn conn_count(&self) -> usize {
        match self {
            Stack::Stub => net::conn_count(),
            Stack::Full(..) => crate::full::pipe_count(),
        }
    }
    pub fn reset_conn(&self, k: usize) {
        match self {
            Stack::Stub => net::reset_conn(k),
            Stack::Full(..) => crate::full::reset_pipe(k),
        }
    }
}

pub fn steady_knobs() -> Knobs {
    Knobs { notify_buffer: 1 + choose(8), event_buffer: choose(8), dial_concurrency: 1 + choose(4) as u8, idle_timeout: Duration::from_secs(3600), max_negotiating_inbound: 128, smart_dial: false }
}

impl<B: NetworkBehaviour + 'static> PNode<B>
where
    B::ToSwarm: std::fmt::Debug,
{
    pub fn new(behaviour: impl FnOnce(&Keypair) -> B, knobs: &Knobs) -> Self {
        let key = Keypair::generate_ed25519();
        Self::with_key(key, behaviour, knobs)
    }

    /// A node on the given stack.
    pub fn make(stack: Stack, key: Keypair, behaviour: impl FnOnce(&Keypair) -> B, knobs: &Knobs) -> Self {
        match stack {
            Stack::Stub => Self::with_key(key, behaviour, knobs),
            Stack::Full(mux, lazy) => Self::on(|idx, k| crate::full::full_transport(idx, k, mux, lazy), key, behaviour, knobs),
        }
    }

    pub fn with_key(key: Keypair, behaviour: impl FnOnce(&Keypair) -> B, knobs: &Knobs) -> Self {
        Self::on(|idx, _| SimTransport { node: idx }.boxed(), key, behaviour, knobs)
    }

    /// Over any transport (E2-full: real noise + muxer over simulated pipes).
    pub fn on(transport: impl FnOnce(usize, &Keypair) -> libp2p_core::transport::Boxed<(PeerId, libp2p_core::muxing::StreamMuxerBox)>, key: Keypair, behaviour: impl FnOnce(&Keypair) -> B, knobs: &Knobs) -> Self {
        let peer = key.public().to_peer_id();
        let idx = net::add_node(peer);
        let transport = transport(idx, &key);
        let swarm = Swarm::new(transport, behaviour(&key), peer, knobs.config(idx));
        let swarm = Rc::new(RefCell::new(swarm));
        let events: Rc<RefCell<Vec<(u64, Duration, SwarmEvent<B::ToSwarm>)>>> = Default::default();
        let (s2, e2) = (swarm.clone(), events.clone());
        let unit = spawn(format!("swarm-n{idx}"), async move {
            futures::future::poll_fn(move |cx| {
                let mut s = s2.borrow_mut();
                match s.poll_next_unpin(cx) {
                    Poll::Ready(Some(ev)) => {
                        trace!("n{idx} EVENT {}", crop(&format!("{ev:?}"), 260));
                        e2.borrow_mut().push((next_seq(), elapsed(), ev));
                        cx.waker().wake_by_ref();
                        Poll::<()>::Pending
                    }
                    Poll::Ready(None) => Poll::Ready(()),
                    Poll::Pending => Poll::Pending,
                }
            })
            .await
        });
        PNode { idx, peer, key, swarm, unit, events, listen_port: 4001 }
    }

    pub fn listen(&self) -> Multiaddr {
        let a = net::node_addr(self.idx, self.listen_port);
        self.swarm.borrow_mut().listen_on(a.clone()).expect("listen");
        spurious_wake(self.unit);
        a
    }

    pub fn addr(&self) -> Multiaddr {
        net::node_addr(self.idx, self.listen_port)
    }

    pub fn kick(&self) {
        spurious_wake(self.unit);
    }

    /// Dial `peer` at `addr` even if already connected; returns the connection id.
    pub fn dial_new(&self, peer: PeerId, addr: Multiaddr) -> Option<ConnectionId> {
        let opts = DialOpts::peer_id(peer).addresses(vec![addr]).condition(PeerCondition::Always).build();
        let id = opts.connection_id();
        let r = self.swarm.borrow_mut().dial(opts);
        self.kick();
        r.ok().map(|_| id)
    }

    pub fn with<R>(&self, f: impl FnOnce(&mut B) -> R) -> R {
        let r = f(self.swarm.borrow_mut().behaviour_mut());
        self.kick();
        r
    }

    /// Events recorded since the last call.
    pub fn take_events(&self) -> Vec<(u64, SwarmEvent<B::ToSwarm>)> {
        std::mem::take(&mut *self.events.borrow_mut()).into_iter().map(|(s, _, e)| (s, e)).collect()
    }

    /// Same, with the virtual time at which each event was returned by the Swarm.
    pub fn take_events_timed(&self) -> Vec<(Duration, SwarmEvent<B::ToSwarm>)> {
        std::mem::take(&mut *self.events.borrow_mut()).into_iter().map(|(_, t, e)| (t, e)).collect()
    }

    pub fn connections_to(&self, peer: &PeerId) -> bool {
        self.swarm.borrow().is_connected(peer)
    }
}

pub fn crop(s: &str, n: usize) -> String {
    if s.len() <= n {
        s.to_string()
    } else {
        let mut end = n;
        while !s.is_char_boundary(end) {
            end -= 1;
        }
        format!("{}…", &s[..end])
    }
}
