//! E2-full: the same Swarm simulator with the REAL connection stack. The simulated part is only the byte
//! pipe: `RawTransport` hands `simkit::pipe::End`s (drawn capacity / chunking / spurious Pending) to
//! `libp2p_core`'s upgrade builder, which runs multistream-select, the real noise handshake and the real
//! yamux or mplex muxer on them. Faults: refused dials, connection resets at the pipe.

use crate::net;
use futures::future::{self, BoxFuture};
use libp2p_core::multiaddr::{Multiaddr, Protocol};
use libp2p_core::muxing::StreamMuxerBox;
use libp2p_core::transport::{Boxed, DialOpts, ListenerId, TransportError, TransportEvent};
use libp2p_core::upgrade::Version;
use libp2p_core::Transport;
use libp2p_identity::{Keypair, PeerId};
use simkit::pipe::{self, Ctl, End, PipeCfg};
use simkit::*;
use std::cell::RefCell;
use std::collections::{BTreeMap, VecDeque};
use std::io;
use std::pin::Pin;
use std::task::{Context, Poll, Waker};
use std::time::Duration;

enum REv {
    NewAddress(ListenerId, Multiaddr),
    Closed(ListenerId),
    Incoming { id: ListenerId, io: End, local: Multiaddr, remote: Multiaddr },
}

#[derive(Default)]
struct RawNet {
    /// address -> (node, listener)
    listeners: BTreeMap<String, (usize, ListenerId)>,
    events: BTreeMap<usize, VecDeque<REv>>,
    wakers: BTreeMap<usize, Waker>,
    pipes: Vec<Ctl>,
    next_port: u16,
    pub dial_faults: bool,
}

thread_local! {
    static RAW: RefCell<RawNet> = RefCell::new(RawNet::default());
}

pub fn reset(dial_faults: bool) {
    RAW.with(|r| *r.borrow_mut() = RawNet { next_port: 40_000, dial_faults, ..Default::default() });
}

pub fn pipe_count() -> usize {
    RAW.with(|r| r.borrow().pipes.len())
}

/// Reset the k-th raw connection (both ends see ConnectionReset).
pub fn reset_pipe(k: usize) {
    let c = RAW.with(|r| r.borrow().pipes.get(k).cloned());
    if let Some(c) = c {
        c.reset();
    }
}

fn push(node: usize, ev: REv) {
    let w = RAW.with(|r| {
        let mut r = r.borrow_mut();
        r.events.entry(node).or_default().push_back(ev);
        r.wakers.remove(&node)
    });
    if let Some(w) = w {
        w.wake();
    }
}

fn key_of(addr: &Multiaddr) -> String {
    let mut a = addr.clone();
    if let Some(Protocol::P2p(_)) = a.iter().last() {
        a.pop();
    }
    a.to_string()
}

pub struct RawTransport {
    pub node: usize,
    /// bytes the pipes must be able to hold (the muxer may write a window before reading)
    pub min_cap: usize,
}

impl Transport for RawTransport {
    type Output = End;
    type Error = io::Error;
    type ListenerUpgrade = future::Ready<Result<End, io::Error>>;
    type Dial = BoxFuture<'static, Result<End, io::Error>>;

    fn listen_on(&mut self, id: ListenerId, addr: Multiaddr) -> Result<(), TransportError<io::Error>> {
        if !matches!(addr.iter().next(), Some(Protocol::Ip4(_))) {
            return Err(TransportError::MultiaddrNotSupported(addr));
        }
        let node = self.node;
        RAW.with(|r| r.borrow_mut().listeners.insert(key_of(&addr), (node, id)));
        push(node, REv::NewAddress(id, addr));
        Ok(())
    }

    fn remove_listener(&mut self, id: ListenerId) -> bool {
        let node = self.node;
        let found = RAW.with(|r| {
            let mut r = r.borrow_mut();
            let k = r.listeners.iter().find(|(_, v)| **v == (node, id)).map(|(k, _)| k.clone());
            k.map(|k| r.listeners.remove(&k)).is_some()
        });
        if found {
            push(node, REv::Closed(id));
        }
        found
    }

    fn dial(&mut self, addr: Multiaddr, _: DialOpts) -> Result<Self::Dial, TransportError<io::Error>> {
        if !matches!(addr.iter().next(), Some(Protocol::Ip4(_))) {
            return Err(TransportError::MultiaddrNotSupported(addr));
        }
        let (node, min_cap) = (self.node, self.min_cap);
        Ok(Box::pin(async move {
            let faults = RAW.with(|r| r.borrow().dial_faults);
            if faults && fault("dial_refused", 60) {
                return Err(io::ErrorKind::ConnectionRefused.into());
            }
            let target = RAW.with(|r| r.borrow().listeners.get(&key_of(&addr)).copied());
            let Some((tnode, lid)) = target else {
                return Err(io::ErrorKind::ConnectionRefused.into());
            };
            let (a, b) = pipe::pair_cfg(PipeCfg::draw_min_cap(min_cap), PipeCfg::draw_min_cap(min_cap));
            let port = RAW.with(|r| {
                let mut r = r.borrow_mut();
                r.pipes.push(a.ctl());
                r.next_port += 1;
                r.next_port
            });
            let local: Multiaddr = key_of(&addr).parse().expect("addr");
            push(tnode, REv::Incoming { id: lid, io: b, local, remote: net::node_addr(node, port) });
            Ok(a)
        }))
    }

    fn poll(self: Pin<&mut Self>, cx: &mut Context<'_>) -> Poll<TransportEvent<Self::ListenerUpgrade, io::Error>> {
        let node = self.node;
        let ev = RAW.with(|r| {
            let mut r = r.borrow_mut();
            let e = r.events.entry(node).or_default().pop_front();
            if e.is_none() {
                r.wakers.insert(node, cx.waker().clone());
            }
            e
        });
        match ev {
            None => Poll::Pending,
            Some(REv::NewAddress(listener_id, listen_addr)) => Poll::Ready(TransportEvent::NewAddress { listener_id, listen_addr }),
            Some(REv::Closed(listener_id)) => Poll::Ready(TransportEvent::ListenerClosed { listener_id, reason: Ok(()) }),
            Some(REv::Incoming { id, io, local, remote }) => Poll::Ready(TransportEvent::Incoming { listener_id: id, upgrade: future::ready(Ok(io)), local_addr: local, send_back_addr: remote }),
        }
    }
}

#[derive(Clone, Copy, Debug, PartialEq)]
pub enum Mux {
    Yamux,
    Mplex,
}

/// RawTransport + multistream-select + noise + yamux/mplex, boxed like any production transport.
pub fn full_transport(node: usize, key: &Keypair, mux: Mux, lazy: bool) -> Boxed<(PeerId, StreamMuxerBox)> {
    let version = if lazy { Version::V1Lazy } else { Version::V1 };
    let noise = libp2p_noise::Config::new(key).expect("noise config");
    match mux {
        // yamux 0.13 stops reading while a window update / pong is pending: give the pipe room for a whole window
        Mux::Yamux => RawTransport { node, min_cap: 4 << 20 }.upgrade(version).authenticate(noise).multiplex(libp2p_yamux::Config::default()).timeout(Duration::from_secs(20)).boxed(),
        Mux::Mplex => RawTransport { node, min_cap: 1 << 17 }.upgrade(version).authenticate(noise).multiplex(libp2p_mplex::Config::default()).timeout(Duration::from_secs(20)).boxed(),
    }
}
