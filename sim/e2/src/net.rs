//! Simulated network for E2: address table, transport, muxer, executor.
//! Everything lives on the run's thread (thread-local registry); handles are `Send` by
//! construction (Arc/Mutex) only because the swarm API demands it.

use futures::future::BoxFuture;
use libp2p_core::multiaddr::{Multiaddr, Protocol};
use libp2p_core::muxing::{StreamMuxer, StreamMuxerBox, StreamMuxerEvent};
use libp2p_core::transport::{DialOpts, ListenerId, TransportError, TransportEvent};
use libp2p_core::Transport;
use libp2p_identity::PeerId;
use simkit::pipe::{self, Ctl, End, PipeCfg};
use simkit::*;
use std::cell::RefCell;
use std::collections::{BTreeMap, VecDeque};
use std::future::Future;
use std::io;
use std::pin::Pin;
use std::sync::{Arc, Mutex};
use std::task::{Context, Poll, Waker};
use std::time::Duration;

#[derive(Clone, Debug, PartialEq)]
pub enum Script {
    /// behave like a network: look the address up, apply drawn faults
    Default,
    Refuse,
    Hang,
    /// complete only when the scenario says so (`complete_dial`)
    Manual,
    OkAfter(Duration),
    ErrAfter(Duration),
}

/// How a connection authenticates (C05).
#[derive(Clone, Copy, Debug, PartialEq)]
pub enum Auth {
    Honest,
    OtherPeer,
    LocalPeer,
}

pub enum TEvent {
    NewAddress { id: ListenerId, addr: Multiaddr },
    AddressExpired { id: ListenerId, addr: Multiaddr },
    ListenerClosed { id: ListenerId, reason: Result<(), io::Error> },
    ListenerError { id: ListenerId, err: io::Error },
    Incoming { id: ListenerId, conn: usize, local_addr: Multiaddr, send_back_addr: Multiaddr },
}

pub struct NodeNet {
    pub peer: PeerId,
    pub events: VecDeque<TEvent>,
    pub waker: Option<Waker>,
    pub listeners: BTreeMap<u64, (ListenerId, Vec<Multiaddr>)>,
    pub next_port: u16,
    pub next_listener_key: u64,
}

#[derive(Debug, Clone)]
pub struct DialRec {
    pub node: usize,
    pub addr: Multiaddr,
    pub created_seq: u64,
    pub first_poll: Option<(u64, Duration)>,
    pub done: Option<(u64, bool)>,
    pub conn: Option<usize>,
    pub dropped_unfinished: bool,
}

pub struct ConnShared {
    pub id: usize,
    pub nodes: [usize; 2],
    /// substreams opened by side s waiting to be accepted by side 1-s: inbound[1-s]
    pub inbound: [VecDeque<End>; 2],
    pub wakers: [Vec<Waker>; 2],
    /// side called poll_close or was dropped
    pub closed: [bool; 2],
    pub close_polled: [bool; 2],
    pub dropped: [bool; 2],
    pub error: Option<io::ErrorKind>,
    pub streams: Vec<Ctl>,
    pub opened: [usize; 2],
    /// identity each side is told the other has
    pub claimed: [PeerId; 2],
    /// address changes the muxer of side s still has to report (StreamMuxerEvent::AddressChange, as QUIC does on migration)
    pub addr_changes: [VecDeque<Multiaddr>; 2],
}

impl ConnShared {
    fn wake_all(&mut self) {
        for s in 0..2 {
            for w in self.wakers[s].drain(..) {
                w.wake();
            }
        }
    }
    fn kill_streams(&mut self) {
        for c in self.streams.drain(..) {
            c.reset();
        }
    }
}

pub struct Net {
    pub nodes: Vec<NodeNet>,
    pub dials: Vec<DialRec>,
    pub dial_wakers: BTreeMap<usize, Waker>,
    pub manual_result: BTreeMap<usize, bool>,
    pub conns: Vec<Arc<Mutex<ConnShared>>>,
    pub scripts: BTreeMap<String, Script>,
    /// script for addresses without an entry in `scripts`
    pub default_script: Script,
    /// dial-time network faults (refuse/hang/late, upgrade failures) enabled
    pub faults: bool,
    /// per-mille rate at which a freshly opened substream is reset at once (its negotiation fails with an I/O error while
    /// the connection stays up, as with a QUIC/WebRTC stream reset)
    pub stream_reset_permille: u32,
    /// identity faults (C05) per-mille
    pub auth_fault_permille: u32,
    pub forced_auth: VecDeque<Auth>,
    pub auth_log: Vec<(usize, usize, Auth, PeerId)>, // (conn, side that was lied to, kind, claimed)
    /// when set, every hanging dial / inbound upgrade fails instead (faults have stopped)
    pub hangs_released: bool,
    pub upgrade_wakers: Vec<Waker>,
    /// scheduler units of the tasks each node's Swarm spawned (pending + established connection tasks)
    pub tasks: BTreeMap<usize, Vec<UnitId>>,
}

thread_local! {
    static NET: RefCell<Net> = RefCell::new(Net::new());
}

impl Net {
    fn new() -> Self {
        Net {
            nodes: vec![],
            dials: vec![],
            dial_wakers: BTreeMap::new(),
            manual_result: BTreeMap::new(),
            conns: vec![],
            scripts: BTreeMap::new(),
            default_script: Script::Default,
            faults: true,
            stream_reset_permille: 0,
            auth_fault_permille: 0,
            forced_auth: VecDeque::new(),
            auth_log: vec![],
            hangs_released: false,
            upgrade_wakers: vec![],
            tasks: BTreeMap::new(),
        }
    }
}

pub fn with_net<R>(f: impl FnOnce(&mut Net) -> R) -> R {
    NET.with(|n| f(&mut n.borrow_mut()))
}

pub fn reset() {
    let old = NET.with(|n| std::mem::replace(&mut *n.borrow_mut(), Net::new()));
    drop(old);
}

pub fn add_node(peer: PeerId) -> usize {
    with_net(|n| {
        n.nodes.push(NodeNet { peer, events: VecDeque::new(), waker: None, listeners: BTreeMap::new(), next_port: 50_000, next_listener_key: 0 });
        n.nodes.len() - 1
    })
}

pub fn node_ip(node: usize) -> String {
    format!("10.0.{}.{}", node / 200, 1 + node % 200)
}

pub fn node_addr(node: usize, port: u16) -> Multiaddr {
    format!("/ip4/{}/tcp/{port}", node_ip(node)).parse().unwrap()
}

fn key_of(addr: &Multiaddr) -> String {
    let mut a = addr.clone();
    if let Some(Protocol::P2p(_)) = a.iter().last() {
        a.pop();
    }
    a.to_string()
}

pub fn script(addr: &Multiaddr, s: Script) {
    with_net(|n| {
        n.scripts.insert(key_of(addr), s);
    })
}

/// Emit a listener event on a node's transport (scripted transports for C12).
pub fn emit(node: usize, ev: TEvent) {
    let w = with_net(|n| {
        n.nodes[node].events.push_back(ev);
        n.nodes[node].waker.take()
    });
    if let Some(w) = w {
        w.wake()
    }
}

/// In-flight manual dials (first polled, not completed).
pub fn manual_pending() -> Vec<usize> {
    with_net(|n| n.dials.iter().enumerate().filter(|(i, d)| d.first_poll.is_some() && d.done.is_none() && !d.dropped_unfinished && n.scripts.get(&key_of(&d.addr)) == Some(&Script::Manual) && !n.manual_result.contains_key(i)).map(|(i, _)| i).collect())
}

pub fn complete_dial(rec: usize, ok: bool) {
    let w = with_net(|n| {
        n.manual_result.insert(rec, ok);
        n.dial_wakers.remove(&rec)
    });
    if let Some(w) = w {
        w.wake()
    }
}

/// Faults stop: whatever was made to hang now fails, so that every pending connection resolves.
pub fn release_hangs() {
    let ws = with_net(|n| {
        n.hangs_released = true;
        n.faults = false;
        n.auth_fault_permille = 0;
        let mut ws: Vec<Waker> = n.dial_wakers.values().cloned().collect();
        ws.append(&mut n.upgrade_wakers);
        ws
    });
    for w in ws {
        w.wake();
    }
}

/// Inject a connection reset on an established physical connection.
pub fn reset_conn(conn: usize) {
    let c = with_net(|n| n.conns[conn].clone());
    let mut c = c.lock().unwrap();
    c.error = Some(io::ErrorKind::ConnectionReset);
    c.kill_streams();
    c.wake_all();
}

/// Make the muxer on `side` of connection `conn` report a new remote address.
pub fn change_address(conn: usize, side: usize, addr: Multiaddr) {
    let c = with_net(|n| n.conns[conn].clone());
    let mut c = c.lock().unwrap();
    c.addr_changes[side].push_back(addr);
    c.wake_all();
}

pub fn conn_count() -> usize {
    with_net(|n| n.conns.len())
}

pub fn conn(conn: usize) -> Arc<Mutex<ConnShared>> {
    with_net(|n| n.conns[conn].clone())
}

// ---------------------------------------------------------------------------------------------

pub struct SimTransport {
    pub node: usize,
}

type Out = (PeerId, StreamMuxerBox);

fn draw_auth() -> Auth {
    let forced = with_net(|n| n.forced_auth.pop_front());
    if let Some(a) = forced {
        return a;
    }
    let rate = with_net(|n| n.auth_fault_permille);
    if rate > 0 && chance(rate) {
        let a = if choose(2) == 0 { Auth::OtherPeer } else { Auth::LocalPeer };
        fired(if a == Auth::OtherPeer { "auth_as_other_peer" } else { "auth_as_local_peer" });
        a
    } else {
        Auth::Honest
    }
}

struct DialFut {
    rec: usize,
    node: usize,
    addr: Multiaddr,
    ready_at: Option<Duration>,
    outcome: Option<Result<(), io::ErrorKind>>,
    conn: Option<usize>,
    finished: bool,
}

fn schedule_wake(delay: Duration, w: Waker) {
    schedule(delay, move || w.wake());
}

impl Future for DialFut {
    type Output = Result<Out, io::Error>;
    fn poll(mut self: Pin<&mut Self>, cx: &mut Context<'_>) -> Poll<Self::Output> {
        let this = &mut *self;
        let first = with_net(|n| n.dials[this.rec].first_poll.is_none());
        if first {
            let seq = next_seq();
            with_net(|n| n.dials[this.rec].first_poll = Some((seq, elapsed())));
            trace!("n{} transport dial #{} {} first polled", this.node, this.rec, this.addr);
            let sc = with_net(|n| n.scripts.get(&key_of(&this.addr)).cloned().unwrap_or(n.default_script.clone()));
            match sc {
                Script::Refuse => this.outcome = Some(Err(io::ErrorKind::ConnectionRefused)),
                Script::Hang => {}
                Script::Manual => {}
                Script::OkAfter(d) => {
                    this.ready_at = Some(now() + d);
                    this.outcome = Some(Ok(()));
                }
                Script::ErrAfter(d) => {
                    this.ready_at = Some(now() + d);
                    this.outcome = Some(Err(io::ErrorKind::TimedOut));
                }
                Script::Default => {
                    let faults = with_net(|n| n.faults);
                    if faults && fault("dial_refused", 60) {
                        this.outcome = Some(Err(io::ErrorKind::ConnectionRefused));
                    } else if faults && fault("dial_hangs", 25) {
                        // never resolves
                    } else {
                        if faults && fault("dial_late", 80) {
                            this.ready_at = Some(now() + Duration::from_millis(1 + choose(3000) as u64));
                        }
                        this.outcome = Some(Ok(()));
                    }
                }
            }
            if let Some(t) = this.ready_at {
                schedule_wake(t.saturating_sub(now()), cx.waker().clone());
            }
        }
        // manual completion
        if this.outcome.is_none() {
            if let Some(ok) = with_net(|n| n.manual_result.get(&this.rec).copied()) {
                this.outcome = Some(if ok { Ok(()) } else { Err(io::ErrorKind::ConnectionRefused) });
            }
        }
        if this.outcome.is_none() && with_net(|n| n.hangs_released) {
            this.outcome = Some(Err(io::ErrorKind::TimedOut));
        }
        let Some(outcome) = this.outcome else {
            with_net(|n| n.dial_wakers.insert(this.rec, cx.waker().clone()));
            return Poll::Pending;
        };
        if let Some(t) = this.ready_at {
            if now() < t {
                return Poll::Pending;
            }
        }
        this.finished = true;
        let seq = next_seq();
        match outcome {
            Err(k) => {
                with_net(|n| n.dials[this.rec].done = Some((seq, false)));
                trace!("n{} transport dial #{} {} -> {:?}", this.node, this.rec, this.addr, k);
                Poll::Ready(Err(k.into()))
            }
            Ok(()) => {
                // who listens there?
                let target = with_net(|n| {
                    let k = key_of(&this.addr);
                    n.nodes.iter().enumerate().find_map(|(i, nd)| nd.listeners.values().find(|(_, addrs)| addrs.iter().any(|a| a.to_string() == k)).map(|(id, _)| (i, *id)))
                });
                let Some((tnode, lid)) = target else {
                    with_net(|n| n.dials[this.rec].done = Some((seq, false)));
                    trace!("n{} transport dial #{} {} -> unreachable", this.node, this.rec, this.addr);
                    return Poll::Ready(Err(io::ErrorKind::ConnectionRefused.into()));
                };
                // identities
                let (me, them) = with_net(|n| (n.nodes[this.node].peer, n.nodes[tnode].peer));
                let a_out = draw_auth();
                let claimed_to_dialer = match a_out {
                    Auth::Honest => them,
                    Auth::OtherPeer => PeerId::random(),
                    Auth::LocalPeer => me,
                };
                let a_in = draw_auth();
                let claimed_to_listener = match a_in {
                    Auth::Honest => me,
                    Auth::OtherPeer => PeerId::random(),
                    Auth::LocalPeer => them,
                };
                let conn_id = with_net(|n| {
                    let id = n.conns.len();
                    n.conns.push(Arc::new(Mutex::new(ConnShared {
                        id,
                        nodes: [this.node, tnode],
                        inbound: [VecDeque::new(), VecDeque::new()],
                        wakers: [vec![], vec![]],
                        closed: [false, false],
                        close_polled: [false, false],
                        dropped: [false, false],
                        error: None,
                        streams: vec![],
                        opened: [0, 0],
                        claimed: [claimed_to_dialer, claimed_to_listener],
                        addr_changes: Default::default(),
                    })));
                    if a_out != Auth::Honest {
                        n.auth_log.push((id, 0, a_out, claimed_to_dialer));
                    }
                    if a_in != Auth::Honest {
                        n.auth_log.push((id, 1, a_in, claimed_to_listener));
                    }
                    n.dials[this.rec].done = Some((seq, true));
                    n.dials[this.rec].conn = Some(id);
                    id
                });
                this.conn = Some(conn_id);
                let port = with_net(|n| {
                    let p = n.nodes[this.node].next_port;
                    n.nodes[this.node].next_port += 1;
                    p
                });
                let local_addr: Multiaddr = key_of(&this.addr).parse().unwrap();
                emit(tnode, TEvent::Incoming { id: lid, conn: conn_id, local_addr, send_back_addr: node_addr(this.node, port) });
                trace!("n{} transport dial #{} {} -> connected (conn {conn_id} to n{tnode}), auth {:?}/{:?}", this.node, this.rec, this.addr, a_out, a_in);
                let shared = with_net(|n| n.conns[conn_id].clone());
                Poll::Ready(Ok((claimed_to_dialer, StreamMuxerBox::new(SimMuxer { shared, side: 0 }))))
            }
        }
    }
}

impl Drop for DialFut {
    fn drop(&mut self) {
        if !self.finished {
            let _ = NET.try_with(|n| {
                if let Ok(mut n) = n.try_borrow_mut() {
                    if let Some(d) = n.dials.get_mut(self.rec) {
                        d.dropped_unfinished = true;
                    }
                    n.dial_wakers.remove(&self.rec);
                }
            });
        }
    }
}

struct UpgradeFut {
    conn: usize,
    decided: Option<Result<(), io::ErrorKind>>,
    hang: bool,
}

impl Future for UpgradeFut {
    type Output = Result<Out, io::Error>;
    fn poll(mut self: Pin<&mut Self>, cx: &mut Context<'_>) -> Poll<Self::Output> {
        if self.hang {
            if with_net(|n| n.hangs_released) {
                self.hang = false;
                self.decided = Some(Err(io::ErrorKind::TimedOut));
            } else {
                with_net(|n| n.upgrade_wakers.push(cx.waker().clone()));
                return Poll::Pending;
            }
        }
        if self.decided.is_none() {
            let faults = with_net(|n| n.faults);
            if faults && fault("inbound_upgrade_fails", 50) {
                self.decided = Some(Err(io::ErrorKind::InvalidData));
            } else if faults && fault("inbound_upgrade_hangs", 20) {
                self.hang = true;
                with_net(|n| n.upgrade_wakers.push(cx.waker().clone()));
                return Poll::Pending;
            } else {
                self.decided = Some(Ok(()));
            }
        }
        let shared = with_net(|n| n.conns[self.conn].clone());
        match self.decided.unwrap() {
            Err(k) => {
                let mut c = shared.lock().unwrap();
                c.closed[1] = true;
                c.dropped[1] = true;
                c.kill_streams();
                c.wake_all();
                Poll::Ready(Err(k.into()))
            }
            Ok(()) => {
                let claimed = shared.lock().unwrap().claimed[1];
                Poll::Ready(Ok((claimed, StreamMuxerBox::new(SimMuxer { shared, side: 1 }))))
            }
        }
    }
}

impl Drop for UpgradeFut {
    fn drop(&mut self) {
        // an abandoned inbound upgrade means the listener side of the connection is gone
        if self.decided != Some(Ok(())) {
            let _ = NET.try_with(|n| {
                if let Ok(n) = n.try_borrow() {
                    if let Some(c) = n.conns.get(self.conn) {
                        if let Ok(mut c) = c.lock() {
                            c.closed[1] = true;
                            c.dropped[1] = true;
                            c.kill_streams();
                            c.wake_all();
                        }
                    }
                }
            });
        }
    }
}

impl Transport for SimTransport {
    type Output = Out;
    type Error = io::Error;
    type ListenerUpgrade = BoxFuture<'static, Result<Out, io::Error>>;
    type Dial = BoxFuture<'static, Result<Out, io::Error>>;

    fn listen_on(&mut self, id: ListenerId, addr: Multiaddr) -> Result<(), TransportError<Self::Error>> {
        if !matches!(addr.iter().next(), Some(Protocol::Ip4(_)) | Some(Protocol::Ip6(_)) | Some(Protocol::Memory(_))) {
            return Err(TransportError::MultiaddrNotSupported(addr));
        }
        let node = self.node;
        with_net(|n| {
            let k = n.nodes[node].next_listener_key;
            n.nodes[node].next_listener_key += 1;
            n.nodes[node].listeners.insert(k, (id, vec![addr.clone()]));
        });
        emit(node, TEvent::NewAddress { id, addr });
        Ok(())
    }

    fn remove_listener(&mut self, id: ListenerId) -> bool {
        let node = self.node;
        let found = with_net(|n| {
            let k = n.nodes[node].listeners.iter().find(|(_, (lid, _))| *lid == id).map(|(k, _)| *k);
            match k {
                Some(k) => {
                    n.nodes[node].listeners.remove(&k);
                    true
                }
                None => false,
            }
        });
        if found {
            emit(node, TEvent::ListenerClosed { id, reason: Ok(()) });
        }
        found
    }

    fn dial(&mut self, addr: Multiaddr, _opts: DialOpts) -> Result<Self::Dial, TransportError<Self::Error>> {
        if matches!(addr.iter().next(), Some(Protocol::Unix(_))) {
            return Err(TransportError::MultiaddrNotSupported(addr));
        }
        let seq = next_seq();
        let node = self.node;
        let rec = with_net(|n| {
            n.dials.push(DialRec { node, addr: addr.clone(), created_seq: seq, first_poll: None, done: None, conn: None, dropped_unfinished: false });
            n.dials.len() - 1
        });
        Ok(Box::pin(DialFut { rec, node, addr, ready_at: None, outcome: None, conn: None, finished: false }))
    }

    fn poll(self: Pin<&mut Self>, cx: &mut Context<'_>) -> Poll<TransportEvent<Self::ListenerUpgrade, Self::Error>> {
        let node = self.node;
        let ev = with_net(|n| {
            let e = n.nodes[node].events.pop_front();
            if e.is_none() {
                n.nodes[node].waker = Some(cx.waker().clone());
            }
            e
        });
        match ev {
            None => Poll::Pending,
            Some(TEvent::NewAddress { id, addr }) => {
                with_net(|n| {
                    if let Some((_, (_, addrs))) = n.nodes[node].listeners.iter_mut().find(|(_, (lid, _))| *lid == id) {
                        if !addrs.contains(&addr) {
                            addrs.push(addr.clone());
                        }
                    }
                });
                Poll::Ready(TransportEvent::NewAddress { listener_id: id, listen_addr: addr })
            }
            Some(TEvent::AddressExpired { id, addr }) => {
                with_net(|n| {
                    if let Some((_, (_, addrs))) = n.nodes[node].listeners.iter_mut().find(|(_, (lid, _))| *lid == id) {
                        addrs.retain(|a| a != &addr);
                    }
                });
                Poll::Ready(TransportEvent::AddressExpired { listener_id: id, listen_addr: addr })
            }
            Some(TEvent::ListenerClosed { id, reason }) => {
                with_net(|n| {
                    n.nodes[node].listeners.retain(|_, (lid, _)| *lid != id);
                });
                Poll::Ready(TransportEvent::ListenerClosed { listener_id: id, reason })
            }
            Some(TEvent::ListenerError { id, err }) => Poll::Ready(TransportEvent::ListenerError { listener_id: id, error: err }),
            Some(TEvent::Incoming { id, conn, local_addr, send_back_addr }) => Poll::Ready(TransportEvent::Incoming {
                listener_id: id,
                upgrade: Box::pin(UpgradeFut { conn, decided: None, hang: false }),
                local_addr,
                send_back_addr,
            }),
        }
    }
}

// ---------------------------------------------------------------------------------------------

pub struct SimMuxer {
    pub shared: Arc<Mutex<ConnShared>>,
    pub side: usize,
}

impl SimMuxer {
    fn check(&self, c: &ConnShared) -> io::Result<()> {
        if let Some(e) = c.error {
            return Err(e.into());
        }
        if c.closed[self.side] {
            return Err(io::Error::new(io::ErrorKind::NotConnected, "muxer closed locally"));
        }
        if c.closed[1 - self.side] {
            return Err(io::Error::new(io::ErrorKind::UnexpectedEof, "remote closed the connection"));
        }
        Ok(())
    }
}

impl StreamMuxer for SimMuxer {
    type Substream = End;
    type Error = io::Error;

    fn poll_inbound(self: Pin<&mut Self>, cx: &mut Context<'_>) -> Poll<Result<End, io::Error>> {
        let mut c = self.shared.lock().unwrap();
        let side = self.side;
        if let Some(s) = c.inbound[side].pop_front() {
            return Poll::Ready(Ok(s));
        }
        self.check(&c)?;
        c.wakers[side].clear();
        c.wakers[side].push(cx.waker().clone());
        Poll::Pending
    }

    fn poll_outbound(self: Pin<&mut Self>, _cx: &mut Context<'_>) -> Poll<Result<End, io::Error>> {
        let side = self.side;
        let mut c = self.shared.lock().unwrap();
        self.check(&c)?;
        // multistream-select needs one negotiation flight of buffer per direction
        let (mine, theirs) = pipe::pair_cfg(PipeCfg::draw_min_cap(64 * 1024), PipeCfg::draw_min_cap(64 * 1024));
        let rate = with_net(|n| n.stream_reset_permille);
        if rate > 0 && fault("substream_reset_at_open", rate) {
            mine.ctl().reset();
        }
        c.streams.push(mine.ctl());
        c.opened[side] += 1;
        c.inbound[1 - side].push_back(theirs);
        for w in c.wakers[1 - side].drain(..) {
            w.wake();
        }
        Poll::Ready(Ok(mine))
    }

    fn poll_close(self: Pin<&mut Self>, _cx: &mut Context<'_>) -> Poll<Result<(), io::Error>> {
        let side = self.side;
        let mut c = self.shared.lock().unwrap();
        c.close_polled[side] = true;
        if !c.closed[side] {
            c.closed[side] = true;
            c.kill_streams();
            c.wake_all();
        }
        Poll::Ready(Ok(()))
    }

    fn poll(self: Pin<&mut Self>, cx: &mut Context<'_>) -> Poll<Result<StreamMuxerEvent, io::Error>> {
        let mut c = self.shared.lock().unwrap();
        self.check(&c)?;
        let side = self.side;
        if let Some(a) = c.addr_changes[side].pop_front() {
            return Poll::Ready(Ok(StreamMuxerEvent::AddressChange(a)));
        }
        c.wakers[side].clear();
        c.wakers[side].push(cx.waker().clone());
        Poll::Pending
    }
}

impl Drop for SimMuxer {
    fn drop(&mut self) {
        if let Ok(mut c) = self.shared.lock() {
            let side = self.side;
            c.dropped[side] = true;
            if !c.closed[side] {
                c.closed[side] = true;
                c.kill_streams();
                c.wake_all();
            }
        }
    }
}

/// `libp2p_swarm::Executor` seam: tasks become simulator units.
pub struct SimExecutor {
    pub node: usize,
}

impl libp2p_swarm::Executor for SimExecutor {
    fn exec(&self, future: Pin<Box<dyn Future<Output = ()> + Send>>) {
        let u = spawn_boxed(format!("n{}-task", self.node), future);
        with_net(|n| n.tasks.entry(self.node).or_default().push(u));
    }
}
