//! E2 composites with real behaviours: C52 (connection-limits), C53 (allow/block lists),
//! C54 (peer store).

use crate::net::{self, Script};
use crate::node::*;
use crate::probe::*;
use libp2p_allow_block_list as abl;
use libp2p_connection_limits as cl;
use libp2p_core::multiaddr::Multiaddr;
use libp2p_identity::PeerId;
use libp2p_peer_store as ps;
use libp2p_swarm::dial_opts::{DialOpts, PeerCondition};
use libp2p_swarm::{NetworkBehaviour, Swarm};
use simkit::*;
use std::cell::RefCell;
use std::collections::{BTreeMap, BTreeSet};
use std::num::NonZeroUsize;
use std::rc::Rc;
use std::time::Duration;

const STUB: &[&str] = &["transport/security/muxer -> SimTransport/SimMuxer", "executor, clock -> simulator"];

#[derive(NetworkBehaviour)]
#[behaviour(prelude = "libp2p_swarm::derive_prelude")]
pub struct WithLimits {
    pub p1: Probe,
    pub limits: cl::Behaviour,
}

#[derive(NetworkBehaviour)]
#[behaviour(prelude = "libp2p_swarm::derive_prelude")]
pub struct WithBlock {
    pub p1: Probe,
    pub list: abl::Behaviour<abl::BlockedPeers>,
}

#[derive(NetworkBehaviour)]
#[behaviour(prelude = "libp2p_swarm::derive_prelude")]
pub struct WithAllow {
    pub p1: Probe,
    pub list: abl::Behaviour<abl::AllowedPeers>,
}

#[derive(NetworkBehaviour)]
#[behaviour(prelude = "libp2p_swarm::derive_prelude")]
pub struct WithStore {
    pub p1: Probe,
    pub store: ps::Behaviour<ps::memory_store::MemoryStore>,
}

pub fn checks() -> Vec<Check> {
    vec![
        Check {
            id: "C52",
            title: "Connection limits are never exceeded",
            level: Level::Exploration,
            rule: "3..5 real Swarms whose derived behaviour contains libp2p_connection_limits::Behaviour with small drawn limits (pending in/out, established in/out, per peer, total; each 1..3 or unlimited) and a fixed set of bypassed peers; 30..120 random dials (several per peer, unknown-peer dials, unreachable addresses), disconnects, closes, connection resets, late/hanging dials and failing inbound upgrades. Invariant after every SwarmEvent returned to the application of every node: the reference counts of non-bypassed pending incoming / pending outgoing / established incoming / established outgoing / per-peer / total established connections never exceed the configured limits. Non-trivial = some limit was actually hit (a Denied error caused by the limits behaviour was observed); distinct = fingerprint of (limits, operation and fault kinds)",
            assumptions: &["limits and the bypass set are fixed for the whole run (changing them at run time legitimately leaves existing connections above a lowered limit)"],
            real: &["libp2p_connection_limits::Behaviour", "libp2p_swarm::Swarm + derive composite"],
            stub: STUB,
            scenarios: vec![Scenario::new("limits-churn", 1500, 150_000, limits_churn)],
        },
        Check {
            id: "C53",
            title: "Allow and block lists are enforced",
            level: Level::Exploration,
            rule: "3..4 real Swarms whose derived behaviour contains libp2p_allow_block_list::Behaviour (block-list variant or allow-list variant, per run); 30..100 operations: block/unblock resp. allow/disallow of random peers interleaved with dials in both directions, disconnects and resets, the scheduler running a drawn number of steps in between. Oracle: from the moment block_peer / disallow_peer returns until the change is reverted no ConnectionEstablished for that peer is reported by that node; connections that existed at that moment are closed once the system is quiescent. Non-trivial = a list change hit a peer with an established or pending connection; distinct = fingerprint of the operation sequence",
            assumptions: &[],
            real: &["libp2p_allow_block_list::Behaviour<BlockedPeers|AllowedPeers>", "libp2p_swarm::Swarm + derive composite"],
            stub: STUB,
            scenarios: vec![Scenario::new("block-list", 800, 80_000, block_list), Scenario::new("allow-list", 800, 80_000, allow_list)],
        },
        Check {
            id: "C54",
            title: "The peer store keeps permanent addresses and bounded records",
            level: Level::Exploration,
            rule: "one real Swarm whose derived behaviour contains libp2p_peer_store::Behaviour<MemoryStore>, with 2 reachable peers; 30..120 operations: explicit add_address / remove_address, peer addresses reported through the Swarm (non-permanent), dials to stored and unstored addresses that fail (real DialFailure) or succeed (real ConnectionEstablished with failed addresses), in two regimes: small capacities (peer 1..3, record 1..3: bounds only) and large capacities (no eviction: exact model). Oracle after every step: per-peer address count <= record_capacity, peer count <= peer_capacity; large regime: store contents equal a reference map in which automatic removal never touches an explicitly added address, and the PeerAddressAdded / PeerAddressRemoved events equal, in order, the reference's new insertions and successful explicit/automatic removals. Non-trivial = an automatic removal was attempted on a permanent address, or a capacity bound was reached; distinct = fingerprint of the operation sequence",
            assumptions: &["capacity eviction is silent (no event), as in the implementation's documentation"],
            real: &["libp2p_peer_store::{Behaviour, memory_store::MemoryStore}", "libp2p_swarm::Swarm + derive composite"],
            stub: STUB,
            scenarios: vec![Scenario::new("store-small-capacity", 700, 70_000, store_small), Scenario::new("store-exact", 1000, 100_000, store_exact)],
        },
    ]
}

fn knobs() -> Knobs {
    let mut k = Knobs::draw();
    k.idle_timeout = Duration::from_secs(3600);
    k
}

fn probe1(log: Log) -> Probe {
    let mut c = ProbeCfg::default();
    c.keep_alive = true;
    c.protocols = vec!["/probe/1".into()];
    Probe::new(1, log, c)
}

// =================================================================================================
// C52
// =================================================================================================

#[derive(Clone, Debug)]
struct Limits {
    pin: Option<u32>,
    pout: Option<u32>,
    ein: Option<u32>,
    eout: Option<u32>,
    per_peer: Option<u32>,
    total: Option<u32>,
}

fn limits_churn() -> SimResult {
    begin();
    draw_policy();
    let n = 3 + choose(3);
    let lim = |_: ()| if choose(3) == 0 { None } else { Some(1 + choose(3) as u32) };
    let mut nodes: Vec<Node<WithLimits>> = vec![];
    let mut limits: Vec<Limits> = vec![];
    let hit: Rc<RefCell<u64>> = Default::default();
    for _ in 0..n {
        let l = Limits { pin: lim(()), pout: lim(()), ein: lim(()), eout: lim(()), per_peer: lim(()), total: lim(()) };
        limits.push(l.clone());
        let l2 = l.clone();
        nodes.push(Node::new(
            move |_p, log| WithLimits {
                p1: probe1(log),
                limits: cl::Behaviour::new(
                    cl::ConnectionLimits::default()
                        .with_max_pending_incoming(l2.pin)
                        .with_max_pending_outgoing(l2.pout)
                        .with_max_established_incoming(l2.ein)
                        .with_max_established_outgoing(l2.eout)
                        .with_max_established_per_peer(l2.per_peer)
                        .with_max_established(l2.total),
                ),
            },
            &knobs(),
            None,
        ));
    }
    let peers: Vec<PeerId> = nodes.iter().map(|x| x.peer).collect();
    let addrs: Vec<Multiaddr> = nodes.iter().map(|x| x.listen()).collect();
    // bypass sets, fixed for the run
    let mut bypass: Vec<BTreeSet<PeerId>> = vec![];
    for nd in &nodes {
        let mut b = BTreeSet::new();
        if choose(3) == 0 {
            let p = peers[choose(n)];
            if p != nd.peer {
                nd.swarm.borrow_mut().behaviour_mut().limits.bypass_peer_id(&p);
                b.insert(p);
            }
        }
        bypass.push(b);
    }
    run_until_idle();
    let nops = 30 + choose(90);
    let check = |nodes: &Vec<Node<WithLimits>>| -> SimResult {
        for (i, nd) in nodes.iter().enumerate() {
            let m = nd.model.borrow();
            let l = &limits[i];
            let byp = &bypass[i];
            let pout = m.pending_out.values().filter(|p| p.map(|p| !byp.contains(&p)).unwrap_or(true)).count() as u32;
            let pin = m.pending_in.len() as u32;
            let ein = m.established.values().filter(|(p, o)| !*o && !byp.contains(p)).count() as u32;
            let eout = m.established.values().filter(|(p, o)| *o && !byp.contains(p)).count() as u32;
            let ctx = || format!("n{i} limits {l:?} bypass {}: pending_in={pin} pending_out={pout} est_in={ein} est_out={eout}", byp.len());
            if let Some(x) = l.pin {
                ensure!(pin <= x, "C52/pending-incoming", "{}", ctx());
            }
            if let Some(x) = l.pout {
                ensure!(pout <= x, "C52/pending-outgoing", "{}", ctx());
            }
            if let Some(x) = l.ein {
                ensure!(ein <= x, "C52/established-incoming", "{}", ctx());
            }
            if let Some(x) = l.eout {
                ensure!(eout <= x, "C52/established-outgoing", "{}", ctx());
            }
            if let Some(x) = l.total {
                ensure!(ein + eout <= x, "C52/established-total", "{}", ctx());
            }
            if let Some(x) = l.per_peer {
                for p in m.peers() {
                    if !byp.contains(&p) {
                        ensure!(m.count_peer(&p) as u32 <= x, "C52/established-per-peer", "{}: {} connections to {p}", ctx(), m.count_peer(&p));
                    }
                }
            }
        }
        Ok(())
    };
    for _ in 0..nops {
        if violated() {
            break;
        }
        let a = choose(n);
        let b = (a + 1 + choose(n - 1)) % n;
        let op = choose(10);
        note_val("op", op as u64);
        match op {
            0..=4 => {
                let _ = nodes[a].dial(DialOpts::peer_id(peers[b]).condition(PeerCondition::Always).addresses(vec![addrs[b].clone()]).build());
            }
            5 => {
                let _ = nodes[a].dial(DialOpts::unknown_peer_id().address(addrs[b].clone()).build());
            }
            6 => {
                let _ = nodes[a].swarm.borrow_mut().disconnect_peer_id(peers[b]);
                nodes[a].kick();
            }
            7 => {
                if profile() != Profile::None && net::conn_count() > 0 {
                    net::reset_conn(choose(net::conn_count()));
                    fired("conn_reset");
                }
            }
            8 => advance(Duration::from_millis([1u64, 500, 4000][choose(3)])),
            _ => {}
        }
        // the invariant must hold after every returned event: check between single steps
        for _ in 0..choose(30) {
            if !step() {
                break;
            }
            check(&nodes)?;
        }
    }
    net::release_hangs();
    settle(Duration::from_secs(30));
    check(&nodes)?;
    // was a limit actually hit?
    for nd in &nodes {
        for (_, e) in nd.events.borrow().iter() {
            if matches!(e, Ev::OutgoingError { kind, .. } | Ev::IncomingError { kind, .. } if kind == "Denied") || matches!(e, Ev::AppDial { result: Err(k), .. } if k == "Denied") {
                *hit.borrow_mut() += 1;
            }
        }
    }
    if *hit.borrow() > 0 {
        mark_nontrivial();
        probe("limit_hit");
    }
    set_sample(|| format!("{n} nodes, limits {limits:?}, {} denials by limits", hit.borrow()));
    Ok(())
}

// =================================================================================================
// C53
// =================================================================================================

trait ListOps {
    fn restrict(&mut self, p: PeerId) -> bool;
    fn lift(&mut self, p: PeerId) -> bool;
}
impl ListOps for WithBlock {
    fn restrict(&mut self, p: PeerId) -> bool {
        self.list.block_peer(p)
    }
    fn lift(&mut self, p: PeerId) -> bool {
        self.list.unblock_peer(p)
    }
}
impl ListOps for WithAllow {
    fn restrict(&mut self, p: PeerId) -> bool {
        self.list.disallow_peer(p)
    }
    fn lift(&mut self, p: PeerId) -> bool {
        self.list.allow_peer(p)
    }
}

fn block_list() -> SimResult {
    list_scenario::<WithBlock>(|_p, log| WithBlock { p1: probe1(log), list: Default::default() }, false)
}

fn allow_list() -> SimResult {
    list_scenario::<WithAllow>(|_p, log| WithAllow { p1: probe1(log), list: Default::default() }, true)
}

fn list_scenario<B>(mk: fn(PeerId, Log) -> B, initially_restricted: bool) -> SimResult
where
    B: NetworkBehaviour + ListOps + 'static,
    B::ToSwarm: std::fmt::Debug,
{
    begin();
    draw_policy();
    let n = 3 + choose(2);
    let nodes: Vec<Node<B>> = (0..n).map(|_| Node::new(mk, &knobs(), None)).collect();
    let peers: Vec<PeerId> = nodes.iter().map(|x| x.peer).collect();
    let addrs: Vec<Multiaddr> = nodes.iter().map(|x| x.listen()).collect();
    // restricted[i] = peers node i currently refuses
    let mut restricted: Vec<BTreeSet<PeerId>> = vec![BTreeSet::new(); n];
    if initially_restricted {
        // allow-list: everything is refused until allowed; allow most peers up front
        for i in 0..n {
            for j in 0..n {
                if i != j {
                    if choose(4) != 0 {
                        nodes[i].swarm.borrow_mut().behaviour_mut().lift(peers[j]);
                    } else {
                        restricted[i].insert(peers[j]);
                    }
                }
            }
        }
    }
    run_until_idle();
    // (node, peer, seq at which the restriction took effect, seq at which it was lifted)
    let mut windows: Vec<(usize, PeerId, u64, Option<u64>)> = vec![];
    for i in 0..n {
        for p in restricted[i].clone() {
            windows.push((i, p, 0, None));
        }
    }
    let mut hit = false;
    // connections whose establishment had been reported when their peer became restricted: they have to be closed, even if
    // the restriction is lifted again right away
    let mut doomed: Vec<(usize, libp2p_swarm::ConnectionId, PeerId)> = vec![];
    let nops = 30 + choose(70);
    for _ in 0..nops {
        if violated() {
            break;
        }
        let a = choose(n);
        let b = (a + 1 + choose(n - 1)) % n;
        let op = choose(9);
        note_val("op", op as u64);
        match op {
            0..=3 => {
                let _ = nodes[a].dial(DialOpts::peer_id(peers[b]).condition(PeerCondition::Always).addresses(vec![addrs[b].clone()]).build());
            }
            4 => {
                let _ = nodes[a].dial(DialOpts::unknown_peer_id().address(addrs[b].clone()).build());
            }
            5 | 6 => {
                if !restricted[a].contains(&peers[b]) {
                    let busy = nodes[a].model.borrow().count_peer(&peers[b]) > 0 || nodes[a].model.borrow().is_dialing(&peers[b]);
                    let r = nodes[a].swarm.borrow_mut().behaviour_mut().restrict(peers[b]);
                    let seq = next_seq();
                    if r {
                        restricted[a].insert(peers[b]);
                        windows.push((a, peers[b], seq, None));
                        if busy {
                            hit = true;
                            probe("restricted_peer_had_connection");
                        }
                        for (id, (q, _)) in nodes[a].model.borrow().established.iter() {
                            if *q == peers[b] {
                                doomed.push((a, *id, *q));
                            }
                        }
                        if choose(4) == 0 {
                            // change of mind before the Swarm was polled again
                            let seq = next_seq();
                            nodes[a].swarm.borrow_mut().behaviour_mut().lift(peers[b]);
                            restricted[a].remove(&peers[b]);
                            for w in windows.iter_mut() {
                                if w.0 == a && w.1 == peers[b] && w.3.is_none() {
                                    w.3 = Some(seq);
                                }
                            }
                            probe("restricted_and_lifted_between_polls");
                        }
                    }
                    nodes[a].kick();
                    note("restrict");
                }
            }
            7 => {
                if restricted[a].contains(&peers[b]) {
                    let seq = next_seq();
                    nodes[a].swarm.borrow_mut().behaviour_mut().lift(peers[b]);
                    restricted[a].remove(&peers[b]);
                    for w in windows.iter_mut() {
                        if w.0 == a && w.1 == peers[b] && w.3.is_none() {
                            w.3 = Some(seq);
                        }
                    }
                    nodes[a].kick();
                    note("lift");
                }
            }
            _ => {
                if profile() != Profile::None && net::conn_count() > 0 {
                    net::reset_conn(choose(net::conn_count()));
                    fired("conn_reset");
                }
            }
        }
        run_steps(choose(25));
    }
    net::release_hangs();
    settle(Duration::from_secs(30));
    if violated() {
        return Ok(());
    }
    for (i, p, from, to) in &windows {
        let evs = nodes[*i].events.borrow();
        for (seq, e) in evs.iter() {
            if let Ev::Established { peer, id, .. } = e {
                if peer == p && seq > from && to.map(|t| *seq < t).unwrap_or(true) {
                    return Err(violation!("C53/established-while-restricted", "n{i}: connection {id} to {p} was reported established although the peer was blocked / not allowed at that time (restriction effective from seq {from}, lifted {to:?}, event seq {seq})"));
                }
            }
        }
        if to.is_none() {
            ensure!(nodes[*i].model.borrow().count_peer(p) == 0, "C53/connection-survived", "n{i}: peer {p} is blocked / not allowed, the system is quiescent, but {} connection(s) to it are still established", nodes[*i].model.borrow().count_peer(p));
        }
    }
    for (i, id, p) in &doomed {
        ensure!(nodes[*i].model.borrow().closed.contains_key(id), "C53/existing-connection-not-closed", "n{i}: connection {id} to {p} was established when {p} became blocked / disallowed, and it was never closed");
    }
    if hit {
        mark_nontrivial();
    }
    set_sample(|| format!("{n} nodes ({}), {} restriction windows, hit-a-live-connection: {hit}", if initially_restricted { "allow-list" } else { "block-list" }, windows.len()));
    Ok(())
}

// =================================================================================================
// C54
// =================================================================================================

fn store_small() -> SimResult {
    store_scenario(true)
}
fn store_exact() -> SimResult {
    store_scenario(false)
}

fn store_scenario(small: bool) -> SimResult {
    begin();
    draw_policy();
    net::with_net(|n| n.faults = false);
    let (pcap, rcap) = if small { (1 + choose(3), 1 + choose(3)) } else { (1000, 1000) };
    let remove_on_err = choose(5) != 0;
    note_val("small", small as u64);
    let cfg = ps::memory_store::Config::default().set_peer_capacity(NonZeroUsize::new(pcap).unwrap()).set_record_capacity(NonZeroUsize::new(rcap).unwrap()).set_remove_addr_on_dial_error(remove_on_err);
    let a: Node<WithStore> = Node::new(move |_p, log| WithStore { p1: probe1(log), store: ps::Behaviour::new(ps::memory_store::MemoryStore::new(cfg)) }, &knobs(), None);
    let t1: Node<WithStore> = Node::new(|_p, log| WithStore { p1: probe1(log), store: ps::Behaviour::new(ps::memory_store::MemoryStore::new(Default::default())) }, &knobs(), None);
    let t2: Node<WithStore> = Node::new(|_p, log| WithStore { p1: probe1(log), store: ps::Behaviour::new(ps::memory_store::MemoryStore::new(Default::default())) }, &knobs(), None);
    a.listen();
    let good = [t1.listen(), t2.listen()];
    let peers = [t1.peer, t2.peer, PeerId::random()];
    let dead: Vec<Multiaddr> = (0..5).map(|i| format!("/ip4/10.8.0.{}/tcp/1", i + 1).parse().unwrap()).collect();
    for d in &dead {
        net::script(d, Script::Refuse);
    }
    run_until_idle();
    // reference (exact regime): peer -> addr -> permanent
    let mut model: BTreeMap<PeerId, BTreeMap<String, bool>> = BTreeMap::new();
    let mut exp_events: Vec<String> = vec![];
    let mut interesting = false;
    let nops = 30 + choose(90);
    let mut sample = vec![];
    let mut consumed_events = 0usize;
    for _ in 0..nops {
        if violated() {
            break;
        }
        let pi = choose(3);
        let p = peers[pi];
        let pool: Vec<Multiaddr> = {
            let mut v = dead.clone();
            if pi < 2 {
                v.push(good[pi].clone());
            }
            v
        };
        let mut ad = pool[choose(pool.len())].clone();
        // half of the time in the form in which dial errors and established connections report it (with /p2p/<peer>)
        if choose(2) == 0 {
            ad = ad.with_p2p(p).unwrap_or_else(|a| a);
        }
        if small && choose(6) == 0 {
            // custom data can create a record as well (for a known or an entirely new peer): the peer bound covers that path too
            let q = if choose(2) == 0 { PeerId::random() } else { p };
            a.swarm.borrow_mut().behaviour_mut().store.store_mut().insert_custom_data(&q, ());
            probe("custom_data_inserted");
        }
        let op = choose(8);
        note_val("op", op as u64);
        let desc;
        match op {
            0 | 1 => {
                let r = a.swarm.borrow_mut().behaviour_mut().store.store_mut().add_address(&p, &ad);
                let e = model.entry(p).or_default();
                let was = e.insert(ad.to_string(), true);
                if !small {
                    ensure!(r == was.is_none(), "C54/add-return", "add_address returned {r} but the address was {}", if was.is_none() { "new" } else { "already stored" });
                    if was.is_none() {
                        exp_events.push(format!("added {p} {ad} permanent=true"));
                    }
                }
                desc = format!("add_address(p{pi},{ad})->{r}");
            }
            2 => {
                let r = a.swarm.borrow_mut().behaviour_mut().store.store_mut().remove_address(&p, &ad);
                let was = model.get_mut(&p).and_then(|m| m.remove(&ad.to_string()));
                if !small {
                    ensure!(r == was.is_some(), "C54/remove-return", "remove_address returned {r} but the address was {}", if was.is_some() { "stored" } else { "not stored" });
                    if was.is_some() {
                        exp_events.push(format!("removed {p} {ad}"));
                    }
                }
                desc = format!("remove_address(p{pi},{ad})->{r}");
            }
            3 | 4 => {
                // reported through the swarm: non-permanent
                a.swarm.borrow_mut().add_peer_address(p, ad.clone());
                let e = model.entry(p).or_default();
                if !e.contains_key(&ad.to_string()) {
                    e.insert(ad.to_string(), false);
                    exp_events.push(format!("added {p} {ad} permanent=false"));
                }
                desc = format!("add_peer_address(p{pi},{ad})");
            }
            5 | 6 => {
                // dial some dead addresses explicitly: DialFailure(Transport) => automatic removal
                let k = 1 + choose(3);
                let ads: Vec<Multiaddr> = (0..k).map(|_| dead[choose(dead.len())].clone()).collect();
                let mut uniq: Vec<Multiaddr> = vec![];
                for x in &ads {
                    if !uniq.contains(x) {
                        uniq.push(x.clone());
                    }
                }
                desc = format!("failing dial(p{pi},{})", uniq.len());
                if a.dial(DialOpts::peer_id(p).condition(PeerCondition::Always).addresses(ads).build()).is_ok() {
                    a.kick();
                    run_until_idle();
                    if remove_on_err {
                        // the store removes non-permanent entries for the failed addresses; the
                        // error carries them with /p2p/<peer> appended, which is how they are compared
                        for x in &uniq {
                            let with = x.clone().with_p2p(p).unwrap();
                            for key in [with.to_string(), x.to_string()] {
                                if let Some(m) = model.get_mut(&p) {
                                    match m.get(&key) {
                                        Some(true) => {
                                            interesting = true; // automatic removal attempted on a permanent address
                                            probe("auto_removal_hit_permanent_address");
                                        }
                                        Some(false) => {
                                            if key == with.to_string() {
                                                m.remove(&key);
                                                exp_events.push(format!("removed {p} {key}"));
                                            }
                                        }
                                        None => {}
                                    }
                                }
                            }
                        }
                    }
                }
            }
            _ => {
                if pi < 2 {
                    desc = format!("good dial(p{pi})");
                    if a.dial(DialOpts::peer_id(p).condition(PeerCondition::Always).addresses(vec![good[pi].clone()]).build()).is_ok() {
                        a.kick();
                        run_until_idle();
                        // the remote address of the new connection is learned (non-permanent)
                        let with = good[pi].clone().with_p2p(p).unwrap().to_string();
                        let e = model.entry(p).or_default();
                        if !e.contains_key(&with) {
                            e.insert(with.clone(), false);
                            exp_events.push(format!("added {p} {with} permanent=false"));
                        }
                        let _ = a.swarm.borrow_mut().disconnect_peer_id(p);
                    }
                } else {
                    continue;
                }
            }
        }
        if sample.len() < 30 {
            sample.push(desc.clone());
        }
        trace!("OP {desc}");
        a.kick();
        run_until_idle();
        // ---- bounds
        let s = a.swarm.borrow();
        let store = s.behaviour().store.store();
        let recs: Vec<(PeerId, Vec<String>)> = store.record_iter().map(|(p, r)| (*p, r.addresses().map(|x| x.to_string()).collect())).collect();
        ensure!(recs.len() <= pcap, "C54/peer-capacity", "after {desc}: {} peers stored, peer_capacity {pcap}", recs.len());
        for (p, l) in &recs {
            ensure!(l.len() <= rcap, "C54/record-capacity", "after {desc}: {} addresses stored for {p}, record_capacity {rcap}", l.len());
        }
        if small && (recs.len() == pcap || recs.iter().any(|(_, l)| l.len() == rcap)) {
            interesting = true;
        }
        if !small {
            // ---- exact contents
            for (p, m) in &model {
                let got: BTreeSet<String> = recs.iter().find(|(q, _)| q == p).map(|(_, l)| l.iter().cloned().collect()).unwrap_or_default();
                let exp: BTreeSet<String> = m.keys().cloned().collect();
                for (addr, perm) in m {
                    if *perm {
                        ensure!(got.contains(addr), "C54/permanent-address-removed", "after {desc}: explicitly added address {addr} of {p} is gone from the store (stored: {got:?})");
                    }
                }
                ensure!(got == exp, "C54/contents", "after {desc}: store holds {got:?} for {p}, reference {exp:?}");
            }
            // ---- events, in order
            let evs = a.events.borrow();
            let got_events: Vec<String> = evs
                .iter()
                .filter_map(|(_, e)| match e {
                    Ev::Behaviour(s) if s.contains("PeerAddressAdded") || s.contains("PeerAddressRemoved") => Some(s.clone()),
                    _ => None,
                })
                .collect();
            for g in got_events.iter().skip(consumed_events) {
                let Some(exp) = exp_events.get(consumed_events) else {
                    return Err(violation!("C54/unexpected-event", "after {desc}: the store emitted {g} but the reference expects no further event"));
                };
                let mut it = exp.split(' ');
                let (kind, peer, addr) = (it.next().unwrap(), it.next().unwrap(), it.next().unwrap());
                let perm = it.next();
                let ok = g.contains(if kind == "added" { "PeerAddressAdded" } else { "PeerAddressRemoved" }) && g.contains(peer) && g.contains(&format!("address: {addr}")) && perm.map(|p| g.contains(&format!("is_permanent: {}", p.trim_start_matches("permanent=")))).unwrap_or(true);
                ensure!(ok, "C54/event-mismatch", "after {desc}: event #{consumed_events} is {g}, the reference expects '{exp}'");
                consumed_events += 1;
            }
            ensure!(consumed_events == exp_events.len(), "C54/missing-event", "after {desc}: the reference expects {} events so far, the store emitted {consumed_events}; next expected: {:?}", exp_events.len(), exp_events.get(consumed_events));
        }
    }
    if interesting {
        mark_nontrivial();
    }
    set_sample(|| format!("capacities peer={pcap} record={rcap} remove_on_dial_error={remove_on_err}: {}", sample.join("; ")));
    Ok(())
}

#[allow(dead_code)]
fn _unused(_: &Swarm<WithStore>) {}
