//! C47 (relay resource limits) and C48 (relay rate limiters).
//! C47: a real relay::Behaviour in a real Swarm; scripted clients speak the hop/stop protocols in raw frames.
use crate::net;
use crate::node::{begin, violated};
use crate::pnode::*;
use crate::script::*;
use libp2p_identity::PeerId;
use libp2p_relay as relay;
use libp2p_swarm::{ConnectionId, SwarmEvent};
use simkit::runner::NO_FAULTS;
use simkit::*;
use std::collections::BTreeMap;
use std::num::NonZeroU32;
use std::sync::{Arc, Mutex};
use std::time::Duration;

pub const HOP: &str = "/libp2p/circuit/relay/0.2.0/hop";
pub const STOP: &str = "/libp2p/circuit/relay/0.2.0/stop";

pub fn checks() -> Vec<Check> {
    vec![
        Check {
            id: "C47",
            title: "Relay resource limits hold",
            level: Level::Exploration,
            rule: "A real relay::Behaviour (limits max_reservations 1..6, per peer 1..3, max_circuits 1..6, per peer 1..3, reservation and circuit durations of seconds, rate limiters off or default) runs in a real Swarm on the simulated network. 2..5 scripted clients with up to 3 connections each send RESERVE and CONNECT requests in raw hop frames (destinations answer the relay's stop request with OK, a refusal, or silence and hold the circuit stream), close connections, have connections reset under them (fault transport_reset) and let virtual time pass (reservation expiry, circuit duration). Two independent views are checked. (1) Ground truth from the clients' side at every quiescent point: reservations whose RESERVE was answered OK, are unexpired and whose connection is open; circuits whose source saw OK, whose destination holds the matching stop stream (found in its inbound log with the connection that carries it), both connections open and the duration not reached - these counts must respect all four limits whatever the relay believes. (2) The relay's own events are folded (ReservationReqAccepted new / ReservationClosed / ReservationTimedOut; CircuitReqAccepted / CircuitClosed) and after every event: active reservations per peer <= max_reservations_per_peer, in total <= max_reservations, circuits involving any one peer (as source or destination) <= max_circuits_per_peer, in total <= max_circuits. Non-trivial = at least one request accepted and one denied with RESOURCE_LIMIT_EXCEEDED",
            assumptions: &["security and muxing are the E2 stubs (the relay protocol runs over SimMuxer substreams negotiated by the real multistream-select)", "clients are scripted (raw frames), so the relay client code is not exercised"],
            real: &["relay::Behaviour + its connection handler (inbound hop, outbound stop, CopyFuture)", "Swarm, connection pool, multistream-select"],
            stub: &["transport/security/muxer -> SimTransport/SimMuxer", "relay clients -> scripted frames", "clock -> virtual"],
            scenarios: vec![Scenario::new("relay-limits", 300, 30_000, relay_limits), Scenario::new("relay-limits-full-stack", 60, 6_000, relay_limits_full)],
        },
        Check {
            id: "C48",
            title: "Relay rate limiters are token buckets",
            level: Level::Exploration,
            rule: "The per-peer and the per-IP limiter (obtained through relay::Config's public builder methods) are driven with seeded request sequences over 3 peers x 3 IPs with non-decreasing timestamps (bursts at one instant, fractions of the interval, pauses of 1..limit+2 whole intervals, idle periods of limit*interval). For every identity (peer resp. IP): any two accepted requests at t_i <= t_j enclose at most limit + floor((t_j - t_i)/interval) accepted requests; a request from an identity that made no request for limit*interval is accepted; the per-IP limiter keys on the address only (requests of different peers from one IP share the budget, the same peer from another IP does not)",
            assumptions: &["timestamps are passed explicitly (the limiter takes `now` as an argument); they are virtual Instants"],
            real: &["relay::behaviour::rate_limiter (GenericRateLimiter, per-peer and per-IP wrappers)"],
            stub: &["clock -> explicit virtual timestamps"],
            scenarios: vec![Scenario::new("rate-limiter", 1500, 200_000, rate_limiter).profiles(NO_FAULTS)],
        },
    ]
}

fn hop_reserve() -> Vec<u8> {
    let mut m = vec![];
    pb_varint(1, 0, &mut m);
    m
}

fn hop_connect(dst: &PeerId) -> Vec<u8> {
    let mut peer = vec![];
    pb_bytes(1, &dst.to_bytes(), &mut peer);
    let mut m = vec![];
    pb_varint(1, 1, &mut m);
    pb_bytes(2, &peer, &mut m);
    m
}

fn stop_status(code: u64) -> Vec<u8> {
    let mut m = vec![];
    pb_varint(1, 1, &mut m);
    pb_varint(4, code, &mut m);
    m
}

/// status code of a HopMessage STATUS reply
fn hop_status(frame: &[u8]) -> Option<u64> {
    let f = pb_parse(frame)?;
    if pb_get_varint(&f, 1)? != 2 {
        return None;
    }
    pb_get_varint(&f, 5)
}

#[derive(Clone)]
struct Pending {
    tag: u64,
    is_res: bool,
    client: usize,
    conn: ConnectionId,
    dst: usize,
    issued: Duration,
}

struct GtCircuit {
    src: usize,
    src_conn: ConnectionId,
    dst: usize,
    dst_conn: ConnectionId,
    issued: Duration,
}

struct Client {
    node: PNode<Script>,
    shared: Shared,
    conns: Vec<ConnectionId>,
}

fn relay_limits() -> SimResult {
    run_relay_limits(Stack::Stub)
}

/// The same workload with the real noise + yamux/mplex stack under every connection.
fn relay_limits_full() -> SimResult {
    run_relay_limits(Stack::draw_full())
}

fn run_relay_limits(stack: Stack) -> SimResult {
    begin();
    crate::full::reset(false);
    draw_policy();
    net::with_net(|n| n.faults = false);
    if profile() != Profile::None && choose(4) == 0 {
        // some substreams die while their protocol is being negotiated; the connection stays up
        net::with_net(|n| n.stream_reset_permille = [50, 200][choose(2)]);
    }
    let max_res = 1 + choose(6);
    let max_res_peer = 1 + choose(3);
    let max_circ = 1 + choose(6);
    let max_circ_peer = 1 + choose(3);
    let res_dur = Duration::from_secs(5 + choose(40) as u64);
    let circ_dur = Duration::from_secs(3 + choose(40) as u64);
    let with_rate_limits = choose(3) == 0;
    note_val("limits", (max_res + 8 * max_res_peer + 64 * max_circ + 512 * max_circ_peer) as u64 + 4096 * with_rate_limits as u64);
    let relay_node = PNode::make(
        stack,
        libp2p_identity::Keypair::generate_ed25519(),
        |k| {
            let mut cfg = relay::Config { max_reservations: max_res, max_reservations_per_peer: max_res_peer, reservation_duration: res_dur, max_circuits: max_circ, max_circuits_per_peer: max_circ_peer, max_circuit_duration: circ_dur, max_circuit_bytes: 1 << 20, ..Default::default() };
            if !with_rate_limits {
                cfg.reservation_rate_limiters.clear();
                cfg.circuit_src_rate_limiters.clear();
            }
            relay::Behaviour::new(k.public().to_peer_id(), cfg)
        },
        &steady_knobs(),
    );
    let raddr = relay_node.listen();
    relay_node.swarm.borrow_mut().add_external_address(raddr.clone());
    let nclients = 2 + choose(4);
    let mut clients: Vec<Client> = (0..nclients)
        .map(|_| {
            let shared: Shared = Arc::new(Mutex::new(ScriptShared::default()));
            // how this client answers the relay's stop request
            let style = choose(8);
            shared.lock().unwrap().responders.insert(
                STOP.to_string(),
                Box::new(move |_p: &PeerId, _req: &[u8]| match style {
                    0 => (vec![stop_status(203)], After::Close), // CONNECTION_FAILED
                    1 => (vec![], After::Drop),
                    _ => (vec![stop_status(100)], After::Hold),
                }),
            );
            let s2 = shared.clone();
            let node = PNode::make(stack, libp2p_identity::Keypair::generate_ed25519(), move |_| Script::new(s2), &steady_knobs());
            Client { node, shared, conns: vec![] }
        })
        .collect();
    run_until_idle();
    let rpeer = relay_node.peer;

    let mut res: BTreeMap<PeerId, i64> = BTreeMap::new();
    let mut circ: Vec<(PeerId, PeerId)> = vec![];
    let (mut accepted, mut denied) = (0u32, 0u32);
    let mut tag = 0u64;
    let mut pending_tags: Vec<Pending> = vec![];
    // Ground truth kept from the clients' side (the relay's own events could be wrong together with its accounting):
    // reservations (client, connection) -> issue time of the last accepted RESERVE; circuits whose source saw OK and whose
    // destination holds the matching stop stream.
    let mut gt_res: BTreeMap<(usize, ConnectionId), Duration> = BTreeMap::new();
    let mut gt_circ: Vec<GtCircuit> = vec![];
    let mut matched_stops: std::collections::BTreeSet<(usize, u64)> = Default::default();
    let steps = 15 + choose(70);
    for step in 0..=steps {
        if step < steps {
            let c = choose(nclients);
            match choose(12) {
                0..=2 => {
                    if clients[c].conns.len() < 3 {
                        clients[c].node.dial_new(rpeer, raddr.clone());
                    }
                }
                3 => {
                    if !clients[c].conns.is_empty() {
                        let k = choose(clients[c].conns.len());
                        let id = clients[c].conns[k];
                        clients[c].node.swarm.borrow_mut().close_connection(id);
                        clients[c].node.kick();
                    }
                }
                4..=6 => {
                    if !clients[c].conns.is_empty() {
                        let k = choose(clients[c].conns.len());
                        tag += 1;
                        let id = clients[c].conns[k];
                        clients[c].node.with(|b| b.open(rpeer, Some(id), OpenReq { tag, proto: HOP.into(), send: vec![hop_reserve()], read: 1, after: After::Close }));
                        pending_tags.push(Pending { tag, is_res: true, client: c, conn: id, dst: c, issued: elapsed() });
                    }
                }
                7..=9 => {
                    if !clients[c].conns.is_empty() {
                        let k = choose(clients[c].conns.len());
                        let d = (c + 1 + choose(nclients - 1)) % nclients;
                        let dst = clients[d].node.peer;
                        tag += 1;
                        let id = clients[c].conns[k];
                        clients[c].node.with(|b| b.open(rpeer, Some(id), OpenReq { tag, proto: HOP.into(), send: vec![hop_connect(&dst)], read: 1, after: After::Hold }));
                        pending_tags.push(Pending { tag, is_res: false, client: c, conn: id, dst: d, issued: elapsed() });
                    }
                }
                10 => {
                    // fault: a connection dies under the relay (reservations on it and circuits through it must go)
                    if fault("transport_reset", 500) {
                        let c = stack.conn_count();
                        if c > 0 {
                            stack.reset_conn(choose(c));
                        }
                    } else {
                        advance(Duration::from_secs(1));
                    }
                }
                _ => {
                    let d = [1u64, 2, 5, 10, 30][choose(5)];
                    advance(Duration::from_secs(d));
                }
            }
            // sometimes several requests race
            if choose(4) == 0 {
                continue;
            }
        }
        run_until_idle();
        // client side: connection lists and request outcomes
        for cl in clients.iter_mut() {
            for (_, ev) in cl.node.take_events() {
                match ev {
                    SwarmEvent::ConnectionEstablished { connection_id, .. } => cl.conns.push(connection_id),
                    SwarmEvent::ConnectionClosed { connection_id, .. } => cl.conns.retain(|c| *c != connection_id),
                    _ => {}
                }
            }
        }
        let mut newly_accepted: Vec<Pending> = vec![];
        for cl in clients.iter() {
            pending_tags.retain(|pd| match outcome(&cl.shared, pd.tag) {
                Some(Ok(frames)) => {
                    match frames.first().and_then(|f| hop_status(f)) {
                        Some(100) => {
                            accepted += 1;
                            newly_accepted.push(pd.clone());
                            probe(if pd.is_res { "reservation-accepted" } else { "circuit-accepted" });
                        }
                        Some(201) => {
                            denied += 1;
                            probe(if pd.is_res { "reservation-denied-limit" } else { "circuit-denied-limit" });
                        }
                        Some(204) => probe("circuit-no-reservation"),
                        _ => {}
                    }
                    false
                }
                Some(Err(_)) => false,
                None => true,
            });
        }
        // ---- ground truth, evaluated at this quiescent point
        for pd in newly_accepted {
            if pd.is_res {
                gt_res.insert((pd.client, pd.conn), pd.issued);
            } else {
                // the destination's stop stream for this circuit: the latest unmatched accepted inbound stop request naming the source
                let src_bytes = clients[pd.client].node.peer.to_bytes();
                let stop = clients[pd.dst].shared.lock().unwrap().log.iter().rev().find_map(|(seq, _, conn, e)| match e {
                    SOut::Inbound { proto, request: Some(r), responded } if proto == STOP && *responded > 0 && !matched_stops.contains(&(pd.dst, *seq)) && r.windows(src_bytes.len()).any(|w| w == &src_bytes[..]) => Some((*seq, *conn)),
                    _ => None,
                });
                if let Some((seq, dconn)) = stop {
                    matched_stops.insert((pd.dst, seq));
                    gt_circ.push(GtCircuit { src: pd.client, src_conn: pd.conn, dst: pd.dst, dst_conn: dconn, issued: pd.issued });
                }
            }
        }
        let now = elapsed();
        gt_res.retain(|(c, conn), issued| clients[*c].conns.contains(conn) && now < *issued + res_dur);
        gt_circ.retain(|g| clients[g.src].conns.contains(&g.src_conn) && clients[g.dst].conns.contains(&g.dst_conn) && now < g.issued + circ_dur);
        if !violated() {
            ensure!(gt_res.len() <= max_res, "C47/reservations-total", "clients hold {} reservations that were accepted, are unexpired and whose connection is open; max_reservations is {max_res}", gt_res.len());
            ensure!(gt_circ.len() <= max_circ, "C47/circuits-total", "{} circuits were accepted and are certainly still running (both connections open, duration not reached, both ends hold their stream); max_circuits is {max_circ}", gt_circ.len());
            for (i, cl) in clients.iter().enumerate() {
                let r = gt_res.keys().filter(|(c, _)| *c == i).count();
                ensure!(r <= max_res_peer, "C47/reservations-per-peer", "{} holds {r} accepted, unexpired reservations on open connections; max_reservations_per_peer is {max_res_peer}", cl.node.peer);
                let n = gt_circ.iter().filter(|g| g.src == i || g.dst == i).count();
                if n > max_circ_peer {
                    probe("gt-circuit-limit-exceeded");
                }
                ensure!(n <= max_circ_peer, "C47/circuits-per-peer", "{n} circuits involving {} were accepted and are certainly still running (source and destination connections open, duration not reached, both ends hold their stream): {:?}; max_circuits_per_peer is {max_circ_peer}", cl.node.peer, gt_circ.iter().filter(|g| g.src == i || g.dst == i).map(|g| (g.src, g.src_conn, g.dst, g.dst_conn)).collect::<Vec<_>>());
            }
            if gt_circ.iter().any(|g| clients[g.dst].conns.len() > 1) {
                probe("live-circuit-to-multi-connection-destination");
            }
        }
        // relay side: fold its events, checking the limits after every one of them
        for (_, ev) in relay_node.take_events() {
            let SwarmEvent::Behaviour(ev) = ev else { continue };
            #[allow(deprecated)]
            match ev {
                relay::Event::ReservationReqAccepted { src_peer_id, renewed } => {
                    if !renewed {
                        *res.entry(src_peer_id).or_insert(0) += 1;
                    }
                }
                relay::Event::ReservationClosed { src_peer_id } | relay::Event::ReservationTimedOut { src_peer_id } => {
                    *res.entry(src_peer_id).or_insert(0) -= 1;
                }
                relay::Event::CircuitReqAccepted { src_peer_id, dst_peer_id } => circ.push((src_peer_id, dst_peer_id)),
                relay::Event::CircuitClosed { src_peer_id, dst_peer_id, .. } => {
                    if let Some(i) = circ.iter().position(|x| *x == (src_peer_id, dst_peer_id)) {
                        circ.remove(i);
                    }
                }
                _ => {}
            }
            for (p, n) in &res {
                ensure!(*n <= max_res_peer as i64, "C47/reservations-per-peer", "the relay holds {n} active reservations for {p}, max_reservations_per_peer is {max_res_peer}");
            }
            let total: i64 = res.values().sum();
            ensure!(total <= max_res as i64, "C47/reservations-total", "the relay holds {total} active reservations, max_reservations is {max_res}");
            ensure!(circ.len() <= max_circ, "C47/circuits-total", "the relay runs {} circuits, max_circuits is {max_circ}", circ.len());
            for cl in &clients {
                let p = cl.node.peer;
                let n = circ.iter().filter(|(s, d)| *s == p || *d == p).count();
                ensure!(n <= max_circ_peer, "C47/circuits-per-peer", "the relay runs {n} circuits involving {p} ({} as source, {} as destination), max_circuits_per_peer is {max_circ_peer}", circ.iter().filter(|(s, _)| *s == p).count(), circ.iter().filter(|(_, d)| *d == p).count());
            }
        }
    }
    if accepted > 0 && denied > 0 {
        mark_nontrivial();
    }
    if stack != Stack::Stub && accepted > 0 {
        probe("full-stack-request-accepted");
    }
    Ok(())
}

// ------------------------------------------------------------------------------------------------
// C48
// ------------------------------------------------------------------------------------------------

fn rate_limiter() -> SimResult {
    let limit = 1 + choose(5) as u32;
    let interval = Duration::from_millis([1u64, 10, 250, 1000, 60_000][choose(5)]);
    let per_ip = choose(2) == 0;
    let cfg = {
        let mut c = relay::Config::default();
        c.reservation_rate_limiters.clear();
        if per_ip {
            c.reservation_rate_per_ip(NonZeroU32::new(limit).unwrap(), interval)
        } else {
            c.reservation_rate_per_peer(NonZeroU32::new(limit).unwrap(), interval)
        }
    };
    let mut cfg = cfg;
    let mut lim = cfg.reservation_rate_limiters.pop().ok_or_else(|| violation!("harness/limiter", "no limiter"))?;
    let peers: Vec<PeerId> = (0..3).map(|_| libp2p_identity::Keypair::generate_ed25519().public().to_peer_id()).collect();
    let addrs: Vec<libp2p_core::Multiaddr> = ["/ip4/10.1.1.1/tcp/1", "/ip4/10.1.1.2/udp/9/quic-v1", "/ip6/2001:db8::7/tcp/443"].iter().map(|a| a.parse().unwrap()).collect();
    let base = web_time::Instant::now();
    let mut t = Duration::ZERO;
    #[derive(Default)]
    struct Id {
        accepted: Vec<Duration>,
        last_request: Option<Duration>,
    }
    let mut ids: BTreeMap<usize, Id> = BTreeMap::new();
    let steps = 10 + choose(140);
    let (mut refused, mut idle_hits) = (0u32, 0u32);
    let mut last_pa = (0usize, 0usize);
    for _ in 0..steps {
        t += match choose(10) {
            8 => interval * (2 + choose(limit as usize + 1) as u32),
            9 => interval * (2 + choose(limit as usize + 1) as u32) + interval / 3,
            0 | 1 => Duration::ZERO,
            2 => interval / 2,
            3 => interval,
            4 => interval.saturating_sub(Duration::from_micros(1)),
            5 => interval * limit,
            6 => interval * (limit + 1) + Duration::from_micros(choose(1000) as u64),
            _ => Duration::from_micros(choose(2 * interval.as_micros() as usize + 1) as u64),
        };
        // bursts: half of the time the same identity as before asks again
        let (p, a) = if choose(2) == 0 { last_pa } else { (choose(3), choose(3)) };
        last_pa = (p, a);
        let key = if per_ip { a } else { p };
        let ok = lim.try_next(peers[p], &addrs[a], base + t);
        let id = ids.entry(key).or_default();
        let idle = id.last_request.map(|l| t - l >= interval * limit).unwrap_or(true);
        if idle {
            idle_hits += 1;
            ensure!(ok, "C48/idle-identity-refused", "{} limiter (limit {limit}, interval {interval:?}) refused a request at {t:?} from an identity whose last request was at {:?}", if per_ip { "per-IP" } else { "per-peer" }, id.last_request);
        }
        id.last_request = Some(t);
        if ok {
            id.accepted.push(t);
            let n = id.accepted.len();
            for i in 0..n {
                let window = t - id.accepted[i];
                let allowed = limit as u128 + window.as_micros() / interval.as_micros();
                ensure!((n - i) as u128 <= allowed, "C48/window-exceeded", "{} limiter (limit {limit}, interval {interval:?}) accepted {} requests of one identity between {:?} and {t:?}; a token bucket allows {allowed}", if per_ip { "per-IP" } else { "per-peer" }, n - i, id.accepted[i]);
            }
        } else {
            refused += 1;
        }
    }
    if refused > 0 && idle_hits > 1 {
        mark_nontrivial();
    }
    note_val("cfg", limit as u64 + 8 * per_ip as u64 + 16 * interval.as_millis() as u64);
    note_val("steps", (steps / 4) as u64);
    Ok(())
}
