//! C42 / C43 — a real kad::Behaviour (server mode, MemoryStore) in a real Swarm; scripted peers send
//! PUT_VALUE / GET_VALUE / ADD_PROVIDER in raw frames; the oracle reads the record store and the answers.
use crate::net;
use crate::node::begin;
use crate::pnode::*;
use crate::script::*;
use libp2p_identity::PeerId;
use libp2p_kad as kad;
use libp2p_kad::store::RecordStore;
use libp2p_swarm::StreamProtocol;
use simkit::runner::NO_FAULTS;
use simkit::*;
use std::sync::{Arc, Mutex};
use std::time::Duration;

/// This scenario evaluates clauses of several properties in sequence. A failing clause of another property must not end the
/// evaluation (the running check would drop it and never reach its own clauses): it is recorded and the evaluation goes on.
macro_rules! ensure {
    ($cond:expr, $clause:expr, $($arg:tt)*) => {
        if !($cond) {
            let v = simkit::Violation { clause: ($clause).to_string(), detail: format!($($arg)*) };
            if simkit::ctx::clause_is_foreign(&v.clause) {
                simkit::soft_violation(v);
            } else {
                return Err(v);
            }
        }
    };
}


const PROTO: &str = "/ipfs/kad/1.0.0";

const RULE: &str = "A real kad::Behaviour in server mode (record_ttl none or 3..60 s, provider_record_ttl none or some, unfiltered inserts, periodic jobs off) serves 2..3 scripted peers that send PUT_VALUE (publisher absent / the sender / a third peer / the local node; ttl field 0 = none, 1..3, 30, 3600), GET_VALUE and ADD_PROVIDER (announced provider = sender / another peer / the local node) in raw frames, with virtual time steps that leave sub-second lifetimes. After every request the record store is read directly";

pub fn checks() -> Vec<Check> {
    let mk = |id: &'static str, title: &'static str, extra: &'static str| Check {
        id,
        title,
        level: Level::Exploration,
        rule: Box::leak(format!("{RULE}. {extra}").into_boxed_str()),
        assumptions: &["security/muxing stubbed (E2 stack)", "few peers: the routing table never holds more than k nodes, so the distance-based TTL decrease does not apply"],
        real: &["kad Behaviour (inbound request handling), kad handler and wire codec, MemoryStore"],
        stub: &["transport/security/muxer -> SimTransport/SimMuxer", "remote kad nodes -> scripted frames", "clock -> virtual"],
        scenarios: vec![Scenario::new("kad-inbound", 400, 40_000, kad_inbound).profiles(NO_FAULTS)],
    };
    vec![
        mk("C42", "Record lifetimes are never extended or lost in transit", "C42: a record stored from a PUT_VALUE expires no later than now+ttl given by the sender and no later than now+record_ttl, and has no expiry only if neither is set; a GET_VALUE answer for a stored record that has an expiry in the future carries ttl > 0 (0 means 'does not expire')"),
        mk("C43", "Provider records are only accepted from the provider itself", "C43: after ADD_PROVIDER the store lists a provider for the key only if it is the sending peer and not the local node; a PUT_VALUE whose publisher is the local node leaves the stored record untouched"),
    ]
}

fn peer_msg(id: &PeerId) -> Vec<u8> {
    let mut p = vec![];
    pb_bytes(1, &id.to_bytes(), &mut p);
    pb_bytes(2, &"/ip4/10.3.3.3/tcp/9".parse::<libp2p_core::Multiaddr>().unwrap().to_vec(), &mut p);
    pb_varint(3, 1, &mut p);
    p
}

fn put_value(key: &[u8], value: &[u8], publisher: Option<&PeerId>, ttl: u32) -> Vec<u8> {
    let mut r = vec![];
    pb_bytes(1, key, &mut r);
    pb_bytes(2, value, &mut r);
    if let Some(p) = publisher {
        pb_bytes(666, &p.to_bytes(), &mut r);
    }
    if ttl > 0 {
        pb_varint(777, ttl as u64, &mut r);
    }
    let mut m = vec![];
    pb_varint(1, 0, &mut m);
    pb_bytes(2, key, &mut m);
    pb_bytes(3, &r, &mut m);
    m
}

fn get_value(key: &[u8]) -> Vec<u8> {
    let mut m = vec![];
    pb_varint(1, 1, &mut m);
    pb_bytes(2, key, &mut m);
    m
}

fn add_provider(key: &[u8], provider: &PeerId) -> Vec<u8> {
    let mut m = vec![];
    pb_varint(1, 2, &mut m);
    pb_bytes(2, key, &mut m);
    pb_bytes(9, &peer_msg(provider), &mut m);
    m
}

/// The application behind a filtering server (StoreInserts::FilterBoth): it stores every record it is offered. `sender` is
/// the peer whose request has just been processed (requests are resolved one at a time).
fn app_step(server: &PNode<kad::Behaviour<kad::store::MemoryStore>>, sender: PeerId) -> SimResult {
    use kad::store::RecordStore;
    for (_, ev) in server.take_events() {
        let libp2p_swarm::SwarmEvent::Behaviour(kad::Event::InboundRequest { request }) = ev else { continue };
        match request {
            kad::InboundRequest::PutRecord { record: Some(r), .. } => {
                probe("record-offered-to-application");
                let _ = server.with(|b| b.store_mut().put(r));
            }
            kad::InboundRequest::AddProvider { record: Some(r) } => {
                probe("provider-offered-to-application");
                ensure!(r.provider == sender, "C43/foreign-provider-offered", "a provider record naming {} was offered to the application although it was sent by {sender}", r.provider);
                let _ = server.with(|b| b.store_mut().add_provider(r));
            }
            _ => {}
        }
    }
    Ok(())
}

fn kad_inbound() -> SimResult {
    begin();
    draw_policy();
    net::with_net(|n| n.faults = false);
    let record_ttl = if choose(3) == 0 { None } else { Some(Duration::from_secs(3 + choose(58) as u64)) };
    let provider_ttl = if choose(2) == 0 { None } else { Some(Duration::from_secs(10 + choose(100) as u64)) };
    // In one run in three the server does not store on its own: it offers every inbound record to the application
    // (StoreInserts::FilterBoth) and the harness plays an application that stores whatever it is offered.
    let filtering = choose(3) == 0;
    note_val("cfg", record_ttl.map(|d| d.as_secs()).unwrap_or(0) + 1000 * provider_ttl.is_some() as u64 + 2000 * filtering as u64);
    let server = PNode::new(
        |k| {
            let id = k.public().to_peer_id();
            let mut cfg = kad::Config::new(StreamProtocol::new(PROTO));
            cfg.set_record_ttl(record_ttl).set_provider_record_ttl(provider_ttl).set_replication_interval(None).set_publication_interval(None).set_provider_publication_interval(None);
            if filtering {
                cfg.set_record_filtering(kad::StoreInserts::FilterBoth);
            }
            let mut b = kad::Behaviour::with_config(id, kad::store::MemoryStore::new(id), cfg);
            b.set_mode(Some(kad::Mode::Server));
            b
        },
        &steady_knobs(),
    );
    let saddr = server.listen();
    let speer = server.peer;
    let n = 2 + choose(2);
    struct Cl {
        node: PNode<Script>,
        shared: Shared,
    }
    let clients: Vec<Cl> = (0..n)
        .map(|_| {
            let shared: Shared = Arc::new(Mutex::new(ScriptShared::default()));
            let s2 = shared.clone();
            Cl { node: PNode::new(move |_| Script::new(s2), &steady_knobs()), shared }
        })
        .collect();
    run_until_idle();
    for c in &clients {
        c.node.dial_new(speer, saddr.clone());
    }
    settle(Duration::from_millis(10));
    let keys: Vec<Vec<u8>> = (0..3u8).map(|i| vec![b'k', i]).collect();
    let mut tag = 0u64;
    let mut serial = 0u32;
    let (mut stored, mut sub_second, mut providers_ok, mut providers_refused) = (0u32, 0u32, 0u32, 0u32);
    let steps = 10 + choose(50);
    for _ in 0..steps {
        let c = choose(n);
        let me = clients[c].node.peer;
        let other = clients[(c + 1) % n].node.peer;
        let key = keys[choose(keys.len())].clone();
        let rkey = kad::RecordKey::new(&key);
        match choose(10) {
            0..=3 => {
                serial += 1;
                let before = server.with(|b| b.store_mut().get(&rkey).map(|r| r.into_owned()));
                let mut value = format!("v{serial}").into_bytes();
                let mut publisher = match choose(5) {
                    0 => None,
                    1 => Some(speer),
                    2 => Some(other),
                    _ => Some(me),
                };
                // replication / republishing: the record the server already holds arrives again with another lifetime
                if let (Some(b), true) = (&before, choose(3) == 0) {
                    if b.publisher != Some(speer) {
                        value = b.value.clone();
                        publisher = b.publisher;
                        probe("same-record-sent-again");
                    }
                }
                let ttl = [0u32, 0, 1, 2, 3, 30, 3600][choose(7)];
                tag += 1;
                clients[c].node.with(|b| b.open(speer, None, OpenReq { tag, proto: PROTO.into(), send: vec![put_value(&key, &value, publisher.as_ref(), ttl)], read: 1, after: After::Close }));
                let t_sent = elapsed();
                settle(Duration::from_millis(10));
                app_step(&server, me)?;
                let now = web_time::Instant::now();
                let after = server.with(|b| b.store_mut().get(&rkey).map(|r| r.into_owned()));
                if publisher == Some(speer) {
                    ensure!(before == after, "C43/local-publisher-record-changed", "PUT_VALUE naming the local node as publisher changed the local record for {key:?}: {before:?} -> {after:?}");
                    probe("put-with-local-publisher");
                    continue;
                }
                let Some(rec) = after else { continue };
                if rec.value != value {
                    continue; // not stored (e.g. store full)
                }
                stored += 1;
                let spent = elapsed() - t_sent;
                match (ttl > 0, record_ttl) {
                    (false, None) => ensure!(rec.expires.is_none(), "C42/expiry-invented", "neither the sender nor the configuration set a TTL but the record expires at {:?}", rec.expires),
                    (given, local) => {
                        let bound = [given.then(|| Duration::from_secs(ttl as u64)), local].into_iter().flatten().min().unwrap();
                        let Some(e) = rec.expires else {
                            return Err(violation!("C42/expiry-lost", "PUT_VALUE with ttl {} (local record_ttl {record_ttl:?}) was stored without expiry", if given { format!("{ttl}s") } else { "none".into() }));
                        };
                        let remaining = e.saturating_duration_since(now) + spent;
                        ensure!(remaining <= bound, "C42/expiry-extended", "PUT_VALUE with ttl {} (local record_ttl {record_ttl:?}) is stored with {remaining:?} left, more than the smaller of the two ({bound:?})", if given { format!("{ttl}s") } else { "none".into() });
                    }
                }
            }
            4 | 5 => {
                let stored_rec = server.with(|b| b.store_mut().get(&rkey).map(|r| r.into_owned()));
                let now = web_time::Instant::now();
                tag += 1;
                clients[c].node.with(|b| b.open(speer, None, OpenReq { tag, proto: PROTO.into(), send: vec![get_value(&key)], read: 1, after: After::Close }));
                // Sometimes the answer is held up between the behaviour (which looked the record up) and the handler (which
                // encodes it): the server's connection tasks stall, and the record's remaining lifetime passes meanwhile.
                let soon = stored_rec.as_ref().and_then(|r| r.expires).map(|e| e.saturating_duration_since(now)).filter(|l| *l > Duration::from_millis(20) && *l < Duration::from_secs(40));
                if let (Some(left), true) = (soon, choose(2) == 0) {
                    let seen_before = server.events.borrow().len();
                    let mut stalled = vec![];
                    for _ in 0..400 {
                        run_steps(1);
                        let looked_up = server.events.borrow().iter().skip(seen_before).any(|(_, _, e)| matches!(e, libp2p_swarm::SwarmEvent::Behaviour(kad::Event::InboundRequest { request: kad::InboundRequest::GetRecord { .. } })));
                        if looked_up {
                            let tasks = net::with_net(|n| n.tasks.get(&server.idx).cloned().unwrap_or_default());
                            for u in tasks.into_iter().filter(|u| !is_done(*u)) {
                                freeze(u, true);
                                stalled.push(u);
                            }
                            break;
                        }
                    }
                    if !stalled.is_empty() {
                        advance(left + Duration::from_millis(1500));
                        for u in stalled {
                            freeze(u, false);
                        }
                        probe("answer-encoded-after-the-record-expired");
                    }
                }
                settle(Duration::from_millis(10));
                let Some(Ok(frames)) = outcome(&clients[c].shared, tag) else { continue };
                let Some(f) = frames.first().and_then(|f| pb_parse(f)) else { continue };
                let Some(rec) = pb_get_bytes(&f, 3).and_then(|b| pb_parse(&b)) else { continue };
                let ttl = pb_get_varint(&rec, 777).unwrap_or(0);
                if let Some(sr) = stored_rec {
                    if let Some(e) = sr.expires {
                        let left = e.saturating_duration_since(now);
                        if left > Duration::from_millis(20) {
                            if left < Duration::from_secs(1) {
                                sub_second += 1;
                            }
                            ensure!(ttl > 0, "C42/expiring-record-sent-as-permanent", "GET_VALUE answer for a record with {left:?} left to live carries ttl 0, which means 'does not expire'");
                            ensure!(Duration::from_secs(ttl) <= left + Duration::from_secs(1), "C42/expiry-extended-in-transit", "GET_VALUE answer carries ttl {ttl}s for a record with {left:?} left");
                        }
                    }
                }
            }
            6..=8 => {
                let announced = match choose(4) {
                    0 => other,
                    1 => speer,
                    _ => me,
                };
                let before: Vec<PeerId> = server.with(|b| b.store_mut().providers(&rkey).into_iter().map(|p| p.provider).collect());
                tag += 1;
                clients[c].node.with(|b| b.open(speer, None, OpenReq { tag, proto: PROTO.into(), send: vec![add_provider(&key, &announced)], read: 0, after: After::Close }));
                settle(Duration::from_millis(10));
                app_step(&server, me)?;
                let after: Vec<PeerId> = server.with(|b| b.store_mut().providers(&rkey).into_iter().map(|p| p.provider).collect());
                for p in &after {
                    if !before.contains(p) {
                        ensure!(*p != speer, "C43/local-provider-stored", "ADD_PROVIDER announcing the local node was stored");
                        ensure!(*p == me, "C43/foreign-provider-stored", "ADD_PROVIDER from {me} announcing {announced} added provider {p}");
                        providers_ok += 1;
                    }
                }
                if announced != me && after == before {
                    providers_refused += 1;
                }
            }
            _ => {
                let d = [Duration::from_millis(300), Duration::from_millis(1500), Duration::from_millis(2600), Duration::from_secs(5), Duration::from_secs(40)][choose(5)];
                advance(d);
            }
        }
    }
    if stored > 0 && (sub_second > 0 || (providers_ok > 0 && providers_refused > 0)) {
        mark_nontrivial();
    }
    if sub_second > 0 {
        probe("sub-second-lifetime-served");
    }
    note_val("shape", stored.min(15) as u64 + 16 * sub_second.min(7) as u64 + 128 * providers_ok.min(7) as u64 + 1024 * providers_refused.min(7) as u64 + 8192 * (steps as u64 / 8));
    for c in &clients {
        let _ = c.node.take_events();
    }
    let _ = server.take_events();
    Ok(())
}
