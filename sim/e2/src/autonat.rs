//! C50 — a real AutoNAT v1 server in a real Swarm; scripted clients send hand-rolled dial requests.
use crate::net;
use crate::node::begin;
use crate::pnode::*;
use crate::script::*;
use libp2p_autonat as autonat;
use libp2p_core::multiaddr::{Multiaddr, Protocol};
use libp2p_identity::PeerId;
use libp2p_swarm::SwarmEvent;
use simkit::*;
use std::collections::BTreeMap;
use std::net::IpAddr;
use std::sync::{Arc, Mutex};
use std::time::Duration;

const PROTO: &str = "/libp2p/autonat/1.0.0";

pub fn checks() -> Vec<Check> {
    vec![Check {
        id: "C50",
        title: "AutoNAT servers dial back only the requester's observed IP",
        level: Level::Exploration,
        rule: "A real autonat::Behaviour (v1; only_global_ips off because the simulated network is 10.0.0.0/24; throttle limits per peer 1..3, global 1..4, period 10..70 s; max_peer_addresses 1..8) serves 2..4 scripted clients that listen for the dial-back. Requests carry 1..5 addresses from a menu: honest, another client's IP, a public IP, several IP components, DNS names before/after the IP, relay (/p2p-circuit) paths, a foreign /p2p suffix, the requester's /p2p in the middle; the peer id field is the sender's or someone else's; connections (the client's or a dial-back in progress) are reset at seeded moments (fault transport_reset) and clients re-dial. Every address the server's transport is asked to dial (recorded in the simulated transport) must have all its ip4/ip6 components equal to the IP the server observed for the requester, contain no p2p-circuit and end with /p2p/<requester>; the addresses announced in InboundProbeEvent::Request obey the same IP/relay rule. Some clients are slow to reach (the dial-back stays in flight for seconds) and some requests are abandoned by the client right after writing. Never two dial-backs to one peer in flight at the transport unless a connection reset intervened; folding the probe events: never two probes in progress for one peer, per-peer and global numbers of accepted probes inside any throttle period within the limits. Non-trivial = at least one dial-back happened and one request was refused",
        assumptions: &["security/muxing stubbed (E2 stack); the observed address is the simulated transport's send-back address of the client's connection"],
        real: &["autonat v1 Behaviour (server role) incl. its request-response behaviour, handler and codec", "Swarm dialing (DialOpts, address translation)"],
        stub: &["transport/security/muxer -> SimTransport/SimMuxer", "AutoNAT clients -> scripted frames", "clock -> virtual"],
        scenarios: vec![Scenario::new("autonat-server", 300, 30_000, autonat_server)],
    }]
}

fn dial_request(peer: &PeerId, addrs: &[Multiaddr]) -> Vec<u8> {
    let mut info = vec![];
    pb_bytes(1, &peer.to_bytes(), &mut info);
    for a in addrs {
        pb_bytes(2, &a.to_vec(), &mut info);
    }
    let mut dial = vec![];
    pb_bytes(1, &info, &mut dial);
    let mut m = vec![];
    pb_varint(1, 0, &mut m);
    pb_bytes(2, &dial, &mut m);
    m
}

/// (status, dialed-back address) of a DialResponse
fn dial_response(frame: &[u8]) -> Option<(u64, Option<Multiaddr>)> {
    let f = pb_parse(frame)?;
    let r = pb_parse(&pb_get_bytes(&f, 3)?)?;
    Some((pb_get_varint(&r, 1).unwrap_or(0), pb_get_bytes(&r, 3).and_then(|b| Multiaddr::try_from(b).ok())))
}

fn ips(a: &Multiaddr) -> Vec<IpAddr> {
    a.iter()
        .filter_map(|p| match p {
            Protocol::Ip4(i) => Some(IpAddr::V4(i)),
            Protocol::Ip6(i) => Some(IpAddr::V6(i)),
            _ => None,
        })
        .collect()
}

fn autonat_server() -> SimResult {
    begin();
    draw_policy();
    net::with_net(|n| n.faults = false);
    if profile() != Profile::None && choose(4) == 0 {
        // some substreams die while their protocol is being negotiated; the connection stays up
        net::with_net(|n| n.stream_reset_permille = [50, 200][choose(2)]);
    }
    let peer_max = 1 + choose(3);
    let global_max = 1 + choose(4);
    let period = Duration::from_secs(10 + choose(60) as u64);
    let max_addrs = 1 + choose(8);
    note_val("limits", (peer_max + 4 * global_max + 32 * max_addrs) as u64);
    let server = PNode::new(
        |k| {
            autonat::Behaviour::new(
                k.public().to_peer_id(),
                autonat::Config { only_global_ips: false, throttle_clients_peer_max: peer_max, throttle_clients_global_max: global_max, throttle_clients_period: period, max_peer_addresses: max_addrs, boot_delay: Duration::from_secs(1_000_000), use_connected: false, ..Default::default() },
            )
        },
        &steady_knobs(),
    );
    let saddr = server.listen();
    let speer = server.peer;
    let nclients = 2 + choose(3);
    struct Cl {
        node: PNode<Script>,
        shared: Shared,
        ip: IpAddr,
    }
    let clients: Vec<Cl> = (0..nclients)
        .map(|_| {
            let shared: Shared = Arc::new(Mutex::new(ScriptShared::default()));
            let s2 = shared.clone();
            let node = PNode::new(move |_| Script::new(s2), &steady_knobs());
            node.listen();
            let ip: IpAddr = net::node_ip(node.idx).parse().expect("ip");
            Cl { node, shared, ip }
        })
        .collect();
    run_until_idle();
    // some clients are slow to reach: a dial-back to them stays in flight for seconds
    for c in &clients {
        if choose(2) == 0 {
            net::script(&c.node.addr(), net::Script::OkAfter(Duration::from_secs(1 + choose(12) as u64)));
            probe("slow-dial-back-target");
        }
    }
    // every client also listens on a second port that no probe request ever names: the server application (or another
    // behaviour) may dial it at any time, which has nothing to do with a dial-back
    const APP_PORT: u16 = 4444;
    for c in &clients {
        let _ = c.node.swarm.borrow_mut().listen_on(net::node_addr(c.node.idx, APP_PORT));
        c.node.kick();
    }
    let is_app_dial = |a: &Multiaddr| a.iter().any(|p| matches!(p, Protocol::Tcp(APP_PORT)));
    let mut resets: Vec<u64> = vec![]; // event sequence numbers of connection resets (requests in flight may legitimately die with them)
    for c in &clients {
        c.node.dial_new(speer, saddr.clone());
    }
    run_until_idle();
    let ip_of_peer: BTreeMap<PeerId, IpAddr> = clients.iter().map(|c| (c.node.peer, c.ip)).collect();

    let mut tag = 0u64;
    let mut accepted: Vec<(Duration, PeerId)> = vec![]; // accepted probes (Request events)
    let mut ongoing: BTreeMap<PeerId, std::collections::BTreeSet<String>> = BTreeMap::new(); // probe ids in progress
    let mut dials_seen = 0usize;
    let (mut dialbacks, mut refused) = (0u32, 0u32);
    let mut pending: Vec<u64> = vec![];
    let steps = 8 + choose(40);
    for step in 0..=steps {
        if step < steps {
            if choose(5) == 0 {
                advance(Duration::from_secs([1u64, 5, 20, 60][choose(4)]));
            } else if choose(9) == 0 {
                // an unrelated outbound connection from the server to a requester (possibly while its dial-back is in flight)
                let c = &clients[choose(nclients)];
                server.dial_new(c.node.peer, net::node_addr(c.node.idx, APP_PORT));
                probe("unrelated-outbound-connection-to-requester");
            } else if choose(8) == 0 {
                // fault: a connection (client's or a dial-back) is reset; clients without a connection dial again
                if fault("transport_reset", 600) {
                    let n = net::conn_count();
                    if n > 0 {
                        net::reset_conn(choose(n));
                        resets.push(next_seq());
                    }
                    settle(Duration::from_millis(5));
                }
                for c in &clients {
                    if !c.node.connections_to(&speer) {
                        c.node.dial_new(speer, saddr.clone());
                    }
                }
            } else {
                let c = choose(nclients);
                let me = &clients[c];
                let other = &clients[(c + 1) % nclients];
                let my_ip = me.ip;
                let lp = me.node.listen_port;
                let n = 1 + choose(5);
                let mut addrs: Vec<Multiaddr> = vec![];
                for _ in 0..n {
                    let a = match choose(11) {
                        0..=2 => format!("/ip4/{my_ip}/tcp/{lp}"),
                        3 => format!("/ip4/{}/tcp/{}", other.ip, other.node.listen_port),
                        4 => "/ip4/8.8.8.8/tcp/443".to_string(),
                        5 => format!("/ip4/{my_ip}/tcp/{lp}/ip4/9.9.9.9/tcp/2"),
                        6 => format!("/ip4/9.9.9.9/udp/4/ip6/2001:db8::1/tcp/{lp}"),
                        7 => ["/dns4/example.com/tcp/80".to_string(), format!("/ip4/{my_ip}/tcp/{lp}/dns4/x.example.org"), format!("/dns4/a.example/tcp/1/ip4/{}/tcp/{}", other.ip, other.node.listen_port)][choose(3)].clone(),
                        8 => [
                            format!("/ip4/{}/tcp/{}/p2p/{}/p2p-circuit/p2p/{}", other.ip, other.node.listen_port, other.node.peer, me.node.peer),
                            format!("/ip4/{my_ip}/tcp/{lp}/p2p-circuit/p2p/{}", me.node.peer),
                            format!("/ip4/{my_ip}/tcp/{lp}/p2p-circuit"),
                        ][choose(3)]
                        .clone(),
                        9 => format!("/ip4/{my_ip}/tcp/{lp}/p2p/{}", other.node.peer),
                        _ => format!("/ip4/{my_ip}/tcp/{lp}/p2p/{}/tcp/7", me.node.peer),
                    };
                    if let Ok(a) = a.parse() {
                        addrs.push(a);
                    }
                }
                let claimed = if choose(8) == 0 { other.node.peer } else { me.node.peer };
                tag += 1;
                // an impatient client drops the stream right after writing: the server's answer (or refusal) cannot be written
                let impatient = choose(5) == 0;
                me.node.with(|b| b.open(speer, None, OpenReq { tag, proto: PROTO.into(), send: vec![dial_request(&claimed, &addrs)], read: if impatient { 0 } else { 1 }, after: if impatient { After::Drop } else { After::Close } }));
                if impatient {
                    probe("impatient-request");
                } else {
                    pending.push(tag);
                }
                note("request");
            }
            if choose(3) == 0 {
                continue;
            }
        }
        settle(Duration::from_millis(10));
        // ---- the server's probe events
        for (now, ev) in server.take_events_timed() {
            let SwarmEvent::Behaviour(autonat::Event::InboundProbe(ev)) = ev else { continue };
            match ev {
                autonat::InboundProbeEvent::Request { peer, addresses, probe_id } => {
                    let set = ongoing.entry(peer).or_default();
                    set.insert(format!("{probe_id:?}"));
                    ensure!(set.len() <= 1, "C50/two-probes-for-one-peer", "a second dial-back for {peer} was started while one is still running ({set:?})");
                    accepted.push((now, peer));
                    let in_window: Vec<&(Duration, PeerId)> = accepted.iter().filter(|(t, _)| *t + period > now).collect();
                    ensure!(in_window.len() <= global_max, "C50/global-throttle", "{} probes accepted within {period:?}, throttle_clients_global_max is {global_max}", in_window.len());
                    let mine = in_window.iter().filter(|(_, p)| *p == peer).count();
                    ensure!(mine <= peer_max, "C50/peer-throttle", "{mine} probes of {peer} accepted within {period:?}, throttle_clients_peer_max is {peer_max}");
                    ensure!(addresses.len() <= max_addrs, "C50/too-many-addresses", "{} addresses will be dialed, max_peer_addresses is {max_addrs}", addresses.len());
                    let want_ip = ip_of_peer.get(&peer);
                    for a in &addresses {
                        ensure!(!a.iter().any(|p| matches!(p, Protocol::P2pCircuit)), "C50/dial-through-relay", "probe for {peer} will dial through a relay: {a}");
                        let found = ips(a);
                        ensure!(want_ip.map(|w| !found.is_empty() && found.iter().all(|i| i == w)).unwrap_or(false), "C50/dial-foreign-ip", "probe for {peer} (observed at {want_ip:?}) will dial {a}: every IP component must equal the observed IP");
                    }
                }
                autonat::InboundProbeEvent::Response { peer, probe_id, .. } => {
                    ongoing.entry(peer).or_default().remove(&format!("{probe_id:?}"));
                }
                autonat::InboundProbeEvent::Error { peer, error, probe_id } => {
                    // errors of refused requests carry a fresh probe id that never was in progress
                    if matches!(&error, autonat::InboundProbeError::Response(autonat::ResponseError::DialRefused | autonat::ResponseError::BadRequest)) {
                        refused += 1;
                    }
                    ongoing.entry(peer).or_default().remove(&format!("{probe_id:?}"));
                }
            }
        }
        // ---- what the server's transport was asked to dial
        // at most one dial-back to a peer in flight at the transport, unless a connection reset intervened
        let inflight: Vec<(u64, Multiaddr)> = net::with_net(|n| n.dials.iter().filter(|d| d.node == server.idx && d.first_poll.is_some() && d.done.is_none() && !d.dropped_unfinished && !is_app_dial(&d.addr)).map(|d| (d.created_seq, d.addr.clone())).collect());
        for (ci, a) in &inflight {
            for (cj, b) in &inflight {
                if cj > ci && a.iter().last() == b.iter().last() && !resets.iter().any(|r| ci < r && r < cj) {
                    return Err(violation!("C50/two-dial-backs-in-flight", "the server's transport has two dial-backs to the same peer in flight: {a} and {b} (no connection was reset in between)"));
                }
            }
        }
        let recs: Vec<Multiaddr> = net::with_net(|n| n.dials.iter().filter(|d| d.node == server.idx).map(|d| d.addr.clone()).collect());
        for a in recs.iter().skip(dials_seen) {
            if is_app_dial(a) {
                continue;
            }
            dialbacks += 1;
            let last = a.iter().last();
            let Some(Protocol::P2p(target)) = last else {
                return Err(violation!("C50/dial-without-peer-id", "the server dialed {a}, which does not end with the requester's /p2p id"));
            };
            let Some(want_ip) = ip_of_peer.get(&target) else {
                return Err(violation!("C50/dial-to-unknown-peer", "the server dialed {a}: its /p2p suffix is not a requester"));
            };
            ensure!(!a.iter().any(|p| matches!(p, Protocol::P2pCircuit)), "C50/dial-through-relay", "the server dialed back through a relay: {a}");
            let found = ips(a);
            ensure!(!found.is_empty() && found.iter().all(|i| i == want_ip), "C50/dial-foreign-ip", "the server dialed {a}; the requester {target} was observed at {want_ip}, every IP component must equal it");
            ensure!(ongoing.get(&target).map(|s| !s.is_empty()).unwrap_or(false) || accepted.iter().any(|(_, p)| *p == target), "C50/dial-without-probe", "the server dialed {a} without an accepted probe of {target}");
        }
        dials_seen = recs.len();
        for c in &clients {
            let _ = c.node.take_events();
            pending.retain(|t| match outcome(&c.shared, *t) {
                Some(Ok(f)) => {
                    match f.first().and_then(|x| dial_response(x)) {
                        Some((0, _)) => probe("dial-back-ok"),
                        Some((100, _)) => probe("dial-back-failed"),
                        Some((101, _)) => probe("dial-refused"),
                        Some((200, _)) => probe("bad-request"),
                        _ => {}
                    }
                    false
                }
                Some(Err(_)) => false,
                None => true,
            });
        }
    }
    if dialbacks > 0 && refused > 0 {
        mark_nontrivial();
    }
    Ok(())
}
