//! Scripted peer: a NetworkBehaviour + ConnectionHandler that speaks raw length-prefixed frames
//! (unsigned-varint prefix, as every protobuf protocol of libp2p does) on arbitrary protocol names.
//! The workload opens outbound streams with a list of frames to send and a number of frames to read,
//! and installs responders for inbound streams. It is the "byzantine / hand-rolled client" used against
//! real protocol behaviours running in a real Swarm on the other side of the simulated network.

use crate::probe::ProbeUpgrade;
use futures::future::BoxFuture;
use futures::stream::FuturesUnordered;
use futures::{AsyncReadExt, AsyncWriteExt, FutureExt, StreamExt};
use libp2p_core::multiaddr::Multiaddr;
use libp2p_core::transport::PortUse;
use libp2p_core::Endpoint;
use libp2p_identity::PeerId;
use libp2p_swarm::handler::ConnectionEvent;
use libp2p_swarm::{ConnectionDenied, ConnectionHandler, ConnectionHandlerEvent, ConnectionId, FromSwarm, NetworkBehaviour, NotifyHandler, Stream, SubstreamProtocol, THandlerInEvent, THandlerOutEvent, ToSwarm};
use simkit::*;
use std::collections::{BTreeMap, VecDeque};
use std::sync::{Arc, Mutex};
use std::task::{Context, Poll, Waker};
use std::time::Duration;

pub type Frames = Vec<Vec<u8>>;

#[derive(Debug, Clone, Copy, PartialEq)]
pub enum After {
    /// close the write side, wait for EOF
    Close,
    /// keep the stream open inside the handler (e.g. a relayed circuit)
    Hold,
    /// drop it right away
    Drop,
}

#[derive(Debug, Clone)]
pub struct OpenReq {
    pub tag: u64,
    pub proto: String,
    pub send: Frames,
    /// how many frames to read back (reading stops early at EOF)
    pub read: usize,
    pub after: After,
}

#[derive(Debug, Clone)]
pub enum SOut {
    Outbound { tag: u64, proto: String, result: Result<Frames, String> },
    Inbound { proto: String, request: Option<Vec<u8>>, responded: usize },
}

/// What to answer on an inbound stream of a protocol: first frame in, frames out.
pub type Responder = Box<dyn FnMut(&PeerId, &[u8]) -> (Frames, After) + Send>;

#[derive(Default)]
pub struct ScriptShared {
    pub responders: BTreeMap<String, Responder>,
    /// protocols on which the remote sends no request: the responder is called at once with an empty request
    pub no_request: std::collections::BTreeSet<String>,
    /// (sequence number, peer, connection, event)
    pub log: Vec<(u64, PeerId, ConnectionId, SOut)>,
}

pub type Shared = Arc<Mutex<ScriptShared>>;

pub fn varint(mut v: u64, out: &mut Vec<u8>) {
    loop {
        let b = (v & 0x7f) as u8;
        v >>= 7;
        if v == 0 {
            out.push(b);
            break;
        }
        out.push(b | 0x80);
    }
}

async fn write_frame(s: &mut Stream, f: &[u8]) -> std::io::Result<()> {
    let mut b = vec![];
    varint(f.len() as u64, &mut b);
    b.extend_from_slice(f);
    s.write_all(&b).await
}

async fn read_frame(s: &mut Stream) -> std::io::Result<Option<Vec<u8>>> {
    let mut len = 0u64;
    let mut shift = 0;
    loop {
        let mut b = [0u8; 1];
        let n = s.read(&mut b).await?;
        if n == 0 {
            return if shift == 0 { Ok(None) } else { Err(std::io::ErrorKind::UnexpectedEof.into()) };
        }
        len |= ((b[0] & 0x7f) as u64) << shift;
        if b[0] & 0x80 == 0 {
            break;
        }
        shift += 7;
        if shift > 35 {
            return Err(std::io::Error::other("varint too long"));
        }
    }
    if len > 1 << 20 {
        return Err(std::io::Error::other("frame too long"));
    }
    let mut buf = vec![0u8; len as usize];
    s.read_exact(&mut buf).await?;
    Ok(Some(buf))
}

enum TaskOut {
    Done(SOut),
    Hold(SOut, Stream),
}

pub struct ScriptHandler {
    peer: PeerId,
    conn: ConnectionId,
    shared: Shared,
    tasks: FuturesUnordered<BoxFuture<'static, TaskOut>>,
    out: VecDeque<ConnectionHandlerEvent<ProbeUpgrade, OpenReq, SOut>>,
    held: Vec<Stream>,
    waker: Option<Waker>,
    keep_alive: bool,
}

impl ConnectionHandler for ScriptHandler {
    type FromBehaviour = OpenReq;
    type ToBehaviour = SOut;
    type InboundProtocol = ProbeUpgrade;
    type OutboundProtocol = ProbeUpgrade;
    type InboundOpenInfo = ();
    type OutboundOpenInfo = OpenReq;

    fn listen_protocol(&self) -> SubstreamProtocol<ProbeUpgrade, ()> {
        let names = self.shared.lock().unwrap().responders.keys().cloned().collect();
        SubstreamProtocol::new(ProbeUpgrade { names }, ())
    }

    fn connection_keep_alive(&self) -> bool {
        self.keep_alive
    }

    fn poll(&mut self, cx: &mut Context<'_>) -> Poll<ConnectionHandlerEvent<ProbeUpgrade, OpenReq, SOut>> {
        if let Some(e) = self.out.pop_front() {
            return Poll::Ready(e);
        }
        while let Poll::Ready(Some(t)) = self.tasks.poll_next_unpin(cx) {
            let ev = match t {
                TaskOut::Done(e) => e,
                TaskOut::Hold(e, s) => {
                    self.held.push(s);
                    e
                }
            };
            return Poll::Ready(ConnectionHandlerEvent::NotifyBehaviour(ev));
        }
        self.waker = Some(cx.waker().clone());
        Poll::Pending
    }

    fn on_behaviour_event(&mut self, req: OpenReq) {
        let names = vec![req.proto.clone()];
        self.out.push_back(ConnectionHandlerEvent::OutboundSubstreamRequest { protocol: SubstreamProtocol::new(ProbeUpgrade { names }, req).with_timeout(Duration::from_secs(20)) });
        if let Some(w) = self.waker.take() {
            w.wake();
        }
    }

    fn on_connection_event(&mut self, event: ConnectionEvent<ProbeUpgrade, ProbeUpgrade, (), OpenReq>) {
        match event {
            ConnectionEvent::FullyNegotiatedOutbound(f) => {
                let (proto, mut stream) = f.protocol;
                let req = f.info;
                self.tasks.push(
                    async move {
                        let work = async {
                            for fr in &req.send {
                                write_frame(&mut stream, fr).await.map_err(|e| format!("write: {e}"))?;
                            }
                            stream.flush().await.map_err(|e| format!("flush: {e}"))?;
                            let mut got = vec![];
                            for _ in 0..req.read {
                                match read_frame(&mut stream).await {
                                    Ok(Some(f)) => got.push(f),
                                    Ok(None) => break,
                                    Err(e) => {
                                        if got.is_empty() {
                                            return Err(format!("read: {e}"));
                                        }
                                        break;
                                    }
                                }
                            }
                            Ok::<Frames, String>(got)
                        };
                        let timeout = futures_timer::Delay::new(Duration::from_secs(60));
                        let result = futures::select! {
                            r = work.fuse() => r,
                            _ = timeout.fuse() => Err("script timeout".to_string()),
                        };
                        let ev = SOut::Outbound { tag: req.tag, proto, result };
                        match req.after {
                            After::Hold => TaskOut::Hold(ev, stream),
                            After::Close => {
                                let _ = stream.close().await;
                                TaskOut::Done(ev)
                            }
                            After::Drop => TaskOut::Done(ev),
                        }
                    }
                    .boxed(),
                );
            }
            ConnectionEvent::FullyNegotiatedInbound(f) => {
                let (proto, mut stream) = f.protocol;
                let shared = self.shared.clone();
                let peer = self.peer;
                self.tasks.push(
                    async move {
                        let speaks_first = shared.lock().unwrap().no_request.contains(&proto);
                        let request = if speaks_first { Some(vec![]) } else { read_frame(&mut stream).await.ok().flatten() };
                        let (frames, after) = match (&request, shared.lock().unwrap().responders.get_mut(&proto)) {
                            (Some(r), Some(f)) => f(&peer, r),
                            _ => (vec![], After::Drop),
                        };
                        let mut responded = 0;
                        for fr in &frames {
                            if write_frame(&mut stream, fr).await.is_err() {
                                break;
                            }
                            responded += 1;
                        }
                        let _ = stream.flush().await;
                        let ev = SOut::Inbound { proto, request, responded };
                        match after {
                            After::Hold => TaskOut::Hold(ev, stream),
                            After::Close => {
                                let _ = stream.close().await;
                                TaskOut::Done(ev)
                            }
                            After::Drop => TaskOut::Done(ev),
                        }
                    }
                    .boxed(),
                );
            }
            ConnectionEvent::DialUpgradeError(e) => {
                let req = e.info;
                self.out.push_back(ConnectionHandlerEvent::NotifyBehaviour(SOut::Outbound { tag: req.tag, proto: req.proto, result: Err(format!("upgrade: {:?}", e.error)) }));
            }
            _ => {}
        }
        if let Some(w) = self.waker.take() {
            w.wake();
        }
    }
}

pub struct Script {
    pub shared: Shared,
    actions: VecDeque<ToSwarm<SOut, OpenReq>>,
    waker: Option<Waker>,
    pub keep_alive: bool,
}

impl Script {
    pub fn new(shared: Shared) -> Self {
        Script { shared, actions: VecDeque::new(), waker: None, keep_alive: true }
    }
    /// Open a stream to `peer` (on any of its connections, or a specific one).
    pub fn open(&mut self, peer: PeerId, conn: Option<ConnectionId>, req: OpenReq) {
        self.actions.push_back(ToSwarm::NotifyHandler { peer_id: peer, handler: conn.map(NotifyHandler::One).unwrap_or(NotifyHandler::Any), event: req });
        if let Some(w) = self.waker.take() {
            w.wake();
        }
    }
    pub fn push(&mut self, a: ToSwarm<SOut, OpenReq>) {
        self.actions.push_back(a);
        if let Some(w) = self.waker.take() {
            w.wake();
        }
    }
    fn handler(&self, peer: PeerId, conn: ConnectionId) -> ScriptHandler {
        ScriptHandler { peer, conn, shared: self.shared.clone(), tasks: FuturesUnordered::new(), out: VecDeque::new(), held: vec![], waker: None, keep_alive: self.keep_alive }
    }
}

impl NetworkBehaviour for Script {
    type ConnectionHandler = ScriptHandler;
    type ToSwarm = SOut;

    fn handle_established_inbound_connection(&mut self, id: ConnectionId, peer: PeerId, _: &Multiaddr, _: &Multiaddr) -> Result<ScriptHandler, ConnectionDenied> {
        Ok(self.handler(peer, id))
    }
    fn handle_established_outbound_connection(&mut self, id: ConnectionId, peer: PeerId, _: &Multiaddr, _: Endpoint, _: PortUse) -> Result<ScriptHandler, ConnectionDenied> {
        Ok(self.handler(peer, id))
    }
    fn on_swarm_event(&mut self, _: FromSwarm) {}
    fn on_connection_handler_event(&mut self, peer: PeerId, id: ConnectionId, ev: THandlerOutEvent<Self>) {
        trace!("script <- {peer} {id}: {}", short(&ev));
        self.shared.lock().unwrap().log.push((next_seq(), peer, id, ev));
    }
    fn poll(&mut self, cx: &mut Context<'_>) -> Poll<ToSwarm<SOut, THandlerInEvent<Self>>> {
        if let Some(a) = self.actions.pop_front() {
            return Poll::Ready(a);
        }
        self.waker = Some(cx.waker().clone());
        Poll::Pending
    }
}

pub fn short(ev: &SOut) -> String {
    match ev {
        SOut::Outbound { tag, proto, result } => format!("out#{tag} {proto} -> {}", match result {
            Ok(f) => format!("{} frame(s) {:?}", f.len(), f.iter().map(|x| x.len()).collect::<Vec<_>>()),
            Err(e) => format!("ERR {e}"),
        }),
        SOut::Inbound { proto, request, responded } => format!("in {proto} req {:?}B responded {responded}", request.as_ref().map(|r| r.len())),
    }
}

/// The result of outbound request `tag`, if it has completed.
pub fn outcome(shared: &Shared, tag: u64) -> Option<Result<Frames, String>> {
    shared.lock().unwrap().log.iter().find_map(|(_, _, _, e)| match e {
        SOut::Outbound { tag: t, result, .. } if *t == tag => Some(result.clone()),
        _ => None,
    })
}

// ---- minimal protobuf writer / reader for hand-rolled messages ---------------------------------

pub fn pb_bytes(tag: u32, payload: &[u8], out: &mut Vec<u8>) {
    varint(((tag as u64) << 3) | 2, out);
    varint(payload.len() as u64, out);
    out.extend_from_slice(payload);
}

pub fn pb_varint(tag: u32, v: u64, out: &mut Vec<u8>) {
    varint((tag as u64) << 3, out);
    varint(v, out);
}

#[derive(Debug, Clone, PartialEq)]
pub enum PbVal {
    Varint(u64),
    Bytes(Vec<u8>),
    Fixed64(u64),
    Fixed32(u32),
}

/// Parse one protobuf message into (field number, value) pairs; None if malformed.
pub fn pb_parse(mut b: &[u8]) -> Option<Vec<(u32, PbVal)>> {
    fn rv(b: &mut &[u8]) -> Option<u64> {
        let mut v = 0u64;
        let mut shift = 0;
        loop {
            let (&x, rest) = b.split_first()?;
            *b = rest;
            v |= ((x & 0x7f) as u64) << shift;
            if x & 0x80 == 0 {
                return Some(v);
            }
            shift += 7;
            if shift > 63 {
                return None;
            }
        }
    }
    let mut out = vec![];
    while !b.is_empty() {
        let key = rv(&mut b)?;
        let (field, wt) = ((key >> 3) as u32, key & 7);
        match wt {
            0 => out.push((field, PbVal::Varint(rv(&mut b)?))),
            2 => {
                let n = rv(&mut b)? as usize;
                if b.len() < n {
                    return None;
                }
                out.push((field, PbVal::Bytes(b[..n].to_vec())));
                b = &b[n..];
            }
            1 => {
                if b.len() < 8 {
                    return None;
                }
                out.push((field, PbVal::Fixed64(u64::from_le_bytes(b[..8].try_into().ok()?))));
                b = &b[8..];
            }
            5 => {
                if b.len() < 4 {
                    return None;
                }
                out.push((field, PbVal::Fixed32(u32::from_le_bytes(b[..4].try_into().ok()?))));
                b = &b[4..];
            }
            _ => return None,
        }
    }
    Some(out)
}

pub fn pb_get_varint(fields: &[(u32, PbVal)], f: u32) -> Option<u64> {
    fields.iter().find_map(|(n, v)| match v {
        PbVal::Varint(x) if *n == f => Some(*x),
        _ => None,
    })
}

pub fn pb_get_bytes(fields: &[(u32, PbVal)], f: u32) -> Option<Vec<u8>> {
    fields.iter().find_map(|(n, v)| match v {
        PbVal::Bytes(x) if *n == f => Some(x.clone()),
        _ => None,
    })
}

pub fn pb_all_bytes(fields: &[(u32, PbVal)], f: u32) -> Vec<Vec<u8>> {
    fields
        .iter()
        .filter_map(|(n, v)| match v {
            PbVal::Bytes(x) if *n == f => Some(x.clone()),
            _ => None,
        })
        .collect()
}
