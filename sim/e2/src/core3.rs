//! E2 focused scenarios: C09 (smart-dial start times), C10 (idle close), C11 (protocol-change
//! notifications), C12 (listen / external / peer address views).

use crate::core::with_field;
use crate::net::{self, Script, TEvent};
use crate::node::*;
use crate::probe::*;
use libp2p_core::multiaddr::{Multiaddr, Protocol};
use libp2p_core::transport::ListenerId;
use libp2p_identity::PeerId;
use libp2p_swarm::dial_opts::{DialOpts, PeerCondition};
use libp2p_swarm::{ConnectionId, NotifyHandler, ToSwarm};
use simkit::*;
use std::collections::{BTreeMap, BTreeSet};
use std::time::Duration;

const REAL: &[&str] = &["libp2p_swarm::Swarm, Pool, SmartDial + dial_ranker, Connection (idle timer, protocol diffing), ListenAddresses/ExternalAddresses/PeerAddresses helpers, derive(NetworkBehaviour), ConnectionHandlerSelect"];
const STUB: &[&str] = &["transport/security/muxer -> SimTransport/SimMuxer", "executor, clock/timers -> simulator", "behaviours/handlers -> probes"];

pub fn checks() -> Vec<Check> {
    vec![
        Check {
            id: "C09",
            title: "Smart-dial ranking is a complete, well-ordered permutation",
            level: Level::Exploration,
            rule: "a real Swarm with smart dialing on dials one peer over a multiset (1..8) of addresses drawn from an alphabet of private/public IPv4/IPv6, /dns*/localhost, /dns/example.com, relay (/p2p-circuit), QUIC-v1 / QUIC / TCP / WebTransport / WebRTC-direct and several ports; every transport dial hangs; the recording transport notes the virtual time at which each address' dial future is first polled while the clock is advanced. Oracle on start times: every input address starts exactly once within a finite time; no address of the last group (no IP component, not localhost, not relay) starts strictly before an address of an earlier group (private+localhost, public, relay); within a group no TCP address starts strictly before a QUIC address. This observes what a user relies on - when dials go out - through the timers, not by calling rank_dials. Non-trivial = at least two groups present, or QUIC and TCP in one group; distinct = fingerprint of the multiset of address classes",
            assumptions: &["group membership is decided by a reference classifier written from the documentation of rank_dials"],
            real: REAL,
            stub: STUB,
            scenarios: vec![Scenario::new("smart-dial-order", 3000, 300_000, smart_dial_order).profiles(simkit::runner::NO_FAULTS)],
        },
        Check {
            id: "C10",
            title: "Idle connections close only when truly idle",
            level: Level::Exploration,
            rule: "two nodes, one connection, idle timeout drawn from {0, 50 ms, 5 s, 60 s}; probe handlers in all three composite fields on both ends execute 10..60 drawn commands (keep-alive flips, outbound streams that are held / held-but-ignored-for-keep-alive / dropped, drop all streams) interleaved with virtual-time advances placed around the timeout. The busy state of a connection side (some field keeps alive, some counted stream held, some outbound stream requested and unresolved) is reconstructed from the handlers' own logs. Oracle at every ConnectionClosed caused by KeepAliveTimeout: the side was not busy at the close decision, and the decision came no earlier than (last instant it was busy) + idle_timeout. Liveness: once everything is made idle and the clock passes the timeout, the connection is closed with KeepAliveTimeout. Non-trivial = a busy->idle transition happened before the close or a stream marked ignore_for_keep_alive was held at the close; distinct = fingerprint of (timeout, command kinds, close point)",
            assumptions: &["inbound streams are dropped by the probe handler on arrival, so only outbound streams contribute to busy state"],
            real: REAL,
            stub: STUB,
            scenarios: vec![Scenario::new("idle-close", 2000, 200_000, idle_close)],
        },
        Check {
            id: "C11",
            title: "Protocol-change notifications track the advertised protocol sets",
            level: Level::Exploration,
            rule: "one connection; the three composite fields' handlers change their advertised protocol lists 5..40 times (duplicates within and across fields, invalid names without leading '/', growth, shrinkage, add+remove in one step) and report remote protocols added/removed with overlapping sets. At every quiescence point the fold of the LocalProtocolsChange Added/Removed events received by each field's handler must equal the set of valid names in the union of the current lists, and the fold of RemoteProtocolsChange events must equal the model (added minus removed). Non-trivial = a duplicate name was present across fields while another name was removed, or an invalid name was advertised; distinct = fingerprint of the list-shape sequence",
            assumptions: &["in the derived composite the advertised list is the concatenation of the fields' lists, which is how duplicates realistically arise"],
            real: REAL,
            stub: STUB,
            scenarios: vec![Scenario::new("protocol-changes", 2500, 250_000, protocol_changes).profiles(simkit::runner::NO_FAULTS)],
        },
        Check {
            id: "C12",
            title: "Listen and external address views equal the fold of their events",
            level: Level::Exploration,
            rule: "one Swarm over a scripted transport that emits NewAddress (repeats, same address on two listeners), AddressExpired (incl. never-announced), ListenerError, ListenerClosed (ok/err) in drawn order, while the application and the probe behaviours add/remove/confirm/expire external addresses and report peer addresses, and failing dials produce real DialFailures. After every step: Swarm::listeners() equals, per open listener, announced minus expired; ListenerClosed carries exactly that listener's remaining addresses; external_addresses() equals confirmed minus expired; the ListenAddresses / ExternalAddresses / PeerAddresses helpers embedded in each probe field equal the reference fold of the FromSwarm events they were fed (set; most-recent-first list capped at 20; per-peer LRU capped at 10) and their 'changed' answers are true exactly when the reference contents changed. Non-trivial = an expiry of an unknown address, a duplicate announcement, a capacity eviction or a DialFailure touching no stored address occurred; distinct = fingerprint of the event-kind sequence",
            assumptions: &[],
            real: REAL,
            stub: STUB,
            scenarios: vec![Scenario::new("address-views", 2500, 250_000, address_views).profiles(simkit::runner::NO_FAULTS)],
        },
    ]
}

fn quiet_knobs() -> Knobs {
    let mut k = Knobs::draw();
    k.idle_timeout = Duration::from_secs(3600);
    k
}

fn cfgs(keep_alive: bool) -> [ProbeCfg; 3] {
    let mut c: [ProbeCfg; 3] = Default::default();
    for (k, x) in c.iter_mut().enumerate() {
        x.keep_alive = keep_alive;
        x.protocols = vec![format!("/probe/{}", k + 1)];
    }
    c
}

// =================================================================================================
// C09
// =================================================================================================

#[derive(Clone, Copy, Debug, PartialEq, Eq, PartialOrd, Ord)]
enum Group {
    Private,
    Public,
    Relay,
    NoIp,
}

fn classify(a: &Multiaddr) -> Group {
    if a.iter().any(|p| matches!(p, Protocol::P2pCircuit)) {
        return Group::Relay;
    }
    for p in a.iter() {
        match p {
            Protocol::Ip4(ip) => return if ip.is_private() || ip.is_loopback() || ip.is_link_local() { Group::Private } else { Group::Public },
            Protocol::Ip6(ip) => return if ip.is_loopback() || (ip.segments()[0] & 0xfe00) == 0xfc00 || (ip.segments()[0] & 0xffc0) == 0xfe80 { Group::Private } else { Group::Public },
            _ => {}
        }
    }
    for p in a.iter() {
        if let Protocol::Dns(d) | Protocol::Dns4(d) | Protocol::Dns6(d) = p {
            if d == "localhost" || d.ends_with(".localhost") {
                return Group::Private;
            }
        }
    }
    Group::NoIp
}

fn is_quic(a: &Multiaddr) -> bool {
    a.iter().any(|p| matches!(p, Protocol::Quic | Protocol::QuicV1))
}
fn is_tcp(a: &Multiaddr) -> bool {
    a.iter().any(|p| matches!(p, Protocol::Tcp(_)))
}

fn smart_dial_order() -> SimResult {
    begin();
    draw_policy();
    net::with_net(|n| {
        n.default_script = Script::Hang;
        n.faults = false;
    });
    let mut knobs = quiet_knobs();
    knobs.smart_dial = true;
    let a = Node::new(probe_composite(cfgs(true)), &knobs, None);
    let target = PeerId::random();
    let relay = PeerId::random();
    let hosts = ["/ip4/192.168.1.7", "/ip4/10.1.2.3", "/ip4/8.8.8.8", "/ip4/93.184.216.34", "/ip6/fd00::1", "/ip6/2001:4860:4860::8888", "/ip6/2606:2800:220:1::1", "/dns/localhost", "/dns4/foo.localhost", "/dns/example.com", "/dns4/libp2p.io", "/dns6/ipv6.example.org"];
    let transports = ["/tcp/4001", "/tcp/443", "/udp/4001/quic-v1", "/udp/443/quic-v1", "/udp/4001/quic", "/udp/4001/quic-v1/webtransport", "/udp/4001/webrtc-direct", "/tcp/80/ws"];
    let n = 1 + choose(8);
    let mut addrs: Vec<Multiaddr> = vec![];
    let mut guard = 0;
    while addrs.len() < n && guard < 100 {
        guard += 1;
        let mut s = format!("{}{}", hosts[choose(hosts.len())], transports[choose(transports.len())]);
        if choose(6) == 0 {
            s = format!("{s}/p2p/{relay}/p2p-circuit");
        }
        let m: Multiaddr = s.parse().unwrap();
        // Swarm::dial de-duplicates; keep the input a set so that "exactly once" is well defined
        if !addrs.contains(&m) {
            addrs.push(m);
        }
    }
    for ad in &addrs {
        note_val("cls", classify(ad) as u64 * 4 + is_quic(ad) as u64 * 2 + is_tcp(ad) as u64);
    }
    let first_rec = net::with_net(|nn| nn.dials.len());
    a.dial(DialOpts::peer_id(target).condition(PeerCondition::Always).addresses(addrs.clone()).build()).map_err(|e| violation!("C09/dial-refused", "{e:?}"))?;
    // let time pass: delays are at most a few seconds
    for _ in 0..80 {
        advance(Duration::from_millis(250));
    }
    let recs = net::with_net(|nn| nn.dials[first_rec..].to_vec());
    ensure!(recs.len() == addrs.len(), "C09/not-a-permutation", "{} transport dials created for {} distinct input addresses", recs.len(), addrs.len());
    let mut starts: Vec<(Multiaddr, Duration, Group)> = vec![];
    for ad in &addrs {
        let with_p2p = if ad.iter().any(|p| matches!(p, Protocol::P2pCircuit)) { ad.clone().with(Protocol::P2p(target)) } else { ad.clone().with(Protocol::P2p(target)) };
        let r: Vec<&net::DialRec> = recs.iter().filter(|r| r.addr == with_p2p).collect();
        ensure!(r.len() == 1, "C09/not-a-permutation", "input address {ad} was handed to the transport {} times", r.len());
        let Some((_, t)) = r[0].first_poll else {
            return Err(violation!("C09/never-started", "address {ad} was not dialled within 20 virtual seconds (infinite or absurd delay); inputs {addrs:?}"));
        };
        starts.push((ad.clone(), t, classify(ad)));
    }
    trace!("starts: {:?}", starts.iter().map(|(a, t, g)| format!("{a} @{t:?} {g:?}")).collect::<Vec<_>>());
    for (a1, t1, g1) in &starts {
        for (a2, t2, g2) in &starts {
            if *g1 == Group::NoIp && *g2 != Group::NoIp {
                ensure!(t1 >= t2, "C09/last-group-first", "{a1} (no IP component, last group) starts at {t1:?}, strictly before {a2} ({g2:?} group) at {t2:?}; inputs {:?}", addrs.iter().map(|x| x.to_string()).collect::<Vec<_>>());
            }
            if g1 == g2 && is_tcp(a1) && !is_quic(a1) && is_quic(a2) {
                ensure!(t1 >= t2, "C09/tcp-before-quic", "within group {g1:?}: TCP address {a1} starts at {t1:?}, strictly before QUIC address {a2} at {t2:?}");
            }
        }
    }
    let groups: BTreeSet<Group> = starts.iter().map(|s| s.2).collect();
    if groups.len() >= 2 || starts.iter().any(|s| is_quic(&s.0)) && starts.iter().any(|s| is_tcp(&s.0)) {
        mark_nontrivial();
    }
    set_sample(|| format!("{:?}", starts.iter().map(|(a, t, g)| format!("{a} {g:?} @{}ms", t.as_millis())).collect::<Vec<_>>()));
    Ok(())
}

// =================================================================================================
// C10
// =================================================================================================

#[derive(Default, Clone)]
struct FieldState {
    keep_alive: bool,
    held_counting: usize,
    held_ignored: usize,
    pending_out: usize,
}

fn idle_close() -> SimResult {
    begin();
    draw_policy();
    net::with_net(|n| n.faults = false);
    let timeout = [Duration::ZERO, Duration::from_millis(50), Duration::from_secs(5), Duration::from_secs(60)][choose(4)];
    note_val("timeout_ms", timeout.as_millis() as u64);
    let mut knobs = Knobs::draw();
    knobs.idle_timeout = timeout;
    let init_ka = timeout == Duration::ZERO || choose(3) != 0; // with a zero timeout an initially idle connection closes at once
    let a = Node::new(probe_composite(cfgs(init_ka)), &knobs, None);
    let mut kb = Knobs::draw();
    kb.idle_timeout = Duration::from_secs(3600);
    let b = Node::new(probe_composite(cfgs(true)), &kb, None);
    a.log.lock().unwrap().detail = false;
    a.listen();
    let baddr = b.listen();
    run_until_idle();
    let opts = DialOpts::peer_id(b.peer).addresses(vec![baddr]).build();
    let cid = opts.connection_id();
    a.dial(opts).map_err(|e| violation!("C10/dial", "{e:?}"))?;
    run_until_idle();
    let established = a.model.borrow().ever_established.contains(&cid);
    ensure!(established, "C10/harness", "connection not established");
    let nops = 10 + choose(50);
    let mut sample = vec![];
    let closed = |a: &Node<Composite>| a.events.borrow().iter().any(|(_, e)| matches!(e, Ev::Closed { id, .. } if *id == cid));
    for _ in 0..nops {
        if closed(&a) || violated() {
            break;
        }
        let k = choose(3);
        let cmd = match choose(10) {
            0 | 1 => Some(HCmd::SetKeepAlive(choose(2) == 0)),
            2 => Some(HCmd::OpenStream { proto: format!("/probe/{}", 1 + choose(3)), hold: Hold::Keep }),
            3 => Some(HCmd::OpenStream { proto: format!("/probe/{}", 1 + choose(3)), hold: Hold::KeepIgnored }),
            4 => Some(HCmd::OpenStream { proto: format!("/probe/{}", 1 + choose(3)), hold: Hold::Drop }),
            5 => Some(HCmd::DropStreams),
            6 => Some(HCmd::OpenStream { proto: "/not/supported".into(), hold: Hold::Keep }),
            7 => Some(HCmd::OpenStream { proto: format!("/probe/{}", 1 + choose(3)), hold: Hold::KeepHalfClosed }),
            _ => None,
        };
        match cmd {
            Some(c) => {
                if sample.len() < 40 {
                    sample.push(format!("f{}:{c:?}", k + 1));
                }
                note_val("cmd", match &c {
                    HCmd::SetKeepAlive(v) => *v as u64,
                    HCmd::OpenStream { hold, .. } => 2 + *hold as u64,
                    HCmd::DropStreams => 6,
                    _ => 7,
                });
                with_field(&a, k, |f| f.push(ToSwarm::NotifyHandler { peer_id: b.peer, handler: NotifyHandler::One(cid), event: c }));
                a.kick();
                run_steps(choose(30));
            }
            None => {
                let unit = timeout.as_millis().max(20) as u64;
                let d = [1, unit / 2, unit.saturating_sub(1), unit, unit + 1, unit * 2][choose(6)];
                if sample.len() < 40 {
                    sample.push(format!("+{d}ms"));
                }
                advance(Duration::from_millis(d.max(1)));
            }
        }
    }
    let was_closed_during = closed(&a);
    if !was_closed_during && !violated() {
        // liveness: make everything idle, pass the timeout
        for k in 0..3 {
            with_field(&a, k, |f| {
                f.push(ToSwarm::NotifyHandler { peer_id: b.peer, handler: NotifyHandler::One(cid), event: HCmd::SetKeepAlive(false) });
                f.push(ToSwarm::NotifyHandler { peer_id: b.peer, handler: NotifyHandler::One(cid), event: HCmd::DropStreams });
            });
        }
        a.kick();
        run_until_idle();
        // outbound streams that finished negotiating after the first DropStreams are dropped now
        for k in 0..3 {
            with_field(&a, k, |f| f.push(ToSwarm::NotifyHandler { peer_id: b.peer, handler: NotifyHandler::One(cid), event: HCmd::DropStreams }));
        }
        a.kick();
        run_until_idle();
        advance(Duration::from_secs(15));
        advance(timeout + Duration::from_secs(1));
        ensure!(closed(&a), "C10/never-closed", "connection idle for more than idle_timeout={timeout:?} (+16 s) but it was not closed");
    }
    if violated() {
        return Ok(());
    }
    // ---- reconstruct the busy timeline of A's side from the handlers' logs
    let log = a.log.lock().unwrap();
    let mut st: [FieldState; 3] = Default::default();
    for s in st.iter_mut() {
        s.keep_alive = init_ka;
    }
    let busy = |st: &[FieldState; 3]| st.iter().any(|f| f.keep_alive || f.held_counting > 0 || f.pending_out > 0);
    let mut last_busy_end: Option<Duration> = None; // instant at which the side last stopped being busy
    let mut busy_start: Option<Duration> = if init_ka { Some(Duration::ZERO) } else { None };
    let mut created_at: Option<Duration> = None;
    let mut close_at: Option<Duration> = None;
    let mut busy_at_close = false;
    let mut saw_transition = false;
    let mut ignored_at_close = 0;
    for (i, (_, h)) in log.hand.iter().enumerate() {
        let at = log.hand_at[i];
        let id = match h {
            HEv::Created { id, .. } | HEv::Command { id, .. } | HEv::PollClose { id, .. } | HEv::OutboundStream { id, .. } | HEv::OutboundFailed { id, .. } => *id,
            _ => continue,
        };
        if id != cid {
            continue;
        }
        let was = busy(&st);
        match h {
            HEv::Created { .. } => {
                created_at.get_or_insert(at);
            }
            HEv::Command { tag, cmd, .. } => {
                let f = &mut st[*tag as usize - 1];
                match cmd {
                    HCmd::SetKeepAlive(v) => f.keep_alive = *v,
                    HCmd::OpenStream { .. } => f.pending_out += 1,
                    HCmd::DropStreams => {
                        f.held_counting = 0;
                        f.held_ignored = 0;
                    }
                    _ => {}
                }
            }
            HEv::OutboundStream { tag, hold, .. } => {
                let f = &mut st[*tag as usize - 1];
                f.pending_out = f.pending_out.saturating_sub(1);
                match hold {
                    Hold::Keep | Hold::KeepHalfClosed => f.held_counting += 1,
                    Hold::KeepIgnored => f.held_ignored += 1,
                    Hold::Drop => {}
                }
            }
            HEv::OutboundFailed { tag, .. } => {
                let f = &mut st[*tag as usize - 1];
                f.pending_out = f.pending_out.saturating_sub(1);
            }
            HEv::PollClose { .. } => {
                if close_at.is_none() {
                    close_at = Some(at);
                    busy_at_close = busy(&st);
                    ignored_at_close = st.iter().map(|f| f.held_ignored).sum();
                }
            }
            _ => {}
        }
        if close_at.is_none() {
            let now_busy = busy(&st);
            if !was && now_busy {
                busy_start = Some(at);
            }
            if was && !now_busy {
                // A busy period of zero virtual duration (keep-alive switched on and off again before the connection task
                // could sample connection_keep_alive()) is not observable by any implementation: it does not restart the clock.
                if busy_start.map(|s| at > s).unwrap_or(true) {
                    last_busy_end = Some(at);
                }
                saw_transition = true;
            }
        }
    }
    let cause = a.events.borrow().iter().find_map(|(_, e)| match e {
        Ev::Closed { id, cause, .. } if *id == cid => Some(cause.clone()),
        _ => None,
    });
    let by_keepalive = matches!(&cause, Some(Some(c)) if c.to_lowercase().contains("keep-alive") || c.to_lowercase().contains("keepalive"));
    trace!("cause={cause:?} close_at={close_at:?} last_busy_end={last_busy_end:?} created={created_at:?} busy_at_close={busy_at_close}");
    if by_keepalive {
        let t_close = close_at.ok_or_else(|| violation!("C10/harness", "closed by keep-alive but no poll_close logged"))?;
        ensure!(!busy_at_close, "C10/closed-while-busy", "connection closed with KeepAliveTimeout while a handler kept it alive, held a counted stream or had an outbound stream request outstanding (timeout {timeout:?}); state {:?}", st.iter().map(|f| (f.keep_alive, f.held_counting, f.pending_out)).collect::<Vec<_>>());
        let idle_since = last_busy_end.or(created_at).unwrap_or_default();
        ensure!(t_close >= idle_since + timeout, "C10/closed-too-early", "connection closed with KeepAliveTimeout at {t_close:?}; it was last busy until {idle_since:?} and idle_timeout is {timeout:?}");
        probe("closed_by_keep_alive_timeout");
        if saw_transition || ignored_at_close > 0 {
            mark_nontrivial();
        }
        if ignored_at_close > 0 {
            probe("ignored_stream_held_at_close");
        }
    } else if !was_closed_during {
        return Err(violation!("C10/wrong-cause", "idle connection was closed, but with cause {cause:?} instead of KeepAliveTimeout"));
    }
    set_sample(|| format!("timeout {timeout:?}, initial keep_alive {init_ka}: {} -> closed by keep-alive: {by_keepalive}, cause {cause:?}", sample.join(" ")));
    Ok(())
}

// =================================================================================================
// C11
// =================================================================================================

fn protocol_changes() -> SimResult {
    begin();
    draw_policy();
    net::with_net(|n| n.faults = false);
    let a = Node::new(probe_composite(cfgs(true)), &quiet_knobs(), None);
    let b = Node::new(probe_composite(cfgs(true)), &quiet_knobs(), None);
    a.listen();
    let baddr = b.listen();
    run_until_idle();
    let opts = DialOpts::peer_id(b.peer).addresses(vec![baddr]).build();
    let cid = opts.connection_id();
    a.dial(opts).map_err(|e| violation!("C11/dial", "{e:?}"))?;
    run_until_idle();
    let names = ["/a", "/b", "/c", "/d/1.0.0", "/probe/1", "/probe/2", "x-invalid", "", "noslash/b"];
    let mut lists: [Vec<String>; 3] = [vec!["/probe/1".into()], vec!["/probe/2".into()], vec!["/probe/3".into()]];
    let remote_model: BTreeSet<String> = BTreeSet::new();
    let nsteps = 5 + choose(36);
    let mut interesting = false;
    let mut sample = vec![];
    for step_no in 0..nsteps {
        if violated() {
            break;
        }
        let k = choose(3);
        if choose(4) != 0 {
            // new advertised list for field k
            let n = choose(5);
            let l: Vec<String> = (0..n).map(|_| names[choose(names.len())].to_string()).collect();
            let before_union: Vec<String> = lists.iter().flatten().cloned().collect();
            lists[k] = l.clone();
            let after_union: Vec<String> = lists.iter().flatten().cloned().collect();
            let dup = {
                let mut s = BTreeSet::new();
                after_union.iter().any(|x| !s.insert(x.clone()))
            };
            let removed = before_union.iter().any(|x| !after_union.contains(x));
            if (dup && removed) || l.iter().any(|x| !x.starts_with('/')) {
                interesting = true;
            }
            note_val("list", n as u64 + 8 * dup as u64 + 16 * removed as u64);
            if sample.len() < 30 {
                sample.push(format!("f{}={l:?}", k + 1));
            }
            let cmd = match choose(4) {
                0 => {
                    probe("protocols-changed-inside-handler-poll");
                    HCmd::SetProtocolsLater(l, true)
                }
                1 => {
                    probe("protocols-changed-in-on-connection-event");
                    HCmd::SetProtocolsLater(l, false)
                }
                _ => HCmd::SetProtocols(l),
            };
            with_field(&a, k, |f| f.push(ToSwarm::NotifyHandler { peer_id: b.peer, handler: NotifyHandler::One(cid), event: cmd }));
        } else {
            let add = choose(2) == 0;
            let n = 1 + choose(3);
            let protos: Vec<String> = (0..n).map(|_| names[choose(6)].to_string()).collect();
            note_val("remote", add as u64);
            if sample.len() < 30 {
                sample.push(format!("f{} remote {}{protos:?}", k + 1, if add { "+" } else { "-" }));
            }
            with_field(&a, k, |f| f.push(ToSwarm::NotifyHandler { peer_id: b.peer, handler: NotifyHandler::One(cid), event: HCmd::ReportRemote { add, protos } }));
        }
        a.kick();
        // sometimes several changes land in the same connection poll pass
        if choose(3) == 0 {
            continue;
        }
        run_until_idle();
        check_protocol_fold(&a, cid, &lists, &remote_model, step_no)?;
    }
    run_until_idle();
    if !violated() {
        check_protocol_fold(&a, cid, &lists, &remote_model, nsteps)?;
    }
    if interesting {
        mark_nontrivial();
    }
    set_sample(|| sample.join("; "));
    Ok(())
}

fn check_protocol_fold(a: &Node<Composite>, cid: ConnectionId, _lists: &[Vec<String>; 3], remote_model_unused: &BTreeSet<String>, step_no: usize) -> SimResult {
    let log = a.log.lock().unwrap();
    // what each field's handler advertises right now: its initial list, then every change it actually applied
    // (in on_behaviour_event, inside poll, or in on_connection_event)
    let mut current: [Vec<String>; 3] = [vec!["/probe/1".into()], vec!["/probe/2".into()], vec!["/probe/3".into()]];
    for (_, h) in &log.hand {
        if let HEv::ProtocolsApplied { tag, id, list } = h {
            if *id == cid {
                current[*tag as usize - 1] = list.clone();
            }
        }
    }
    let lists = &current;
    let expected_local: BTreeSet<String> = lists.iter().flatten().filter(|x| x.starts_with('/')).cloned().collect();
    // the reports are folded in the order in which the handlers handed them to the connection
    let mut remote_model: BTreeSet<String> = BTreeSet::new();
    for (_, h) in &log.hand {
        if let HEv::Reported { id, add, protos, .. } = h {
            if *id == cid {
                for p in protos {
                    if *add {
                        remote_model.insert(p.clone());
                    } else {
                        remote_model.remove(p);
                    }
                }
            }
        }
    }
    let _ = remote_model_unused;
    let remote_model = &remote_model;
    for tag in 1u8..=3 {
        let mut local: BTreeSet<String> = BTreeSet::new();
        let mut remote: BTreeSet<String> = BTreeSet::new();
        for (_, h) in &log.hand {
            match h {
                HEv::LocalProtocols { tag: t, id, added, protos } if *t == tag && *id == cid => {
                    for p in protos {
                        if *added {
                            local.insert(p.clone());
                        } else {
                            local.remove(p);
                        }
                    }
                }
                HEv::RemoteProtocols { tag: t, id, added, protos } if *t == tag && *id == cid => {
                    for p in protos {
                        if *added {
                            remote.insert(p.clone());
                        } else {
                            remote.remove(p);
                        }
                    }
                }
                _ => {}
            }
        }
        ensure!(local == expected_local, "C11/local-fold", "after step {step_no}: folding the LocalProtocolsChange events seen by field {tag}'s handler gives {local:?}, but the connection currently advertises {expected_local:?} (lists per field: {lists:?})");
        ensure!(&remote == remote_model, "C11/remote-fold", "after step {step_no}: folding the RemoteProtocolsChange events seen by field {tag}'s handler gives {remote:?}, reported so far (added minus removed): {remote_model:?}");
    }
    Ok(())
}

// =================================================================================================
// C12
// =================================================================================================

#[derive(Default)]
struct RefViews {
    listen: BTreeSet<String>,
    external: Vec<String>,
    peers: BTreeMap<PeerId, Vec<String>>, // most recently used last
}

fn address_views() -> SimResult {
    begin();
    draw_policy();
    net::with_net(|n| n.faults = false);
    let a = Node::new(probe_composite(cfgs(true)), &quiet_knobs(), None);
    let nl = 1 + choose(3);
    let mut lids: Vec<ListenerId> = vec![];
    for i in 0..nl {
        let id = a.swarm.borrow_mut().listen_on(net::node_addr(a.idx, 4001 + i as u16)).unwrap();
        lids.push(id);
    }
    a.kick();
    run_until_idle();
    let pool: Vec<Multiaddr> = (0..6).map(|i| format!("/ip4/10.5.0.{}/tcp/{}", 1 + i % 3, 7000 + i).parse().unwrap()).collect();
    let ext_pool: Vec<Multiaddr> = (0..25).map(|i| format!("/ip4/203.0.113.{}/tcp/4001", i + 1).parse().unwrap()).collect();
    let peers: Vec<PeerId> = (0..3).map(|_| PeerId::random()).collect();
    let peer_addr_pool: Vec<Multiaddr> = (0..13).map(|i| format!("/ip4/198.51.100.{}/tcp/1", i + 1).parse().unwrap()).collect();
    // reference state of the Swarm's own views
    let mut per_listener: BTreeMap<String, Vec<Multiaddr>> = BTreeMap::new();
    for (i, id) in lids.iter().enumerate() {
        per_listener.insert(id.to_string(), vec![net::node_addr(a.idx, 4001 + i as u16)]);
    }
    let mut external: BTreeSet<String> = BTreeSet::new();
    let nsteps = 10 + choose(60);
    let mut interesting = false;
    let mut sample = vec![];
    for _ in 0..nsteps {
        if violated() {
            break;
        }
        let op = choose(12);
        note_val("op", op as u64);
        let desc;
        match op {
            0 | 1 => {
                if lids.is_empty() {
                    continue;
                }
                let id = lids[choose(lids.len())];
                let ad = pool[choose(pool.len())].clone();
                let l = per_listener.entry(id.to_string()).or_default();
                if l.contains(&ad) {
                    interesting = true; // duplicate announcement
                } else {
                    l.push(ad.clone());
                }
                desc = format!("NewAddress({id:?},{ad})");
                net::emit(a.idx, TEvent::NewAddress { id, addr: ad });
            }
            2 => {
                if lids.is_empty() {
                    continue;
                }
                let id = lids[choose(lids.len())];
                let ad = pool[choose(pool.len())].clone();
                let l = per_listener.entry(id.to_string()).or_default();
                if !l.contains(&ad) {
                    interesting = true; // expiry of something never announced on that listener
                }
                l.retain(|x| x != &ad);
                desc = format!("AddressExpired({id:?},{ad})");
                net::emit(a.idx, TEvent::AddressExpired { id, addr: ad });
            }
            3 => {
                if lids.is_empty() {
                    continue;
                }
                let id = lids[choose(lids.len())];
                desc = format!("ListenerError({id:?})");
                net::emit(a.idx, TEvent::ListenerError { id, err: std::io::Error::other("sim") });
            }
            4 => {
                if lids.len() <= 1 && choose(3) != 0 {
                    continue;
                }
                if lids.is_empty() {
                    continue;
                }
                let i = choose(lids.len());
                let id = lids.remove(i);
                let ok = choose(2) == 0;
                desc = format!("ListenerClosed({id:?},ok={ok})");
                net::emit(a.idx, TEvent::ListenerClosed { id, reason: if ok { Ok(()) } else { Err(std::io::Error::other("sim")) } });
                a.kick();
                run_until_idle();
                // the event must carry exactly that listener's remaining addresses
                let expected = per_listener.remove(&id.to_string()).unwrap_or_default();
                let evs = a.events.borrow();
                let got = evs.iter().rev().find_map(|(_, e)| match e {
                    Ev::ListenerClosed { lid, addrs, .. } if *lid == id => Some(addrs.clone()),
                    _ => None,
                });
                let norm = |v: &[Multiaddr]| {
                    let mut s: Vec<String> = v.iter().map(|x| x.to_string()).collect();
                    s.sort();
                    s
                };
                ensure!(got.as_ref().map(|g| norm(g)) == Some(norm(&expected)), "C12/listener-closed-addresses", "ListenerClosed for {id:?} carries {got:?}, that listener's remaining addresses are {expected:?}");
            }
            5 => {
                let ad = ext_pool[choose(ext_pool.len())].clone();
                external.insert(ad.to_string());
                desc = format!("add_external({ad})");
                a.swarm.borrow_mut().add_external_address(ad);
            }
            6 => {
                let ad = ext_pool[choose(ext_pool.len())].clone();
                if !external.remove(&ad.to_string()) {
                    interesting = true;
                }
                desc = format!("remove_external({ad})");
                a.swarm.borrow_mut().remove_external_address(&ad);
            }
            7 => {
                let ad = ext_pool[choose(ext_pool.len())].clone();
                let k = choose(3);
                let confirm = choose(3) != 0;
                if confirm {
                    external.insert(ad.to_string());
                } else if !external.remove(&ad.to_string()) {
                    interesting = true;
                }
                desc = format!("f{}.{}({ad})", k + 1, if confirm { "ExternalAddrConfirmed" } else { "ExternalAddrExpired" });
                with_field(&a, k, |f| f.push(if confirm { ToSwarm::ExternalAddrConfirmed(ad) } else { ToSwarm::ExternalAddrExpired(ad) }));
            }
            8 if choose(4) == 0 => {
                // a run of announcements that fills one peer's cache (capacity 10), with an old address announced again in
                // the middle: the re-announced one must outlive the ones announced before it
                let p = peers[choose(peers.len())];
                let start = choose(peer_addr_pool.len());
                let n = 9 + choose(5);
                let again_at = 3 + choose(n - 3);
                for j in 0..n {
                    let ad = peer_addr_pool[(start + j) % peer_addr_pool.len()].clone();
                    a.swarm.borrow_mut().add_peer_address(p, ad);
                    if j == again_at {
                        let old = peer_addr_pool[(start + choose(3)) % peer_addr_pool.len()].clone();
                        a.swarm.borrow_mut().add_peer_address(p, old);
                    }
                }
                probe("peer_address_cache_filled_with_refresh");
                desc = format!("add_peer_address x{n} with a re-announcement");
            }
            8 | 9 => {
                let p = peers[choose(peers.len())];
                let ad = peer_addr_pool[choose(peer_addr_pool.len())].clone();
                desc = format!("add_peer_address({ad})");
                if choose(2) == 0 {
                    a.swarm.borrow_mut().add_peer_address(p, ad);
                } else {
                    let k = choose(3);
                    with_field(&a, k, |f| f.push(ToSwarm::NewExternalAddrOfPeer { peer_id: p, address: ad }));
                }
            }
            10 => {
                // a failing dial -> a real DialFailure(Transport) with some of that peer's addresses
                let p = peers[choose(peers.len())];
                let n = 1 + choose(3);
                let ads: Vec<Multiaddr> = (0..n).map(|_| peer_addr_pool[choose(peer_addr_pool.len())].clone()).collect();
                for x in &ads {
                    net::script(x, Script::Refuse);
                }
                desc = format!("failing dial to {n} addresses");
                let _ = a.dial(DialOpts::peer_id(p).condition(PeerCondition::Always).addresses(ads).build());
            }
            _ => {
                let id = a.swarm.borrow_mut().listen_on(net::node_addr(a.idx, 4100 + lids.len() as u16 + choose(50) as u16));
                match id {
                    Ok(id) => {
                        a.kick();
                        run_until_idle();
                        // SimTransport announces the address it was asked to listen on
                        let evs = a.events.borrow();
                        let ad = evs.iter().rev().find_map(|(_, e)| match e {
                            Ev::NewListenAddr { lid, addr } if *lid == id => Some(addr.clone()),
                            _ => None,
                        });
                        lids.push(id);
                        per_listener.insert(id.to_string(), ad.into_iter().collect());
                        desc = format!("listen_on -> {id:?}");
                    }
                    Err(_) => continue,
                }
            }
        }
        if sample.len() < 30 {
            sample.push(desc.clone());
        }
        trace!("OP {desc}");
        a.kick();
        run_until_idle();
        // ---- Swarm views
        let s = a.swarm.borrow();
        let mut got: Vec<String> = s.listeners().map(|x| x.to_string()).collect();
        got.sort();
        let mut exp: Vec<String> = per_listener.values().flatten().map(|x| x.to_string()).collect();
        exp.sort();
        ensure!(got == exp, "C12/listeners", "after {desc}: Swarm::listeners() = {got:?}, announced-minus-expired over open listeners = {exp:?}");
        let got_ext: BTreeSet<String> = s.external_addresses().map(|x| x.to_string()).collect();
        ensure!(got_ext == external, "C12/external-addresses", "after {desc}: Swarm::external_addresses() = {got_ext:?}, confirmed-minus-expired = {external:?}");
        drop(s);
        // ---- helpers embedded in the probe fields vs the reference fold of what they were fed
        for k in 0..3 {
            let r = with_field(&a, k, |f| check_helpers(f, k, &mut interesting));
            r?;
        }
    }
    if interesting {
        mark_nontrivial();
    }
    set_sample(|| sample.join("; "));
    Ok(())
}

fn check_helpers(f: &mut Probe, k: usize, interesting: &mut bool) -> SimResult {
    let mut r = RefViews::default();
    for (i, (ev, changed)) in f.addr_log.iter().enumerate() {
        let (exp, which): ([bool; 3], &str) = match ev {
            AddrEv::NewListenAddr(a) => ([r.listen.insert(a.to_string()), false, false], "NewListenAddr"),
            AddrEv::ExpiredListenAddr(a) => ([r.listen.remove(&a.to_string()), false, false], "ExpiredListenAddr"),
            AddrEv::ExtConfirmed(a) => {
                let s = a.to_string();
                let c = if let Some(p) = r.external.iter().position(|x| x == &s) {
                    r.external.remove(p);
                    r.external.insert(0, s);
                    false // a refresh reorders but does not change the contents
                } else {
                    r.external.insert(0, s);
                    if r.external.len() > 20 {
                        r.external.pop();
                        *interesting = true;
                    }
                    true
                };
                ([false, c, false], "ExternalAddrConfirmed")
            }
            AddrEv::ExtExpired(a) => {
                let s = a.to_string();
                let c = if let Some(p) = r.external.iter().position(|x| x == &s) {
                    r.external.remove(p);
                    true
                } else {
                    false
                };
                ([false, c, false], "ExternalAddrExpired")
            }
            AddrEv::ExtOfPeer(p, a) => {
                let s = a.clone().with_p2p(*p).map(|x| x.to_string());
                let c = match s {
                    Err(_) => false,
                    Ok(s) => {
                        let l = r.peers.entry(*p).or_default();
                        if let Some(pos) = l.iter().position(|x| x == &s) {
                            let x = l.remove(pos);
                            l.push(x);
                            false
                        } else {
                            l.push(s);
                            if l.len() > 10 {
                                l.remove(0);
                                *interesting = true;
                            }
                            true
                        }
                    }
                };
                ([false, false, c], "NewExternalAddrOfPeer")
            }
            AddrEv::DialFailureTransport(p, addrs) => {
                let mut c = false;
                if let Some(l) = r.peers.get_mut(p) {
                    for a in addrs {
                        if let Ok(s) = a.clone().with_p2p(*p).map(|x| x.to_string()) {
                            if let Some(pos) = l.iter().position(|x| x == &s) {
                                l.remove(pos);
                                c = true;
                            }
                        }
                    }
                }
                if !c {
                    *interesting = true;
                }
                ([false, false, c], "DialFailure(Transport)")
            }
            AddrEv::Irrelevant => ([false, false, false], "other"),
        };
        for (h, name) in ["ListenAddresses", "ExternalAddresses", "PeerAddresses"].iter().enumerate() {
            ensure!(changed[h] == exp[h], "C12/changed-flag", "field {}: {name}::on_swarm_event({which}) (event #{i}) returned changed={} but the reference contents {}", k + 1, changed[h], if exp[h] { "did change" } else { "did not change" });
        }
    }
    let got_listen: BTreeSet<String> = f.listen.iter().map(|x| x.to_string()).collect();
    ensure!(got_listen == r.listen, "C12/listen-helper", "field {}: ListenAddresses holds {got_listen:?}, fold of its events gives {:?}", k + 1, r.listen);
    let got_ext: Vec<String> = f.external.iter().map(|x| x.to_string()).collect();
    ensure!(got_ext == r.external, "C12/external-helper", "field {}: ExternalAddresses holds {got_ext:?} (most recent first), fold of its events gives {:?}", k + 1, r.external);
    let peers: Vec<PeerId> = r.peers.keys().copied().collect();
    for p in peers {
        // contents only: no order is documented for this helper; which addresses survive a full cache is (the least recently
        // announced one goes)
        let mut got: Vec<String> = f.peer_addrs.get(&p).map(|x| x.to_string()).collect();
        got.sort();
        let mut exp = r.peers.get(&p).cloned().unwrap_or_default();
        exp.sort();
        ensure!(got == exp, "C12/peer-helper", "field {}: PeerAddresses for {p} holds {got:?}, fold of its events gives {exp:?}", k + 1);
    }
    Ok(())
}
