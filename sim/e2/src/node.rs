//! A simulated node: a real Swarm over SimTransport/SimExecutor, polled as one scheduler unit,
//! plus the reference model of connection state folded from the returned events (C01/C02).

use crate::net::{self, SimExecutor, SimTransport};
use crate::probe::*;
use futures::StreamExt;
use libp2p_core::multiaddr::Multiaddr;
use libp2p_core::transport::ListenerId;
use libp2p_core::Transport;
use libp2p_identity::{Keypair, PeerId};
use libp2p_swarm::dial_opts::DialOpts;
use libp2p_swarm::{Config, ConnectionId, DialError, NetworkBehaviour, Swarm, SwarmEvent};
use simkit::*;
use std::cell::RefCell;
use std::collections::{BTreeMap, BTreeSet};
use std::num::{NonZeroU8, NonZeroUsize};
use std::rc::Rc;
use std::task::Poll;
use std::time::Duration;

#[derive(NetworkBehaviour)]
#[behaviour(prelude = "libp2p_swarm::derive_prelude")]
pub struct Composite {
    pub p1: Probe,
    /// the second field sits behind libp2p-swarm's `Toggle` combinator (always enabled here)
    pub p2: libp2p_swarm::behaviour::toggle::Toggle<Probe>,
    /// the third behind `Either` (side drawn per node)
    pub p3: either::Either<Probe, Probe>,
}

impl Composite {
    pub fn fields(&self) -> [&Probe; 3] {
        let p3 = match &self.p3 {
            either::Either::Left(p) | either::Either::Right(p) => p,
        };
        [&self.p1, self.p2.as_ref().expect("toggle enabled"), p3]
    }
    pub fn fields_mut(&mut self) -> [&mut Probe; 3] {
        let p3 = match &mut self.p3 {
            either::Either::Left(p) | either::Either::Right(p) => p,
        };
        [&mut self.p1, self.p2.as_mut().expect("toggle enabled"), p3]
    }
}

/// Abstracted SwarmEvent (cloneable, without behaviour payloads).
#[derive(Debug, Clone)]
pub enum Ev {
    Established { id: ConnectionId, peer: PeerId, outbound: bool, num_established: u32, concurrent_errors: Option<Vec<Multiaddr>>, addr: Multiaddr },
    Closed { id: ConnectionId, peer: PeerId, num_established: u32, cause: Option<String> },
    Incoming { id: ConnectionId, local: Multiaddr, send_back: Multiaddr },
    IncomingError { id: ConnectionId, kind: String, peer: Option<PeerId> },
    OutgoingError { id: ConnectionId, peer: Option<PeerId>, kind: String, addrs: Vec<Multiaddr> },
    Dialing { id: ConnectionId, peer: Option<PeerId> },
    NewListenAddr { lid: ListenerId, addr: Multiaddr },
    ExpiredListenAddr { lid: ListenerId, addr: Multiaddr },
    ListenerClosed { lid: ListenerId, addrs: Vec<Multiaddr>, ok: bool },
    ListenerError { lid: ListenerId },
    ExtCandidate(Multiaddr),
    ExtConfirmed(Multiaddr),
    ExtExpired(Multiaddr),
    ExtOfPeer(PeerId, Multiaddr),
    Behaviour(String),
    /// not a SwarmEvent: the application called Swarm::dial and got this back
    AppDial { id: ConnectionId, peer: Option<PeerId>, result: Result<(), String> },
    Other,
}

pub fn abstract_event<T: std::fmt::Debug>(e: &SwarmEvent<T>) -> Ev {
    match e {
        SwarmEvent::ConnectionEstablished { peer_id, connection_id, endpoint, num_established, concurrent_dial_errors, .. } => Ev::Established {
            id: *connection_id,
            peer: *peer_id,
            outbound: endpoint.is_dialer(),
            num_established: num_established.get(),
            concurrent_errors: concurrent_dial_errors.as_ref().map(|v| v.iter().map(|(a, _)| a.clone()).collect()),
            addr: endpoint.get_remote_address().clone(),
        },
        SwarmEvent::ConnectionClosed { peer_id, connection_id, num_established, cause, .. } => Ev::Closed { id: *connection_id, peer: *peer_id, num_established: *num_established, cause: cause.as_ref().map(|c| format!("{c}")) },
        SwarmEvent::IncomingConnection { connection_id, local_addr, send_back_addr } => Ev::Incoming { id: *connection_id, local: local_addr.clone(), send_back: send_back_addr.clone() },
        SwarmEvent::IncomingConnectionError { connection_id, error, peer_id, .. } => Ev::IncomingError { id: *connection_id, kind: listen_err_kind(error), peer: *peer_id },
        SwarmEvent::OutgoingConnectionError { connection_id, peer_id, error } => Ev::OutgoingError {
            id: *connection_id,
            peer: *peer_id,
            kind: dial_err_kind(error),
            addrs: match error {
                DialError::Transport(v) => v.iter().map(|(a, _)| a.clone()).collect(),
                _ => vec![],
            },
        },
        SwarmEvent::Dialing { peer_id, connection_id } => Ev::Dialing { id: *connection_id, peer: *peer_id },
        SwarmEvent::NewListenAddr { listener_id, address } => Ev::NewListenAddr { lid: *listener_id, addr: address.clone() },
        SwarmEvent::ExpiredListenAddr { listener_id, address } => Ev::ExpiredListenAddr { lid: *listener_id, addr: address.clone() },
        SwarmEvent::ListenerClosed { listener_id, addresses, reason } => Ev::ListenerClosed { lid: *listener_id, addrs: addresses.clone(), ok: reason.is_ok() },
        SwarmEvent::ListenerError { listener_id, .. } => Ev::ListenerError { lid: *listener_id },
        SwarmEvent::NewExternalAddrCandidate { address } => Ev::ExtCandidate(address.clone()),
        SwarmEvent::ExternalAddrConfirmed { address } => Ev::ExtConfirmed(address.clone()),
        SwarmEvent::ExternalAddrExpired { address } => Ev::ExtExpired(address.clone()),
        SwarmEvent::NewExternalAddrOfPeer { peer_id, address } => Ev::ExtOfPeer(*peer_id, address.clone()),
        SwarmEvent::Behaviour(b) => Ev::Behaviour(format!("{b:?}")),
        _ => Ev::Other,
    }
}

/// Reference model of one node's connection state, folded from what the application saw.
#[derive(Default, Debug, Clone)]
pub struct Model {
    pub pending_out: BTreeMap<ConnectionId, Option<PeerId>>,
    pub pending_in: BTreeSet<ConnectionId>,
    pub established: BTreeMap<ConnectionId, (PeerId, bool)>,
    /// how every id ever seen was resolved: "established" | "out-error" | "in-error"
    pub resolved: BTreeMap<ConnectionId, Vec<&'static str>>,
    pub closed: BTreeMap<ConnectionId, u32>,
    pub seen: BTreeSet<ConnectionId>,
    pub ever_established: BTreeSet<ConnectionId>,
}

impl Model {
    pub fn peers(&self) -> BTreeSet<PeerId> {
        self.established.values().map(|(p, _)| *p).collect()
    }
    pub fn count_peer(&self, p: &PeerId) -> usize {
        self.established.values().filter(|(q, _)| q == p).count()
    }
    pub fn is_dialing(&self, p: &PeerId) -> bool {
        self.pending_out.values().any(|q| q.as_ref() == Some(p))
    }
    /// Fold one event; returns a violation of the C01 pairing rules if there is one.
    pub fn apply(&mut self, ev: &Ev) -> Result<(), Violation> {
        match ev {
            Ev::AppDial { id, peer, result } => {
                self.seen.insert(*id);
                if result.is_ok() {
                    self.pending_out.insert(*id, *peer);
                } else {
                    self.resolved.entry(*id).or_default().push("dial-refused-synchronously");
                }
            }
            Ev::Dialing { id, peer } => {
                self.seen.insert(*id);
                ensure!(!self.pending_out.contains_key(id) && !self.resolved.contains_key(id), "C01/dialing-twice", "Dialing reported twice (or after resolution) for connection {id}");
                self.pending_out.insert(*id, *peer);
            }
            Ev::Incoming { id, .. } => {
                self.seen.insert(*id);
                ensure!(!self.pending_in.contains(id) && !self.resolved.contains_key(id), "C01/incoming-twice", "IncomingConnection reported twice for {id}");
                self.pending_in.insert(*id);
            }
            Ev::Established { id, peer, outbound, .. } => {
                self.seen.insert(*id);
                ensure!(!self.resolved.contains_key(id), "C01/resolved-twice", "connection {id} reported established after it was already resolved as {:?}", self.resolved.get(id));
                if *outbound {
                    ensure!(self.pending_out.remove(id).is_some(), "C01/established-without-dial", "outbound connection {id} established but was never pending");
                } else {
                    ensure!(self.pending_in.remove(id), "C01/established-without-incoming", "inbound connection {id} established without IncomingConnection");
                }
                self.resolved.entry(*id).or_default().push("established");
                self.established.insert(*id, (*peer, *outbound));
                self.ever_established.insert(*id);
            }
            Ev::OutgoingError { id, .. } => {
                self.seen.insert(*id);
                ensure!(!self.resolved.contains_key(id), "C01/resolved-twice", "OutgoingConnectionError for {id} which was already resolved as {:?}", self.resolved.get(id));
                ensure!(self.pending_out.remove(id).is_some(), "C01/error-without-dial", "OutgoingConnectionError for {id} which was not a pending dial");
                self.resolved.entry(*id).or_default().push("out-error");
            }
            Ev::IncomingError { id, .. } => {
                self.seen.insert(*id);
                ensure!(!self.resolved.contains_key(id), "C01/resolved-twice", "IncomingConnectionError for {id} which was already resolved as {:?}", self.resolved.get(id));
                // denied at the pending stage: no IncomingConnection was reported before
                self.pending_in.remove(id);
                self.resolved.entry(*id).or_default().push("in-error");
            }
            Ev::Closed { id, .. } => {
                ensure!(self.ever_established.contains(id), "C01/closed-never-established", "ConnectionClosed for {id} which was never reported established");
                ensure!(self.established.remove(id).is_some(), "C01/closed-twice", "ConnectionClosed reported twice for {id}");
                *self.closed.entry(*id).or_insert(0) += 1;
            }
            _ => {}
        }
        Ok(())
    }
}

pub struct Knobs {
    pub notify_buffer: usize,
    pub event_buffer: usize,
    pub dial_concurrency: u8,
    pub idle_timeout: Duration,
    pub max_negotiating_inbound: usize,
    pub smart_dial: bool,
}

impl Knobs {
    pub fn draw() -> Self {
        Knobs {
            notify_buffer: 1 + choose(8),
            event_buffer: choose(8),
            dial_concurrency: 1 + choose(8) as u8,
            idle_timeout: [Duration::ZERO, Duration::from_millis(50), Duration::from_secs(5), Duration::from_secs(60)][choose(4)],
            max_negotiating_inbound: [1usize, 2, 128][choose(3)],
            smart_dial: false,
        }
    }
    pub fn config(&self, node: usize) -> Config {
        let mut c = Config::with_executor(SimExecutor { node })
            .with_notify_handler_buffer_size(NonZeroUsize::new(self.notify_buffer).unwrap())
            .with_per_connection_event_buffer_size(self.event_buffer)
            .with_dial_concurrency_factor(NonZeroU8::new(self.dial_concurrency).unwrap())
            .with_idle_connection_timeout(self.idle_timeout)
            .with_max_negotiating_inbound_streams(self.max_negotiating_inbound);
        if self.smart_dial {
            c = c.with_smart_dial();
        }
        c
    }
}

pub type Hook<B> = Box<dyn FnMut(&Swarm<B>, &Ev)>;

pub struct Node<B: NetworkBehaviour> {
    pub idx: usize,
    pub peer: PeerId,
    pub swarm: Rc<RefCell<Swarm<B>>>,
    pub unit: UnitId,
    pub log: Log,
    pub events: Rc<RefCell<Vec<(u64, Ev)>>>,
    pub model: Rc<RefCell<Model>>,
    pub listen_port: u16,
}

/// Compare the Swarm's views with the model (C02). Called after every returned event.
pub fn check_counters<B: NetworkBehaviour>(node: usize, swarm: &Swarm<B>, m: &Model, ev: &Ev) -> Result<(), Violation> {
    let info = swarm.network_info();
    let c = info.connection_counters();
    let est_in = m.established.values().filter(|(_, o)| !*o).count() as u32;
    let est_out = m.established.values().filter(|(_, o)| *o).count() as u32;
    let ctx = || format!("node n{node} after {ev:?}: swarm pending_in={} pending_out={} est_in={} est_out={} peers={}; model pending_in={} pending_out={} est_in={est_in} est_out={est_out} peers={}", c.num_pending_incoming(), c.num_pending_outgoing(), c.num_established_incoming(), c.num_established_outgoing(), info.num_peers(), m.pending_in.len(), m.pending_out.len(), m.peers().len());
    // C06 ("a denied connection is never counted"): judged right after the Denied error event
    if let Ev::IncomingError { kind, id, .. } | Ev::OutgoingError { kind, id, .. } = ev {
        if kind == "Denied" && (c.num_pending_incoming() != m.pending_in.len() as u32 || c.num_pending_outgoing() != m.pending_out.len() as u32 || c.num_established_incoming() != est_in || c.num_established_outgoing() != est_out) {
            soft_violation(violation!("C06/denied-connection-counted", "connection {id} was denied by a behaviour but the counters still include it: {}", ctx()));
        }
    }
    ensure!(c.num_pending_incoming() == m.pending_in.len() as u32, "C02/pending-incoming", "{}", ctx());
    ensure!(c.num_pending_outgoing() == m.pending_out.len() as u32, "C02/pending-outgoing", "{}", ctx());
    ensure!(c.num_established_incoming() == est_in, "C02/established-incoming", "{}", ctx());
    ensure!(c.num_established_outgoing() == est_out, "C02/established-outgoing", "{}", ctx());
    ensure!(c.num_pending() == (m.pending_in.len() + m.pending_out.len()) as u32 && c.num_established() == est_in + est_out && c.num_connections() == c.num_pending() + c.num_established(), "C02/totals", "{}", ctx());
    let peers = m.peers();
    ensure!(info.num_peers() == peers.len(), "C02/num-peers", "{}", ctx());
    let connected: BTreeSet<PeerId> = swarm.connected_peers().copied().collect();
    ensure!(connected == peers, "C02/connected-peers", "connected_peers() = {connected:?}, model says {peers:?}; {}", ctx());
    for p in &peers {
        ensure!(swarm.is_connected(p), "C02/is-connected", "is_connected({p}) is false but the model has {} established connections; {}", m.count_peer(p), ctx());
    }
    match ev {
        Ev::Established { peer, num_established, .. } => {
            ensure!(*num_established as usize == m.count_peer(peer), "C02/num-established-in-event", "ConnectionEstablished carries num_established={num_established}, history implies {}; {}", m.count_peer(peer), ctx());
        }
        Ev::Closed { peer, num_established, .. } => {
            ensure!(*num_established as usize == m.count_peer(peer), "C02/num-established-in-event", "ConnectionClosed carries num_established={num_established}, history implies {}; {}", m.count_peer(peer), ctx());
            ensure!(swarm.is_connected(peer) == (m.count_peer(peer) > 0), "C02/is-connected", "after close is_connected({peer})={} but model count {}", swarm.is_connected(peer), m.count_peer(peer));
        }
        _ => {}
    }
    Ok(())
}

impl<B: NetworkBehaviour + 'static> Node<B>
where
    B::ToSwarm: std::fmt::Debug,
{
    pub fn new(behaviour: impl FnOnce(PeerId, Log) -> B, knobs: &Knobs, hook: Option<Hook<B>>) -> Self {
        Self::new_on(|idx, _| SimTransport { node: idx }.boxed(), behaviour, knobs, hook)
    }

    /// Like `new`, over any transport (E2-full: the real noise + muxer stack over simulated pipes).
    pub fn new_on(transport: impl FnOnce(usize, &Keypair) -> libp2p_core::transport::Boxed<(PeerId, libp2p_core::muxing::StreamMuxerBox)>, behaviour: impl FnOnce(PeerId, Log) -> B, knobs: &Knobs, mut hook: Option<Hook<B>>) -> Self {
        let key = Keypair::generate_ed25519();
        let peer = key.public().to_peer_id();
        let idx = net::add_node(peer);
        let log: Log = Default::default();
        let transport = transport(idx, &key);
        let swarm = Swarm::new(transport, behaviour(peer, log.clone()), peer, knobs.config(idx));
        let swarm = Rc::new(RefCell::new(swarm));
        let events: Rc<RefCell<Vec<(u64, Ev)>>> = Default::default();
        let model: Rc<RefCell<Model>> = Default::default();
        let (s2, e2, m2) = (swarm.clone(), events.clone(), model.clone());
        let unit = spawn(format!("swarm-n{idx}"), async move {
            futures::future::poll_fn(move |cx| {
                let mut s = s2.borrow_mut();
                match s.poll_next_unpin(cx) {
                    Poll::Ready(Some(ev)) => {
                        let a = abstract_event(&ev);
                        let seq = next_seq();
                        trace!("n{idx} EVENT {a:?}");
                        let r = m2.borrow_mut().apply(&a);
                        if let Err(v) = r {
                            soft_violation(v);
                        }
                        if let Err(v) = check_counters(idx, &s, &m2.borrow(), &a) {
                            soft_violation(v);
                        }
                        if let Some(h) = hook.as_mut() {
                            h(&s, &a);
                        }
                        e2.borrow_mut().push((seq, a));
                        // one event per scheduling step
                        cx.waker().wake_by_ref();
                        Poll::<()>::Pending
                    }
                    Poll::Ready(None) => Poll::Ready(()),
                    Poll::Pending => Poll::Pending,
                }
            })
            .await
        });
        Node { idx, peer, swarm, unit, log, events, model, listen_port: 4001 }
    }

    pub fn listen(&self) -> Multiaddr {
        let a = net::node_addr(self.idx, self.listen_port);
        self.swarm.borrow_mut().listen_on(a.clone()).expect("listen");
        spurious_wake(self.unit);
        a
    }

    pub fn addr(&self) -> Multiaddr {
        net::node_addr(self.idx, self.listen_port)
    }

    pub fn kick(&self) {
        spurious_wake(self.unit);
    }

    /// `Swarm::dial` by the application, folded into the model like an event.
    pub fn dial(&self, opts: DialOpts) -> Result<(), DialError> {
        let id = opts.connection_id();
        let peer = opts.get_peer_id();
        let r = self.swarm.borrow_mut().dial(opts);
        let a = Ev::AppDial { id, peer, result: r.as_ref().map(|_| ()).map_err(dial_err_kind) };
        let seq = next_seq();
        trace!("n{} APP {a:?}", self.idx);
        if let Err(v) = self.model.borrow_mut().apply(&a) {
            soft_violation(v);
        }
        if let Err(v) = check_counters(self.idx, &self.swarm.borrow(), &self.model.borrow(), &a) {
            soft_violation(v);
        }
        self.events.borrow_mut().push((seq, a));
        self.kick();
        r
    }
}

pub fn probe_composite(cfgs: [ProbeCfg; 3]) -> impl FnOnce(PeerId, Log) -> Composite {
    move |_peer, log| {
        let [a, b, c] = cfgs;
        let p3 = Probe::new(3, log.clone(), c);
        Composite { p1: Probe::new(1, log.clone(), a), p2: Some(Probe::new(2, log, b)).into(), p3: if choose(2) == 0 { either::Either::Left(p3) } else { either::Either::Right(p3) } }
    }
}

/// Start a run: fresh network, thread-local ids.
pub fn begin() {
    net::reset();
    libp2p_swarm::verif::set_thread_local_connection_ids(Some(1));
    libp2p_core::verif::set_thread_local_listener_ids(Some(1));
}

/// Has any oracle recorded a violation so far? (lets the workload stop early)
pub fn violated() -> bool {
    simkit::ctx::soft_count_own() > 0
}
