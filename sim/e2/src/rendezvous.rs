//! C51 — a real rendezvous server in a real Swarm; scripted clients register / unregister / discover in raw frames.
use crate::net;
use crate::node::begin;
use crate::pnode::*;
use crate::script::*;
use libp2p_core::{Multiaddr, PeerRecord, SignedEnvelope};
use libp2p_identity::PeerId;
use libp2p_rendezvous as rendezvous;
use simkit::*;
use std::collections::{BTreeMap, BTreeSet};
use std::sync::{Arc, Mutex};
use std::time::Duration;

const PROTO: &str = "/rendezvous/1.0.0";
const DEFAULT_TTL: u64 = 60 * 60 * 2;

pub fn checks() -> Vec<Check> {
    vec![Check {
        id: "C51",
        title: "Rendezvous registrations obey TTL, limits and refresh semantics",
        level: Level::Exploration,
        rule: "A real rendezvous::server::Behaviour (min_ttl 1..5 s, max_ttl 10..120 s, max registrations per peer 1..3, total 2..6) serves 2..4 scripted clients. Seeded sequences of REGISTER (namespaces a/b/c, TTL below/inside/above the range or absent, every registration carries a signed peer record whose address encodes a generation number), UNREGISTER, DISCOVER (namespace or all, optional limit, with or without a cookie returned earlier) time steps (virtual clock drives expiry) and connection resets with re-dial (fault transport_reset). A reference map is folded from the server's answers. Violations: OK for a TTL outside [min_ttl,max_ttl]; more registrations per peer or in total than configured after an accepted REGISTER; a refresh of an existing (peer, namespace) refused although its TTL is valid; DISCOVER returning a registration that the model has expired for more than a second, removed, or superseded by a newer generation; a cookie chain returning the same registration generation twice; a plain DISCOVER (no cookie, no limit) omitting a registration that is live for more than another second (a refresh lives until its new deadline)",
        assumptions: &["security/muxing stubbed (E2 stack)", "the model follows the server's accept/refuse answers (only the clauses of the property are judged, not whether every admissible request is accepted)"],
        real: &["rendezvous server Behaviour, its request-response handler and codec, signed peer record validation"],
        stub: &["transport/security/muxer -> SimTransport/SimMuxer", "rendezvous clients -> scripted frames", "clock -> virtual"],
        scenarios: vec![Scenario::new("rendezvous-server", 300, 30_000, rendezvous_server), Scenario::new("rendezvous-server-full-stack", 60, 6_000, rendezvous_server_full)],
    }]
}

fn msg(ty: u64, field: u32, body: &[u8]) -> Vec<u8> {
    let mut m = vec![];
    pb_varint(1, ty, &mut m);
    pb_bytes(field, body, &mut m);
    m
}

fn register(ns: &str, record: &[u8], ttl: Option<u64>) -> Vec<u8> {
    let mut r = vec![];
    pb_bytes(1, ns.as_bytes(), &mut r);
    pb_bytes(2, record, &mut r);
    if let Some(t) = ttl {
        pb_varint(3, t, &mut r);
    }
    msg(0, 2, &r)
}

fn unregister(ns: &str, id: &PeerId) -> Vec<u8> {
    let mut r = vec![];
    pb_bytes(1, ns.as_bytes(), &mut r);
    pb_bytes(2, &id.to_bytes(), &mut r);
    msg(2, 4, &r)
}

fn discover(ns: Option<&str>, limit: Option<u64>, cookie: Option<&[u8]>) -> Vec<u8> {
    let mut r = vec![];
    if let Some(ns) = ns {
        pb_bytes(1, ns.as_bytes(), &mut r);
    }
    if let Some(l) = limit {
        pb_varint(2, l, &mut r);
    }
    if let Some(c) = cookie {
        pb_bytes(3, c, &mut r);
    }
    msg(3, 5, &r)
}

/// generation number carried in the record's address: /ip4/10.9.9.9/tcp/<gen>
fn record_for(key: &libp2p_identity::Keypair, gen: u16) -> Vec<u8> {
    let addr: Multiaddr = format!("/ip4/10.9.9.9/tcp/{gen}").parse().unwrap();
    PeerRecord::new(key, vec![addr]).expect("record").into_signed_envelope().into_protobuf_encoding()
}

fn parse_record(b: &[u8]) -> Option<(PeerId, u16)> {
    let env = SignedEnvelope::from_protobuf_encoding(b).ok()?;
    let rec = PeerRecord::from_signed_envelope(env).ok()?;
    let gen = rec.addresses().first()?.iter().find_map(|p| match p {
        libp2p_core::multiaddr::Protocol::Tcp(p) => Some(p),
        _ => None,
    })?;
    Some((rec.peer_id(), gen))
}

#[derive(Clone, Debug)]
struct Reg {
    gen: u16,
    at: Duration,
    ttl: u64,
    /// an UNREGISTER for it failed on the client's side (stream error): the server may or may not have seen it, so the
    /// registration may be listed but need not be
    unregister_in_doubt: bool,
}

#[derive(Debug)]
enum Pending {
    Register { client: usize, ns: String, ttl: Option<u64>, gen: u16, at: Duration },
    Discover { ns: Option<String>, cookie: Option<Vec<u8>>, limit: Option<u64> },
}

fn rendezvous_server() -> SimResult {
    run_rendezvous(Stack::Stub)
}

fn rendezvous_server_full() -> SimResult {
    run_rendezvous(Stack::draw_full())
}

fn run_rendezvous(stack: Stack) -> SimResult {
    begin();
    crate::full::reset(false);
    draw_policy();
    net::with_net(|n| n.faults = false);
    if profile() != Profile::None && choose(4) == 0 {
        // some substreams die while their protocol is being negotiated; the connection stays up
        net::with_net(|n| n.stream_reset_permille = [50, 200][choose(2)]);
    }
    let min_ttl = 1 + choose(5) as u64;
    let max_ttl = 10 + choose(110) as u64;
    let max_peer = 1 + choose(3);
    let max_total = 2 + choose(5);
    note_val("limits", min_ttl + 8 * (max_ttl / 10) + 128 * max_peer as u64 + 512 * max_total as u64);
    let server = PNode::make(stack, libp2p_identity::Keypair::generate_ed25519(), |_| rendezvous::server::Behaviour::new(rendezvous::server::Config::default().with_min_ttl(min_ttl).with_max_ttl(max_ttl).with_max_registration_per_peer(max_peer).with_max_registration_total(max_total)), &steady_knobs());
    let saddr = server.listen();
    let speer = server.peer;
    let nclients = 2 + choose(3);
    struct Cl {
        node: PNode<Script>,
        shared: Shared,
    }
    let clients: Vec<Cl> = (0..nclients)
        .map(|_| {
            let shared: Shared = Arc::new(Mutex::new(ScriptShared::default()));
            let s2 = shared.clone();
            Cl { node: PNode::make(stack, libp2p_identity::Keypair::generate_ed25519(), move |_| Script::new(s2), &steady_knobs()), shared }
        })
        .collect();
    run_until_idle();
    for c in &clients {
        c.node.dial_new(speer, saddr.clone());
    }
    run_until_idle();

    let namespaces = ["a", "b", "c", "d"];
    let mut model: BTreeMap<(PeerId, String), Reg> = BTreeMap::new();
    let mut gen = 0u16;
    let mut tag = 0u64;
    let mut pending: BTreeMap<u64, (usize, Pending)> = BTreeMap::new();
    // cookie bytes -> registration generations already returned along that cookie chain
    let mut cookie_seen: BTreeMap<Vec<u8>, BTreeSet<u16>> = BTreeMap::new();
    let mut cookies: Vec<Vec<u8>> = vec![];
    let (mut accepted, mut refused, mut discovered) = (0u32, 0u32, 0u32);
    let steps = 10 + choose(70);
    for step in 0..=steps {
        if step < steps {
            let c = choose(nclients);
            match choose(10) {
                0..=3 => {
                    let ns = namespaces[choose(namespaces.len())].to_string();
                    let ttl = match choose(8) {
                        0 => None,
                        1 => Some(min_ttl.saturating_sub(1)),
                        2 => Some(max_ttl + 1 + choose(100) as u64),
                        3 => Some(min_ttl),
                        4 => Some(max_ttl),
                        _ => Some(min_ttl + choose((max_ttl - min_ttl) as usize + 1) as u64),
                    };
                    gen += 1;
                    tag += 1;
                    let rec = record_for(&clients[c].node.key, gen);
                    clients[c].node.with(|b| b.open(speer, None, OpenReq { tag, proto: PROTO.into(), send: vec![register(&ns, &rec, ttl)], read: 1, after: After::Close }));
                    pending.insert(tag, (c, Pending::Register { client: c, ns, ttl, gen, at: elapsed() }));
                }
                4 => {
                    let ns = namespaces[choose(namespaces.len())].to_string();
                    tag += 1;
                    let me = clients[c].node.peer;
                    clients[c].node.with(|b| b.open(speer, None, OpenReq { tag, proto: PROTO.into(), send: vec![unregister(&ns, &me)], read: 0, after: After::Close }));
                    // no response to wait for; the model forgets it once the request has been processed (below)
                    run_until_idle();
                    settle(Duration::from_millis(5));
                    match outcome(&clients[c].shared, tag) {
                        Some(Ok(_)) => {
                            model.remove(&(me, ns));
                        }
                        _ => {
                            // the request did not (provably) get through, e.g. its substream was reset during negotiation
                            if let Some(r) = model.get_mut(&(me, ns)) {
                                r.unregister_in_doubt = true;
                            }
                            probe("unregister-request-failed");
                        }
                    }
                    note("unregister");
                }
                5..=7 => {
                    let ns = if choose(4) == 0 { None } else { Some(namespaces[choose(namespaces.len())].to_string()) };
                    let limit = if choose(3) == 0 { Some(1 + choose(3) as u64) } else { None };
                    let cookie = if !cookies.is_empty() && choose(2) == 0 { Some(cookies[choose(cookies.len())].clone()) } else { None };
                    tag += 1;
                    clients[c].node.with(|b| b.open(speer, None, OpenReq { tag, proto: PROTO.into(), send: vec![discover(ns.as_deref(), limit, cookie.as_deref())], read: 1, after: After::Close }));
                    pending.insert(tag, (c, Pending::Discover { ns, cookie, limit }));
                }
                8 => {
                    // fault: the client's connection is reset; it dials again (registrations are per peer, not per connection)
                    if fault("transport_reset", 500) {
                        let n = stack.conn_count();
                        if n > 0 {
                            stack.reset_conn(choose(n));
                        }
                        settle(Duration::from_millis(5));
                    }
                    for cl in &clients {
                        if !cl.node.connections_to(&speer) {
                            cl.node.dial_new(speer, saddr.clone());
                        }
                    }
                }
                _ => {
                    advance(Duration::from_secs([1u64, 2, 5, 20, 60][choose(5)]));
                }
            }
        }
        // requests are resolved one at a time so that the model's order is the server's order
        settle(Duration::from_millis(5));
        let now = elapsed();
        let done: Vec<u64> = pending.keys().copied().collect();
        for t in done {
            let (c, _) = &pending[&t];
            let Some(res) = outcome(&clients[*c].shared, t) else { continue };
            let (_, p) = pending.remove(&t).unwrap();
            let Ok(frames) = res else { continue };
            let Some(f) = frames.first().and_then(|f| pb_parse(f)) else { continue };
            match p {
                Pending::Register { client, ns, ttl, gen, at } => {
                    let Some(rr) = pb_get_bytes(&f, 3).and_then(|b| pb_parse(&b)) else { continue };
                    let status = pb_get_varint(&rr, 1).unwrap_or(0);
                    let peer = clients[client].node.peer;
                    let eff = ttl.unwrap_or(DEFAULT_TTL);
                    let in_range = eff >= min_ttl && eff <= max_ttl;
                    // expire the model up to the time of the request
                    model.retain(|_, r| r.at + Duration::from_secs(r.ttl) > at);
                    let existing = model.contains_key(&(peer, ns.clone()));
                    if status == 0 {
                        accepted += 1;
                        ensure!(in_range, "C51/ttl-out-of-range-accepted", "REGISTER with ttl {ttl:?} (effective {eff}s) accepted, allowed range is [{min_ttl},{max_ttl}]");
                        model.insert((peer, ns.clone()), Reg { gen, at, ttl: eff, unregister_in_doubt: false });
                        let mine = model.keys().filter(|(p, _)| *p == peer).count();
                        ensure!(mine <= max_peer, "C51/per-peer-limit", "after an accepted REGISTER {peer} holds {mine} registrations, max_registrations_per_peer is {max_peer}");
                        ensure!(model.len() <= max_total, "C51/total-limit", "after an accepted REGISTER the server holds {} registrations, max_registrations_total is {max_total}", model.len());
                        if existing {
                            probe("refresh-accepted");
                        }
                    } else {
                        refused += 1;
                        if existing && in_range {
                            let mine = model.keys().filter(|(p, _)| *p == peer).count();
                            return Err(violation!("C51/refresh-refused", "re-registering the existing ({peer}, {ns}) with valid ttl {eff}s was refused with status {status} (the peer holds {mine} of {max_peer} registrations, the server {} of {max_total})", model.len()));
                        }
                    }
                }
                Pending::Discover { ns, cookie, limit } => {
                    let Some(dr) = pb_get_bytes(&f, 6).and_then(|b| pb_parse(&b)) else { continue };
                    if pb_get_varint(&dr, 3).unwrap_or(0) != 0 {
                        continue;
                    }
                    discovered += 1;
                    let mut returned: BTreeSet<u16> = BTreeSet::new();
                    for r in pb_all_bytes(&dr, 1) {
                        let Some(rf) = pb_parse(&r) else { continue };
                        let rns = pb_get_bytes(&rf, 1).map(|b| String::from_utf8_lossy(&b).to_string()).unwrap_or_default();
                        let Some((peer, g)) = pb_get_bytes(&rf, 2).and_then(|b| parse_record(&b)) else {
                            return Err(violation!("C51/discover-bad-record", "DISCOVER returned an unparsable signed peer record"));
                        };
                        if let Some(want) = &ns {
                            ensure!(&rns == want, "C51/discover-wrong-namespace", "DISCOVER {want} returned a registration of namespace {rns}");
                        }
                        match model.get(&(peer, rns.clone())) {
                            None => return Err(violation!("C51/discover-returned-removed", "DISCOVER returned ({peer}, {rns}) generation {g}, which is not registered (expired, unregistered or never accepted)")),
                            Some(m) => {
                                ensure!(m.gen == g, "C51/discover-returned-superseded", "DISCOVER returned generation {g} of ({peer}, {rns}); it was replaced by generation {}", m.gen);
                                ensure!(m.at + Duration::from_secs(m.ttl + 1) > now, "C51/discover-returned-expired", "DISCOVER at {now:?} returned ({peer}, {rns}) registered at {:?} with ttl {}s", m.at, m.ttl);
                            }
                        }
                        ensure!(returned.insert(g), "C51/discover-duplicate", "one DISCOVER answer lists generation {g} twice");
                    }
                    // a plain discovery (no cookie, no limit) lists every live registration of the namespace, in particular a
                    // refreshed one until its *new* deadline
                    if cookie.is_none() && limit.is_none() {
                        for ((peer, mns), m) in &model {
                            if ns.as_ref().map(|n| n == mns).unwrap_or(true) && !m.unregister_in_doubt && m.at + Duration::from_secs(m.ttl) > now + Duration::from_secs(1) {
                                ensure!(returned.contains(&m.gen), "C51/discover-missing", "DISCOVER {ns:?} at {now:?} does not list ({peer}, {mns}) generation {} registered at {:?} with ttl {}s", m.gen, m.at, m.ttl);
                            }
                        }
                    }
                    let before = cookie.as_ref().and_then(|c| cookie_seen.get(c)).cloned().unwrap_or_default();
                    if let Some(dup) = returned.intersection(&before).next() {
                        return Err(violation!("C51/cookie-returned-twice", "DISCOVER with a cookie returned registration generation {dup} again, it had already been returned along that cookie chain"));
                    }
                    if let Some(nc) = pb_get_bytes(&dr, 2) {
                        let mut all = before;
                        all.extend(returned);
                        cookie_seen.insert(nc.clone(), all);
                        if !cookies.contains(&nc) {
                            cookies.push(nc);
                        }
                    }
                }
            }
        }
        model.retain(|_, r| r.at + Duration::from_secs(r.ttl) > now);
        for c in &clients {
            let _ = c.node.take_events();
        }
        let _ = server.take_events();
    }
    if accepted > 0 && refused > 0 && discovered > 0 {
        mark_nontrivial();
    }
    if stack != Stack::Stub && accepted > 0 && discovered > 0 {
        probe("full-stack-request-accepted");
    }
    Ok(())
}
