//! C45 — real request_response behaviours on both sides (in a derived composite next to a gate behaviour
//! that can deny connections), a codec whose failures are scripted per request, connection churn and timeouts.
use crate::net;
use crate::node::begin;
use crate::pnode::*;
use futures::{AsyncRead, AsyncReadExt, AsyncWrite, AsyncWriteExt};
use libp2p_core::transport::PortUse;
use libp2p_core::{Endpoint, Multiaddr};
use libp2p_identity::PeerId;
use libp2p_request_response as rr;
use libp2p_swarm::{dummy, ConnectionDenied, ConnectionId, FromSwarm, NetworkBehaviour, StreamProtocol, SwarmEvent, THandlerInEvent, THandlerOutEvent, ToSwarm};
use simkit::runner::Check;
use simkit::*;
use std::collections::{BTreeMap, BTreeSet};
use std::io;
use std::sync::atomic::{AtomicU32, Ordering};
use std::sync::Arc;
use std::task::{Context, Poll};
use std::time::Duration;

pub fn checks() -> Vec<Check> {
    vec![Check {
        id: "C45",
        title: "Every request gets exactly one outcome",
        level: Level::Exploration,
        rule: "2..3 real Swarms each run #[derive(NetworkBehaviour)] { request_response::Behaviour<PlanCodec>, Gate } (the gate can deny the next established connections, as connection-limits or block lists do). Seeded operations: send_request to connected, unconnected, unreachable and unknown peers (each request carries a plan: fail or stall in write_request / read_request / write_response / read_response), explicit dials, close_connection, disconnect_peer_id, transport resets, arming the gate, answering inbound requests at once, later, never (channel dropped) or after the connection died, virtual time steps around the 10 s request timeout. At the end all held channels are released and two timeouts pass. Then: every OutboundRequestId returned by send_request has exactly one Response or OutboundFailure, every inbound request delivered to the application has exactly one ResponseSent or InboundFailure, ids are unique per node, a Response carries the payload of its own request",
        assumptions: &["security/muxing stubbed (E2 stack); request timeout 10 s"],
        real: &["request_response::Behaviour and Handler on both sides, Swarm, pool, multistream-select, derive(NetworkBehaviour) composition"],
        stub: &["transport/security/muxer -> SimTransport/SimMuxer in scenario request-response; in request-response-full-stack only the byte pipe is simulated (real multistream-select + noise + yamux/mplex)", "codec -> scripted failures per request", "clock -> virtual"],
        scenarios: vec![Scenario::new("request-response", 400, 40_000, request_response), Scenario::new("request-response-full-stack", 100, 10_000, request_response_full)],
    }]
}

// plan bits
const FAIL_WRITE_REQ: u8 = 1;
const FAIL_READ_REQ: u8 = 2;
const FAIL_WRITE_RESP: u8 = 4;
const FAIL_READ_RESP: u8 = 8;
const STALL_READ_REQ: u8 = 16;
const STALL_WRITE_RESP: u8 = 32;

#[derive(Debug, Clone, PartialEq)]
pub struct Msg {
    id: u64,
    plan: u8,
}

#[derive(Clone, Default)]
pub struct PlanCodec;

async fn read_msg<T: AsyncRead + Unpin + Send>(io: &mut T) -> io::Result<Msg> {
    let mut b = [0u8; 9];
    io.read_exact(&mut b).await?;
    Ok(Msg { id: u64::from_be_bytes(b[..8].try_into().unwrap()), plan: b[8] })
}

async fn write_msg<T: AsyncWrite + Unpin + Send>(io: &mut T, m: &Msg) -> io::Result<()> {
    let mut b = m.id.to_be_bytes().to_vec();
    b.push(m.plan);
    io.write_all(&b).await?;
    io.flush().await
}

fn planned(what: &str) -> io::Error {
    io::Error::other(format!("planned failure in {what}"))
}

impl rr::Codec for PlanCodec {
    type Protocol = StreamProtocol;
    type Request = Msg;
    type Response = Msg;

    async fn read_request<T: AsyncRead + Unpin + Send>(&mut self, _: &StreamProtocol, io: &mut T) -> io::Result<Msg> {
        let m = read_msg(io).await?;
        if m.plan & STALL_READ_REQ != 0 {
            futures::future::pending::<()>().await;
        }
        if m.plan & FAIL_READ_REQ != 0 {
            return Err(planned("read_request"));
        }
        Ok(m)
    }
    async fn read_response<T: AsyncRead + Unpin + Send>(&mut self, _: &StreamProtocol, io: &mut T) -> io::Result<Msg> {
        let m = read_msg(io).await?;
        if m.plan & FAIL_READ_RESP != 0 {
            return Err(planned("read_response"));
        }
        Ok(m)
    }
    async fn write_request<T: AsyncWrite + Unpin + Send>(&mut self, _: &StreamProtocol, io: &mut T, m: Msg) -> io::Result<()> {
        if m.plan & FAIL_WRITE_REQ != 0 {
            return Err(planned("write_request"));
        }
        write_msg(io, &m).await
    }
    async fn write_response<T: AsyncWrite + Unpin + Send>(&mut self, _: &StreamProtocol, io: &mut T, m: Msg) -> io::Result<()> {
        if m.plan & STALL_WRITE_RESP != 0 {
            futures::future::pending::<()>().await;
        }
        if m.plan & FAIL_WRITE_RESP != 0 {
            return Err(planned("write_response"));
        }
        write_msg(io, &m).await
    }
}

/// Denies the next `armed` established connections (either direction).
pub struct Gate {
    armed: Arc<AtomicU32>,
}

impl NetworkBehaviour for Gate {
    type ConnectionHandler = dummy::ConnectionHandler;
    type ToSwarm = std::convert::Infallible;
    fn handle_established_inbound_connection(&mut self, _: ConnectionId, _: PeerId, _: &Multiaddr, _: &Multiaddr) -> Result<dummy::ConnectionHandler, ConnectionDenied> {
        self.check()
    }
    fn handle_established_outbound_connection(&mut self, _: ConnectionId, _: PeerId, _: &Multiaddr, _: Endpoint, _: PortUse) -> Result<dummy::ConnectionHandler, ConnectionDenied> {
        self.check()
    }
    fn on_swarm_event(&mut self, _: FromSwarm) {}
    fn on_connection_handler_event(&mut self, _: PeerId, _: ConnectionId, e: THandlerOutEvent<Self>) {
        libp2p_core::util::unreachable(e)
    }
    fn poll(&mut self, _: &mut Context<'_>) -> Poll<ToSwarm<Self::ToSwarm, THandlerInEvent<Self>>> {
        Poll::Pending
    }
}

#[derive(Debug)]
struct GateClosed;
impl std::fmt::Display for GateClosed {
    fn fmt(&self, f: &mut std::fmt::Formatter<'_>) -> std::fmt::Result {
        write!(f, "gate closed")
    }
}
impl std::error::Error for GateClosed {}

impl Gate {
    fn check(&mut self) -> Result<dummy::ConnectionHandler, ConnectionDenied> {
        let n = self.armed.load(Ordering::SeqCst);
        if n > 0 {
            self.armed.store(n - 1, Ordering::SeqCst);
            fired("gate_denied_established_connection");
            return Err(ConnectionDenied::new(GateClosed));
        }
        Ok(dummy::ConnectionHandler)
    }
}

#[derive(NetworkBehaviour)]
#[behaviour(prelude = "libp2p_swarm::derive_prelude")]
pub struct RrComp {
    rr: rr::Behaviour<PlanCodec>,
    gate: Gate,
}

struct N {
    node: PNode<RrComp>,
    armed: Arc<AtomicU32>,
    listening: bool,
    issued: Vec<(rr::OutboundRequestId, u64)>,
    held: Vec<(rr::InboundRequestId, rr::ResponseChannel<Msg>, Msg)>,
    inbound_seen: Vec<rr::InboundRequestId>,
    out_terminal: BTreeMap<String, u32>,
    in_terminal: BTreeMap<String, u32>,
}

fn request_response() -> SimResult {
    run_rr(false)
}

/// The same workload over the real connection stack (multistream-select + noise + yamux/mplex on simulated pipes).
fn request_response_full() -> SimResult {
    run_rr(true)
}

fn run_rr(full: bool) -> SimResult {
    begin();
    crate::full::reset(false);
    draw_policy();
    net::with_net(|n| n.faults = false);
    if !full && profile() != Profile::None && choose(3) == 0 {
        // some substreams die while their protocol is being negotiated; the connection stays up
        net::with_net(|n| n.stream_reset_permille = [50, 200, 500][choose(3)]);
    }
    let mux = if choose(2) == 0 { crate::full::Mux::Yamux } else { crate::full::Mux::Mplex };
    let lazy = choose(3) == 0;
    let n = 2 + choose(2);
    let timeout = Duration::from_secs(10);
    let mut nodes: Vec<N> = (0..n)
        .map(|i| {
            let armed = Arc::new(AtomicU32::new(0));
            let a2 = armed.clone();
            let mk = move |_: &libp2p_identity::Keypair| RrComp { rr: rr::Behaviour::with_codec(PlanCodec, [(StreamProtocol::new("/plan/1"), rr::ProtocolSupport::Full)], rr::Config::default().with_request_timeout(timeout)), gate: Gate { armed: a2 } };
            let node = if full { PNode::on(|idx, key| crate::full::full_transport(idx, key, mux, lazy), libp2p_identity::Keypair::generate_ed25519(), mk, &steady_knobs()) } else { PNode::new(mk, &steady_knobs()) };
            // the last node of a 3-node run is unreachable (never listens)
            let listening = !(n == 3 && i == 2 && choose(2) == 0);
            if listening {
                node.listen();
            }
            N { node, armed, listening, issued: vec![], held: vec![], inbound_seen: vec![], out_terminal: BTreeMap::new(), in_terminal: BTreeMap::new() }
        })
        .collect();
    run_until_idle();
    // everybody knows everybody's address
    for i in 0..n {
        for j in 0..n {
            if i != j {
                let (p, a) = (nodes[j].node.peer, nodes[j].node.addr());
                nodes[i].node.swarm.borrow_mut().add_peer_address(p, a);
            }
        }
    }
    let stranger = libp2p_identity::Keypair::generate_ed25519().public().to_peer_id();
    let mut next_payload = 0u64;
    let mut respond_mode = vec![0usize; n];
    for m in respond_mode.iter_mut() {
        *m = choose(4);
    }

    let steps = 15 + choose(60);
    for step in 0..=steps + 3 {
        if step < steps {
            let a = choose(n);
            let b = (a + 1 + choose(n - 1)) % n;
            match choose(16) {
                0..=5 => {
                    next_payload += 1;
                    let plan = match choose(10) {
                        0 => FAIL_WRITE_REQ,
                        1 => FAIL_READ_REQ,
                        2 => FAIL_WRITE_RESP,
                        3 => FAIL_READ_RESP,
                        4 => STALL_READ_REQ,
                        5 => STALL_WRITE_RESP,
                        _ => 0,
                    };
                    if plan != 0 {
                        fired("codec_fault");
                    }
                    let target = if choose(12) == 0 { stranger } else { nodes[b].node.peer };
                    let id = nodes[a].node.with(|c| c.rr.send_request(&target, Msg { id: next_payload, plan }));
                    nodes[a].issued.push((id, next_payload));
                    note("send");
                }
                6 => {
                    let (p, addr) = (nodes[b].node.peer, nodes[b].node.addr());
                    nodes[a].node.dial_new(p, addr);
                }
                7 => {
                    let p = nodes[b].node.peer;
                    let _ = nodes[a].node.swarm.borrow_mut().disconnect_peer_id(p);
                    nodes[a].node.kick();
                    note("disconnect");
                }
                8 => {
                    if fault("transport_reset", 500) {
                        let c = if full { crate::full::pipe_count() } else { net::conn_count() };
                        if c > 0 {
                            if full {
                                crate::full::reset_pipe(choose(c));
                            } else {
                                net::reset_conn(choose(c));
                            }
                        }
                    }
                }
                9 => {
                    if fault("gate", 600) {
                        nodes[a].armed.store(1 + choose(2) as u32, Ordering::SeqCst);
                    }
                }
                10 | 11 => {
                    // answer (or drop) one held inbound request
                    if !nodes[a].held.is_empty() {
                        let k = choose(nodes[a].held.len());
                        let (_, ch, req) = nodes[a].held.remove(k);
                        if choose(4) == 0 {
                            drop(ch);
                            note("drop-channel");
                        } else {
                            let _ = nodes[a].node.with(|c| c.rr.send_response(ch, req));
                        }
                    }
                }
                12 => respond_mode[a] = choose(4),
                _ => advance(Duration::from_secs([1u64, 3, 9, 11, 15][choose(5)])),
            }
            if choose(3) == 0 {
                continue;
            }
        } else if step == steps {
            // wind down: release everything that is still held, let every timer expire
            for nd in nodes.iter_mut() {
                nd.armed.store(0, Ordering::SeqCst);
            }
        }
        if step >= steps {
            for i in 0..n {
                let held = std::mem::take(&mut nodes[i].held);
                for (_, ch, req) in held {
                    let _ = nodes[i].node.with(|c| c.rr.send_response(ch, req));
                }
            }
            advance(timeout + Duration::from_secs(1));
        }
        settle(Duration::from_millis(20));
        // ---- collect events
        for i in 0..n {
            for (_, ev) in nodes[i].node.take_events() {
                let SwarmEvent::Behaviour(RrCompEvent::Rr(ev)) = ev else { continue };
                match ev {
                    rr::Event::Message { message: rr::Message::Request { request_id, request, channel }, .. } => {
                        ensure!(!nodes[i].inbound_seen.contains(&request_id), "C45/inbound-id-reused", "n{i}: inbound request id {request_id} delivered twice");
                        nodes[i].inbound_seen.push(request_id);
                        let mode = if step >= steps { 0 } else { respond_mode[i] };
                        match mode {
                            0 | 1 => {
                                let _ = nodes[i].node.with(|c| c.rr.send_response(channel, request));
                            }
                            2 => nodes[i].held.push((request_id, channel, request)),
                            _ => {
                                if choose(2) == 0 {
                                    drop(channel);
                                } else {
                                    nodes[i].held.push((request_id, channel, request));
                                }
                            }
                        }
                    }
                    rr::Event::Message { message: rr::Message::Response { request_id, response }, .. } => {
                        *nodes[i].out_terminal.entry(format!("{request_id}")).or_insert(0) += 1;
                        let sent = nodes[i].issued.iter().find(|(id, _)| *id == request_id).map(|x| x.1);
                        ensure!(sent == Some(response.id), "C45/response-for-other-request", "n{i}: Response for {request_id} carries payload {} but that request carried {sent:?}", response.id);
                    }
                    rr::Event::OutboundFailure { request_id, .. } => {
                        *nodes[i].out_terminal.entry(format!("{request_id}")).or_insert(0) += 1;
                    }
                    rr::Event::InboundFailure { request_id, .. } | rr::Event::ResponseSent { request_id, .. } => {
                        *nodes[i].in_terminal.entry(format!("{request_id}")).or_insert(0) += 1;
                    }
                }
            }
        }
    }
    // ---- exactly-once
    let mut total = 0;
    for (i, nd) in nodes.iter().enumerate() {
        let ids: BTreeSet<String> = nd.issued.iter().map(|(id, _)| format!("{id}")).collect();
        ensure!(ids.len() == nd.issued.len(), "C45/outbound-id-reused", "n{i}: send_request returned the same id twice");
        for (id, payload) in &nd.issued {
            total += 1;
            let k = nd.out_terminal.get(&format!("{id}")).copied().unwrap_or(0);
            ensure!(k >= 1, "C45/outbound-unresolved", "n{i}: request {id} (payload {payload}) never produced a Response or OutboundFailure, two request timeouts after the last operation");
            ensure!(k == 1, "C45/outbound-double", "n{i}: request {id} produced {k} terminal events");
        }
        for id in &nd.inbound_seen {
            let k = nd.in_terminal.get(&format!("{id}")).copied().unwrap_or(0);
            ensure!(k >= 1, "C45/inbound-unresolved", "n{i}: inbound request {id} was delivered to the application but produced neither ResponseSent nor InboundFailure");
            ensure!(k == 1, "C45/inbound-double", "n{i}: inbound request {id} produced {k} terminal events");
        }
    }
    if total >= 3 {
        mark_nontrivial();
    }
    if full && nodes.iter().any(|n| n.out_terminal.values().any(|v| *v > 0)) && nodes.iter().any(|n| !n.inbound_seen.is_empty()) {
        probe("full-stack-request-delivered");
    }
    note_val("n", n as u64);
    Ok(())
}
