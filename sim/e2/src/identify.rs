//! C46 — a real identify::Behaviour in a real Swarm; scripted peers answer its identify requests and push
//! updates with hand-rolled (honest, mismatched, tampered) Identify messages.
use crate::net;
use crate::node::begin;
use crate::pnode::*;
use crate::script::*;
use libp2p_core::multiaddr::Protocol;
use libp2p_core::{Multiaddr, PeerRecord};
use libp2p_identify as identify;
use libp2p_identity::{Keypair, PeerId};
use libp2p_swarm::SwarmEvent;
use simkit::runner::NO_FAULTS;
use simkit::*;
use std::collections::{BTreeMap, BTreeSet};
use std::sync::{Arc, Mutex};
use std::time::Duration;

const ID: &str = "/ipfs/id/1.0.0";
const PUSH: &str = "/ipfs/id/push/1.0.0";

pub fn checks() -> Vec<Check> {
    vec![Check {
        id: "C46",
        title: "Identify only reports authenticated peer information",
        level: Level::Exploration,
        rule: "A real identify::Behaviour runs in a real Swarm; 2..4 scripted peers connect to it (and are dialed by it) and answer each identify request, and later send identify pushes, with messages drawn per message from: public key own / another peer's / garbage / absent; signed peer record absent / valid and own / signed by another peer / own but with a flipped byte / garbage; listen addresses plain, ending in the sender's /p2p, ending in a foreign /p2p, relay paths; every message carries a serial in agent_version so that a reported Info is attributed to the message that caused it, record addresses and plain listen addresses use disjoint port ranges. For every identify::Event::Received: the reported public key derives the connection's peer id; no reported listen address ends in a foreign /p2p; addresses of the record range appear only if the message's record was valid and signed by the sender's own key, and then signed_peer_record is reported; a message whose key does not derive the connection's peer id is never reported; independent of attribution, every reported signed_peer_record is a record of the connection's peer and record-range addresses are contained in it (so nothing of a rejected message can leak into a later report through a push). An honest message must be reported (non-vacuity)",
        assumptions: &["security/muxing stubbed (E2 stack): the connection's peer id is what the simulated handshake authenticated"],
        real: &["identify Behaviour, handler, protocol decoding (Info / PushInfo, signed envelope and peer record validation)"],
        stub: &["transport/security/muxer -> SimTransport/SimMuxer", "remote identify implementations -> scripted frames", "clock -> virtual"],
        scenarios: vec![Scenario::new("identify-reports", 400, 40_000, identify_reports).profiles(NO_FAULTS)],
    }]
}

#[derive(Clone, Debug)]
struct Crafted {
    serial: u64,
    sender: usize,
    key_kind: u8,    // 0 own, 1 other's, 2 garbage, 3 absent
    record_kind: u8, // 0 absent, 1 valid own, 2 foreign, 3 tampered, 4 garbage
    listen: Vec<Multiaddr>,
    record_addrs: Vec<Multiaddr>,
    push: bool,
}

fn encode(c: &Crafted, keys: &[Keypair]) -> Vec<u8> {
    let me = &keys[c.sender];
    let other = &keys[(c.sender + 1) % keys.len()];
    let mut m = vec![];
    match c.key_kind {
        0 => pb_bytes(1, &me.public().encode_protobuf(), &mut m),
        1 => pb_bytes(1, &other.public().encode_protobuf(), &mut m),
        2 => pb_bytes(1, &[8, 1, 18, 3, 1, 2, 3], &mut m),
        _ => {}
    }
    for a in &c.listen {
        pb_bytes(2, &a.to_vec(), &mut m);
    }
    pb_bytes(3, b"/script/1", &mut m);
    pb_bytes(4, &"/ip4/10.0.0.1/tcp/4001".parse::<Multiaddr>().unwrap().to_vec(), &mut m);
    pb_bytes(5, b"/test/1", &mut m);
    pb_bytes(6, format!("msg-{}", c.serial).as_bytes(), &mut m);
    let rec = |k: &Keypair| PeerRecord::new(k, c.record_addrs.clone()).expect("record").into_signed_envelope().into_protobuf_encoding();
    match c.record_kind {
        1 => pb_bytes(8, &rec(me), &mut m),
        2 => pb_bytes(8, &rec(other), &mut m),
        3 => {
            let mut r = rec(me);
            let i = r.len() / 2 + choose(r.len() / 2);
            r[i] ^= 1 << choose(8);
            pb_bytes(8, &r, &mut m)
        }
        4 => pb_bytes(8, &[1, 2, 3, 4, 5], &mut m),
        _ => {}
    }
    m
}

fn draw_crafted(serial: u64, sender: usize, push: bool, peers: &[PeerId]) -> Crafted {
    let me = peers[sender];
    let other = peers[(sender + 1) % peers.len()];
    let addr = |range: u16| -> Multiaddr {
        let port = range + choose(50) as u16;
        match choose(6) {
            0 | 1 => format!("/ip4/10.2.0.{}/tcp/{port}", 1 + sender),
            2 => format!("/ip4/10.2.0.{}/tcp/{port}/p2p/{me}", 1 + sender),
            3 => format!("/ip4/10.2.0.{}/tcp/{port}/p2p/{other}", 1 + sender),
            4 => format!("/ip4/10.2.0.9/tcp/{port}/p2p/{other}/p2p-circuit/p2p/{me}"),
            _ => format!("/ip4/10.2.0.9/tcp/{port}/p2p/{me}/p2p-circuit/p2p/{other}"),
        }
        .parse()
        .unwrap()
    };
    Crafted {
        serial,
        sender,
        key_kind: [0u8, 0, 0, 1, 2, 3][choose(6)],
        record_kind: [0u8, 0, 1, 1, 2, 3, 4][choose(7)],
        listen: (0..choose(4)).map(|_| addr(1000)).collect(),
        record_addrs: (0..1 + choose(3)).map(|_| addr(7000)).collect(),
        push,
    }
}

fn port_of(a: &Multiaddr) -> Option<u16> {
    a.iter().find_map(|p| match p {
        Protocol::Tcp(p) => Some(p),
        _ => None,
    })
}

fn identify_reports() -> SimResult {
    begin();
    draw_policy();
    net::with_net(|n| n.faults = false);
    let server = PNode::new(|k| identify::Behaviour::new(identify::Config::new("/test/1".into(), k.public()).with_interval(Duration::from_secs(3600)).with_push_listen_addr_updates(false)), &steady_knobs());
    let saddr = server.listen();
    let speer = server.peer;
    let n = 2 + choose(3);
    let keys: Vec<Keypair> = (0..n).map(|_| Keypair::generate_ed25519()).collect();
    let peers: Vec<PeerId> = keys.iter().map(|k| k.public().to_peer_id()).collect();
    let crafted: Arc<Mutex<Vec<Crafted>>> = Default::default();
    let serial = Arc::new(Mutex::new(0u64));
    struct Cl {
        node: PNode<Script>,
        shared: Shared,
    }
    let clients: Vec<Cl> = (0..n)
        .map(|i| {
            let shared: Shared = Arc::new(Mutex::new(ScriptShared::default()));
            {
                let mut sh = shared.lock().unwrap();
                sh.no_request.insert(ID.to_string());
                let (crafted, serial, keys2, peers2) = (crafted.clone(), serial.clone(), keys.clone(), peers.clone());
                sh.responders.insert(
                    ID.to_string(),
                    Box::new(move |_p: &PeerId, _req: &[u8]| {
                        let s = {
                            let mut g = serial.lock().unwrap();
                            *g += 1;
                            *g
                        };
                        let c = draw_crafted(s, i, false, &peers2);
                        let frame = encode(&c, &keys2);
                        crafted.lock().unwrap().push(c);
                        (vec![frame], After::Close)
                    }),
                );
            }
            let s2 = shared.clone();
            let node = PNode::with_key(keys[i].clone(), move |_| Script::new(s2), &steady_knobs());
            node.listen();
            Cl { node, shared }
        })
        .collect();
    run_until_idle();
    let mut tag = 0u64;
    let steps = 6 + choose(30);
    for _ in 0..steps {
        let c = choose(n);
        match choose(6) {
            0 | 1 => {
                clients[c].node.dial_new(speer, saddr.clone());
            }
            2 => {
                server.dial_new(clients[c].node.peer, clients[c].node.addr());
            }
            3 | 4 => {
                if server.connections_to(&clients[c].node.peer) {
                    let s = {
                        let mut g = serial.lock().unwrap();
                        *g += 1;
                        *g
                    };
                    let cr = draw_crafted(s, c, true, &peers);
                    let frame = encode(&cr, &keys);
                    crafted.lock().unwrap().push(cr);
                    tag += 1;
                    clients[c].node.with(|b| b.open(speer, None, OpenReq { tag, proto: PUSH.into(), send: vec![frame], read: 0, after: After::Close }));
                    note("push");
                }
            }
            _ => advance(Duration::from_secs(1 + choose(20) as u64)),
        }
        if choose(3) != 0 {
            settle(Duration::from_millis(10));
        }
    }
    settle(Duration::from_secs(2));
    // ---- oracle over everything the behaviour reported
    let crafted = crafted.lock().unwrap().clone();
    let by_serial: BTreeMap<u64, &Crafted> = crafted.iter().map(|c| (c.serial, c)).collect();
    let mut reported: BTreeSet<u64> = BTreeSet::new();
    let (mut honest_reported, mut rejected_kinds) = (0u32, 0u32);
    for (_, ev) in server.take_events() {
        let SwarmEvent::Behaviour(identify::Event::Received { peer_id, info, .. }) = ev else { continue };
        ensure!(info.public_key.to_peer_id() == peer_id, "C46/key-mismatch-reported", "Received for connection peer {peer_id} carries a public key of peer {}", info.public_key.to_peer_id());
        for a in &info.listen_addrs {
            if let Some(Protocol::P2p(x)) = a.iter().last() {
                ensure!(x == peer_id, "C46/foreign-p2p-address", "Received for {peer_id} lists {a}, which names another peer");
            }
        }
        // whatever sequence of answers and pushes led to this report: a reported record is the peer's own, and addresses of
        // the record range come from exactly that record
        let own_record = match &info.signed_peer_record {
            Some(env) => {
                let rec = PeerRecord::from_signed_envelope(env.clone()).ok();
                ensure!(rec.as_ref().map(|r| r.peer_id() == peer_id).unwrap_or(false), "C46/foreign-record-reported", "Received for {peer_id} carries a signed peer record of {:?}", rec.as_ref().map(|r| r.peer_id()));
                rec
            }
            None => None,
        };
        for a in info.listen_addrs.iter().filter(|a| port_of(a).map(|p| p >= 7000).unwrap_or(false)) {
            ensure!(own_record.as_ref().map(|r| r.addresses().contains(a)).unwrap_or(false), "C46/record-address-without-own-record", "Received for {peer_id} lists {a}, an address that only ever appeared inside signed records, but reports no record of that peer containing it");
        }
        let Some(serial) = info.agent_version.strip_prefix("msg-").and_then(|s| s.parse::<u64>().ok()) else { continue };
        let Some(c) = by_serial.get(&serial) else { continue };
        reported.insert(serial);
        ensure!(peers[c.sender] == peer_id, "C46/wrong-connection", "message {serial} of peer {} reported for {peer_id}", peers[c.sender]);
        if !c.push {
            ensure!(c.key_kind == 0, "C46/key-mismatch-reported", "identify message {serial} carried key kind {} (1 = another peer's, 2 = garbage, 3 = absent) and was reported", c.key_kind);
            let record_ok = c.record_kind == 1;
            let has_record_addrs = info.listen_addrs.iter().any(|a| port_of(a).map(|p| p >= 7000).unwrap_or(false));
            let has_plain_addrs = info.listen_addrs.iter().any(|a| port_of(a).map(|p| p < 7000).unwrap_or(false));
            if record_ok {
                honest_reported += 1;
                ensure!(info.signed_peer_record.is_some(), "C46/valid-record-dropped", "message {serial} had a valid own signed record, none reported");
                ensure!(!has_plain_addrs, "C46/unsigned-addresses-mixed-in", "message {serial}: a valid signed record was present but unsigned listen addresses were reported: {:?}", info.listen_addrs);
            } else {
                ensure!(!has_record_addrs, "C46/foreign-record-addresses-used", "message {serial} had record kind {} (2 = signed by another peer, 3 = tampered, 4 = garbage, 0 = none) yet its addresses were reported: {:?}", c.record_kind, info.listen_addrs);
                ensure!(info.signed_peer_record.is_none(), "C46/invalid-record-reported", "message {serial} had record kind {} yet a signed_peer_record was reported", c.record_kind);
                if c.record_kind != 0 {
                    rejected_kinds += 1;
                }
            }
        } else {
            // a push merges into the last full Info: the key rule above already held; pushes never carry records
            ensure!(c.key_kind == 0 || c.key_kind == 3 || c.key_kind == 2, "C46/key-mismatch-reported", "push {serial} carried another peer's key and was reported");
        }
    }
    for c in crafted.iter().filter(|c| !c.push && c.key_kind == 0) {
        // an honest-key answer that reached the server must have been reported (the stream may also have been cut by a close)
        if !reported.contains(&c.serial) {
            probe("honest-answer-not-reported");
        }
    }
    if honest_reported > 0 && rejected_kinds > 0 {
        mark_nontrivial();
    }
    note_val("msgs", crafted.len() as u64);
    note_val("shape", honest_reported.min(15) as u64 + 16 * rejected_kinds.min(15) as u64 + 256 * reported.len().min(31) as u64 + 8192 * crafted.iter().filter(|c| c.push).count().min(15) as u64);
    for c in crafted.iter().take(6) {
        note_val("kind", c.key_kind as u64 + 4 * c.record_kind as u64 + 32 * c.push as u64);
    }
    for c in &clients {
        let _ = (&c.shared, c.node.take_events());
    }
    Ok(())
}
