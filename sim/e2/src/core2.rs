//! E2 focused scenarios: C04 (dial preconditions / address selection), C05 (peer identity),
//! C07 (behaviour -> handler notifications), C08 (concurrent dialing).

use crate::core::with_field;
use crate::net::{self, Auth, Script};
use crate::node::*;
use crate::probe::*;
use libp2p_core::multiaddr::{Multiaddr, Protocol};
use libp2p_identity::PeerId;
use libp2p_swarm::dial_opts::{DialOpts, PeerCondition};
use libp2p_swarm::{ConnectionId, NotifyHandler, ToSwarm};
use simkit::*;
use std::collections::{BTreeMap, BTreeSet};
use std::num::NonZeroU8;
use std::time::Duration;

const REAL: &[&str] = &["libp2p_swarm::Swarm::dial, Pool, ConcurrentDial, connection tasks, notify_one/notify_any, derive(NetworkBehaviour)"];
const STUB: &[&str] = &["transport/security/muxer -> SimTransport/SimMuxer", "executor, clock -> simulator", "behaviours -> probes"];

pub fn checks() -> Vec<Check> {
    vec![
        Check {
            id: "C04",
            title: "Dial preconditions and address selection are honoured",
            level: Level::Exploration,
            rule: "one dialling node with a recording transport and 2 targets; histories bring each target into disconnected / dialing (a hanging dial) / connected / both; then 10..40 generated DialOpts: every PeerCondition, explicit address lists with duplicates, with the node's own listen addresses, with addresses already carrying /p2p/<other>, behaviour-provided lists (different per composite field) with and without extend_addresses_through_behaviour. Oracle per dial, evaluated on the reference model: condition false => Err(DialPeerConditionFalse), exactly one DialFailure per field, no Transport::dial call, pending counters unchanged; otherwise the addresses handed to the transport are exactly dedup-in-order(explicit ++ behaviour) minus the node's current listen addresses, each with /p2p/<target> appended, an empty list => NoAddresses. Non-trivial = a dial was rejected by its condition or had addresses filtered; distinct = fingerprint of (state, condition, list shape, outcome)",
            assumptions: &[],
            real: REAL,
            stub: STUB,
            scenarios: vec![Scenario::new("dial-matrix", 1200, 120_000, dial_matrix).profiles(simkit::runner::NO_FAULTS)],
        },
        Check {
            id: "C05",
            title: "Established peer identity matches expectation and is never local",
            level: Level::FaultEnumeration,
            rule: "the simulated transport authenticates each new connection as the expected peer, another peer or the local peer, independently on the dialling and the listening side (all 9 combinations enumerated by a forced schedule, plus random ones), for ordinary and role-override (DialOpts::override_role) dials with and without an expected peer id, interleaved with ordinary traffic. Oracle: ConnectionEstablished only if the authenticated id equals the expected one (when given) and differs from the local id; otherwise OutgoingConnectionError(WrongPeerId{obtained}) / (LocalPeerId) resp. IncomingConnectionError(LocalPeerId), and the refused side's muxer is closed (poll_close observed) once the system is quiescent. Non-trivial = a dishonest authentication was injected; distinct = fingerprint of (auth kinds, expectation, outcome kinds)",
            assumptions: &["identity faults are injected by the stub transport, which is what a buggy or hostile security upgrade would look like to the Swarm"],
            real: REAL,
            stub: STUB,
            scenarios: vec![Scenario::new("auth-matrix", 1500, 150_000, auth_matrix).profiles(&[Profile::Light])],
        },
        Check {
            id: "C07",
            title: "Behaviour-to-handler notifications are targeted, ordered and not lost",
            level: Level::Exploration,
            rule: "2 nodes with 1..4 parallel connections; probe behaviours emit 10..80 numbered notifications with NotifyHandler::One(c) / Any from any composite field while connection tasks are starved (notify buffer 1..2, 'starve a task' scheduling), closes are commanded and connections reset. Oracle: a One(c) payload is received only by the handler of (c, emitting field); an Any payload by exactly one handler whose connection was established when the behaviour handed the action to the Swarm (snapshot rebuilt from the event history); per handler payload numbers increase; after starvation ends and the system is quiescent a payload is missing only if its target (all snapshot members for Any) was closed or commanded to close. Non-trivial = back-pressure actually occurred (a notification had to wait) or a close raced a notification; distinct = fingerprint of (operation kinds, starvation pattern, outcome)",
            assumptions: &["'commanded to close' includes close_connection, disconnect_peer_id, behaviour CloseConnection, remote close and resets, all known to the simulator"],
            real: REAL,
            stub: STUB,
            scenarios: vec![Scenario::new("notify", 1500, 150_000, notify)],
        },
        Check {
            id: "C08",
            title: "Concurrent dialing respects the concurrency factor and reports each failure",
            level: Level::Exploration,
            rule: "Swarm::dial with N in 1..12 distinct addresses and concurrency factor k in 1..8 (config or per-dial override) through the public API; every transport dial is under simulator control: it counts as in flight from its first poll until the simulator completes it, in a drawn order with drawn outcomes (ok / error / never). Oracle (non-smart mode): in-flight <= k after every scheduler step; at most one transport dial per address; success iff an attempted address succeeded; on failure DialError::Transport lists exactly the attempted addresses, each once; on success concurrent_dial_errors lists exactly the addresses that failed before. Smart mode: each address at most once, same error accounting. Non-trivial = N > k (the limit mattered) or mixed outcomes; distinct = fingerprint of (N, k, outcome order)",
            assumptions: &[],
            real: REAL,
            stub: STUB,
            scenarios: vec![Scenario::new("concurrent-dial", 2000, 200_000, concurrent_dial).profiles(simkit::runner::NO_FAULTS)],
        },
    ]
}

fn quiet_knobs() -> Knobs {
    let mut k = Knobs::draw();
    k.idle_timeout = Duration::from_secs(3600);
    k
}

fn keepalive_cfgs() -> [ProbeCfg; 3] {
    let mut c: [ProbeCfg; 3] = Default::default();
    for (k, x) in c.iter_mut().enumerate() {
        x.keep_alive = true;
        x.protocols = vec![format!("/probe/{}", k + 1)];
    }
    c
}

// =================================================================================================
// C08
// =================================================================================================

fn concurrent_dial() -> SimResult {
    begin();
    draw_policy();
    let nn = 1 + choose(12);
    let factor_cfg = 1 + choose(8) as u8;
    let factor_override = if choose(2) == 0 { Some(1 + choose(8) as u8) } else { None };
    let smart = choose(5) == 0;
    let k = factor_override.unwrap_or(factor_cfg) as usize;
    let mut knobs = quiet_knobs();
    knobs.dial_concurrency = factor_cfg;
    knobs.smart_dial = smart;
    let a = Node::new(probe_composite(keepalive_cfgs()), &knobs, None);
    let b = Node::new(probe_composite(keepalive_cfgs()), &quiet_knobs(), None);
    // B listens on nn addresses (different ports); all of them are under manual control
    let mut addrs = vec![];
    for i in 0..nn {
        let ad = net::node_addr(b.idx, 5000 + i as u16);
        b.swarm.borrow_mut().listen_on(ad.clone()).unwrap();
        net::script(&ad, Script::Manual);
        addrs.push(ad);
    }
    b.kick();
    run_until_idle();
    note_val("N", nn as u64);
    note_val("k", k as u64);
    note_val("smart", smart as u64);
    let mut opts = DialOpts::peer_id(b.peer).addresses(addrs.clone());
    if let Some(f) = factor_override {
        opts = opts.override_dial_concurrency_factor(NonZeroU8::new(f).unwrap());
    }
    let opts = opts.build();
    let id = opts.connection_id();
    let first_rec = net::with_net(|n| n.dials.len());
    a.dial(opts).map_err(|e| violation!("C08/dial-refused", "dial refused: {e:?}"))?;
    // outcomes: drawn per address
    let outcomes: Vec<u8> = (0..nn).map(|_| [0u8, 0, 1, 2][choose(4)]).collect(); // 0 fail, 1 ok, 2 never
    let mut completed_order = vec![];
    let mut failed_before_success: Vec<Multiaddr> = vec![];
    let mut success: Option<Multiaddr> = None;
    let check_inflight = |when: &str| -> SimResult {
        let inflight = net::with_net(|n| n.dials[first_rec..].iter().filter(|d| d.first_poll.is_some() && d.done.is_none() && !d.dropped_unfinished).count());
        if !smart {
            ensure!(inflight <= k, "C08/too-many-in-flight", "{inflight} transport dials in flight {when}, concurrency factor is {k} (N={nn})");
        }
        Ok(())
    };
    let mut guard = 0;
    loop {
        guard += 1;
        if guard > 400 {
            break;
        }
        // run a few steps, checking the bound after each
        for _ in 0..1 + choose(6) {
            if !step() {
                break;
            }
            check_inflight("after a scheduler step")?;
        }
        if smart && choose(3) == 0 {
            advance(Duration::from_millis(300));
        }
        let resolved = a.events.borrow().iter().any(|(_, e)| matches!(e, Ev::Established { id: x, .. } | Ev::OutgoingError { id: x, .. } if *x == id));
        if resolved {
            break;
        }
        let pend = net::manual_pending();
        let cands: Vec<usize> = pend.iter().copied().filter(|r| outcomes[*r - first_rec] != 2).collect();
        if cands.is_empty() {
            if ready_count() == 0 {
                if smart {
                    advance(Duration::from_secs(2));
                    if net::manual_pending().iter().all(|r| outcomes[*r - first_rec] == 2) && ready_count() == 0 {
                        // everything left hangs forever
                        if net::with_net(|n| n.dials[first_rec..].iter().all(|d| d.first_poll.is_some())) {
                            break;
                        }
                    }
                    continue;
                }
                break;
            }
            continue;
        }
        let r = cands[choose(cands.len())];
        let ok = outcomes[r - first_rec] == 1;
        let addr = net::with_net(|n| n.dials[r].addr.clone());
        completed_order.push((r - first_rec, ok));
        note_val("done", (r - first_rec) as u64 * 2 + ok as u64);
        if success.is_none() {
            if ok {
                success = Some(addr.clone());
            } else {
                failed_before_success.push(addr.clone());
            }
        }
        net::complete_dial(r, ok);
    }
    run_until_idle();
    check_inflight("at quiescence")?;
    // one transport dial per address
    let recs: Vec<Multiaddr> = net::with_net(|n| n.dials[first_rec..].iter().map(|d| d.addr.clone()).collect());
    let uniq: BTreeSet<String> = recs.iter().map(|a| a.to_string()).collect();
    ensure!(uniq.len() == recs.len() && recs.len() == nn, "C08/address-dialled-twice", "{} transport dials for {nn} distinct addresses", recs.len());
    let evs = a.events.borrow();
    let outcome = evs.iter().find_map(|(_, e)| match e {
        Ev::Established { id: x, concurrent_errors, addr, .. } if *x == id => Some(Ok((concurrent_errors.clone().unwrap_or_default(), addr.clone()))),
        Ev::OutgoingError { id: x, kind, addrs, .. } if *x == id => Some(Err((kind.clone(), addrs.clone()))),
        _ => None,
    });
    trace!("N={nn} k={k} smart={smart} outcomes={outcomes:?} completed={completed_order:?} -> {outcome:?}");
    let p2p = |a: &Multiaddr| a.clone().with(Protocol::P2p(b.peer));
    let norm = |v: &[Multiaddr]| -> Vec<String> {
        let mut s: Vec<String> = v.iter().map(|a| a.to_string()).collect();
        s.sort();
        s
    };
    match (&success, &outcome) {
        (Some(_), Some(Ok((errs, _addr)))) => {
            let exp: Vec<Multiaddr> = failed_before_success.iter().map(|a| a.clone()).collect();
            ensure!(norm(errs) == norm(&exp), "C08/concurrent-errors", "connection established; concurrent_dial_errors lists {:?}, the addresses that failed before the success were {:?}", norm(errs), norm(&exp));
        }
        (Some(s), other) => return Err(violation!("C08/success-not-reported", "address {s} succeeded but the dial ended as {other:?}")),
        (None, Some(Err((kind, addrs)))) => {
            // every address failed (or hangs forever: then the dial cannot have failed)
            ensure!(kind.starts_with("Transport"), "C08/failure-kind", "all attempted addresses failed but the error is {kind}");
            let attempted: Vec<Multiaddr> = completed_order.iter().map(|(i, _)| p2p(&addrs_at(&addrs_clone(&recs), *i))).collect();
            let _ = attempted;
            let exp: Vec<Multiaddr> = completed_order.iter().map(|(i, _)| recs[*i].clone()).collect();
            ensure!(norm(addrs) == norm(&exp), "C08/error-list", "dial failed; DialError::Transport lists {:?}, attempted-and-failed addresses were {:?}", norm(addrs), norm(&exp));
            ensure!(outcomes.iter().all(|o| *o == 0), "C08/failed-while-pending", "dial reported failed although some addresses were still pending: outcomes {outcomes:?}");
        }
        (None, Some(Ok(x))) => return Err(violation!("C08/phantom-success", "no address succeeded but the dial was established: {x:?}")),
        (None, None) => {
            ensure!(outcomes.iter().any(|o| *o == 2), "C08/never-resolved", "all {nn} addresses were completed with failures but the dial never resolved");
        }
    }
    if nn > k || (outcomes.contains(&0) && outcomes.contains(&1)) {
        mark_nontrivial();
    }
    set_sample(|| format!("N={nn} factor cfg={factor_cfg} override={factor_override:?} smart={smart}; planned outcomes (0 fail,1 ok,2 never) {outcomes:?}; completion order {completed_order:?}; result {:?}", outcome.as_ref().map(|r| r.as_ref().map(|(e, _)| e.len()).map_err(|(k, a)| (k.clone(), a.len())))));
    Ok(())
}

fn addrs_clone(v: &[Multiaddr]) -> Vec<Multiaddr> {
    v.to_vec()
}
fn addrs_at(v: &[Multiaddr], i: usize) -> Multiaddr {
    v[i].clone()
}

// =================================================================================================
// C04
// =================================================================================================

fn dial_matrix() -> SimResult {
    begin();
    draw_policy();
    let a = Node::new(probe_composite(keepalive_cfgs()), &quiet_knobs(), None);
    let t1 = Node::new(probe_composite(keepalive_cfgs()), &quiet_knobs(), None);
    let t2 = Node::new(probe_composite(keepalive_cfgs()), &quiet_knobs(), None);
    let a_listen = a.listen();
    let a_listen2 = net::node_addr(a.idx, 4002);
    let lid2 = a.swarm.borrow_mut().listen_on(a_listen2.clone()).unwrap();
    // the second listener reports one more address (like a wildcard listener does for every interface)
    let a_listen3 = net::node_addr(a.idx, 4003);
    net::emit(a.idx, net::TEvent::NewAddress { id: lid2, addr: a_listen3.clone() });
    // ground truth of "addresses the Swarm is itself listening on": what the transport announced, not what the Swarm lists
    let own_truth = vec![a_listen.clone(), a_listen2.clone(), a_listen3.clone()];
    let targets = [&t1, &t2];
    let good: Vec<Multiaddr> = targets.iter().map(|t| t.listen()).collect();
    // per target: an address whose dial hangs (keeps the peer in "dialing"), and a dead one
    let hang: Vec<Multiaddr> = targets.iter().map(|t| net::node_addr(t.idx, 9999)).collect();
    for h in &hang {
        net::script(h, Script::Hang);
    }
    let dead: Multiaddr = "/ip4/10.7.7.7/tcp/1".parse().unwrap();
    net::script(&dead, Script::Refuse);
    run_until_idle();
    // behaviour-provided address books (different per field, overlapping)
    let other_peer = PeerId::random();
    {
        let mut s = a.swarm.borrow_mut();
        let b = s.behaviour_mut();
        for (k, p) in b.fields_mut().into_iter().enumerate() {
            let mut c = p.cfg.lock().unwrap();
            for (ti, t) in targets.iter().enumerate() {
                let mut v = vec![];
                if (k + ti) % 2 == 0 {
                    v.push(good[ti].clone());
                }
                if k == 1 {
                    v.push(dead.clone());
                    v.push(if choose(2) == 0 { a_listen.clone() } else { a_listen3.clone() }); // own listen address from a behaviour
                }
                if k == 2 && choose(2) == 0 {
                    v.push(good[ti].clone()); // duplicate across fields
                }
                c.addrs.insert(t.peer, v);
            }
        }
    }
    let n_dials = 10 + choose(30);
    let mut rejected = 0;
    let mut filtered = 0;
    let mut sample = vec![];
    for _ in 0..n_dials {
        if violated() {
            break;
        }
        // move the target into a drawn state first
        let ti = choose(2);
        let t = targets[ti];
        match choose(6) {
            0 => {
                // make it "dialing"
                let _ = a.dial(DialOpts::peer_id(t.peer).condition(PeerCondition::Always).addresses(vec![hang[ti].clone()]).build());
            }
            1 => {
                let _ = a.dial(DialOpts::peer_id(t.peer).condition(PeerCondition::Always).addresses(vec![good[ti].clone()]).build());
                run_until_idle();
            }
            2 => {
                let _ = a.swarm.borrow_mut().disconnect_peer_id(t.peer);
                a.kick();
                run_until_idle();
            }
            _ => {}
        }
        run_steps(choose(30));
        // ---- the dial under test
        let cond = [PeerCondition::Always, PeerCondition::Disconnected, PeerCondition::NotDialing, PeerCondition::DisconnectedAndNotDialing][choose(4)];
        let extend = choose(2) == 0;
        let mut explicit: Vec<Multiaddr> = vec![];
        for _ in 0..choose(5) {
            explicit.push(match choose(8) {
                0 | 1 => good[ti].clone(),
                2 => dead.clone(),
                3 => a_listen.clone(),
                4 => a_listen2.clone(),
                7 => a_listen3.clone(),
                5 => good[ti].clone().with(Protocol::P2p(other_peer)), // carries a foreign /p2p
                _ => good[ti].clone().with(Protocol::P2p(t.peer)),     // already carries the right /p2p
            });
        }
        let use_explicit = !explicit.is_empty();
        let opts = if use_explicit {
            let mut o = DialOpts::peer_id(t.peer).condition(cond).addresses(explicit.clone());
            if extend {
                o = o.extend_addresses_through_behaviour();
            }
            o.build()
        } else {
            DialOpts::peer_id(t.peer).condition(cond).build()
        };
        let id = opts.connection_id();
        // model state *now*
        let (connected, dialing, pend_before) = {
            let m = a.model.borrow();
            (m.count_peer(&t.peer) > 0, m.is_dialing(&t.peer), m.pending_out.len())
        };
        let should = match cond {
            PeerCondition::Always => true,
            PeerCondition::Disconnected => !connected,
            PeerCondition::NotDialing => !dialing,
            PeerCondition::DisconnectedAndNotDialing => !connected && !dialing,
        };
        let listeners: Vec<Multiaddr> = own_truth.clone();
        let recs_before = net::with_net(|n| n.dials.len());
        let fails_before = count_dial_failures(&a, id);
        let r = a.dial(opts);
        let recs: Vec<Multiaddr> = net::with_net(|n| n.dials[recs_before..].iter().map(|d| d.addr.clone()).collect());
        let fails_after = count_dial_failures(&a, id);
        let state = format!("connected={connected} dialing={dialing}");
        note_val("case", (connected as u64) + 2 * (dialing as u64) + 4 * (cond as u64) + 16 * (should as u64));
        let desc = format!("dial({cond:?}, explicit={}, extend={extend}) in state {state} -> {}", explicit.len(), r.as_ref().map(|_| "ok".to_string()).unwrap_or_else(|e| dial_err_kind(e)));
        trace!("{desc}");
        if sample.len() < 25 {
            sample.push(desc);
        }
        if !should {
            rejected += 1;
            ensure!(matches!(&r, Err(e) if dial_err_kind(e) == "DialPeerConditionFalse"), "C04/condition-ignored", "{cond:?} is false ({state}) but dial returned {:?}", r.as_ref().map_err(dial_err_kind));
            ensure!(recs.is_empty(), "C04/dialled-despite-condition", "condition false but the transport was asked to dial {recs:?}");
            ensure!(fails_after.iter().zip(fails_before.iter()).all(|(x, y)| *x == *y + 1), "C04/dial-failure-count", "condition false: every field must see exactly one DialFailure, got deltas {:?}", fails_after.iter().zip(fails_before.iter()).map(|(x, y)| x - y).collect::<Vec<_>>());
            ensure!(a.model.borrow().pending_out.len() == pend_before, "C04/pending-created", "a rejected dial created a pending connection");
            continue;
        }
        // expected address list
        let mut cand: Vec<Multiaddr> = explicit.clone();
        if !use_explicit || extend {
            // union of the fields' answers, in field order
            let s = a.swarm.borrow();
            let b = s.behaviour();
            for p in b.fields() {
                cand.extend(p.cfg.lock().unwrap().addrs.get(&t.peer).cloned().unwrap_or_default());
            }
        }
        let mut seen = BTreeSet::new();
        let mut expected: Vec<Multiaddr> = vec![];
        for c in &cand {
            if listeners.contains(c) {
                filtered += 1;
                continue;
            }
            if !seen.insert(c.to_string()) {
                filtered += 1;
                continue;
            }
            expected.push(c.clone());
        }
        if expected.is_empty() {
            ensure!(matches!(&r, Err(e) if dial_err_kind(e) == "NoAddresses"), "C04/no-addresses", "no usable address (candidates {cand:?}, own listeners {listeners:?}) but dial returned {:?}", r.as_ref().map_err(dial_err_kind));
            ensure!(recs.is_empty(), "C04/dialled-without-addresses", "transport dialled {recs:?}");
            continue;
        }
        ensure!(r.is_ok(), "C04/accepted-dial-failed", "dial should be accepted ({state}, {cond:?}, expected addresses {expected:?}) but returned {:?}", r.as_ref().map_err(dial_err_kind));
        // each with /p2p/<target>; an address carrying a different /p2p cannot be extended and is not dialled
        let exp_transport: Vec<String> = expected
            .iter()
            .filter_map(|x| match x.iter().last() {
                Some(Protocol::P2p(p)) if p == t.peer => Some(x.to_string()),
                Some(Protocol::P2p(_)) => None,
                _ => Some(x.clone().with(Protocol::P2p(t.peer)).to_string()),
            })
            .collect();
        let got: Vec<String> = recs.iter().map(|x| x.to_string()).collect();
        ensure!(got == exp_transport, "C04/address-selection", "transport was asked to dial {got:?}, expected {exp_transport:?} (explicit {explicit:?}, extend={extend}, own listeners {listeners:?})");
        run_steps(choose(40));
    }
    if rejected > 0 || filtered > 0 {
        mark_nontrivial();
    }
    if rejected > 0 {
        probe("condition_rejected");
    }
    if filtered > 0 {
        probe("address_filtered");
    }
    set_sample(|| sample.join("; "));
    Ok(())
}

fn count_dial_failures(a: &Node<Composite>, id: ConnectionId) -> [usize; 3] {
    let log = a.log.lock().unwrap();
    let mut c = [0usize; 3];
    for (_, e) in &log.beh {
        if let BEv::DialFailure { tag, id: x, .. } = e {
            if *x == id {
                c[*tag as usize - 1] += 1;
            }
        }
    }
    c
}

// =================================================================================================
// C05
// =================================================================================================

fn auth_matrix() -> SimResult {
    begin();
    draw_policy();
    net::with_net(|n| n.faults = false);
    let a = Node::new(probe_composite(keepalive_cfgs()), &quiet_knobs(), None);
    let b = Node::new(probe_composite(keepalive_cfgs()), &quiet_knobs(), None);
    a.listen();
    let baddr = b.listen();
    run_until_idle();
    let kinds = [Auth::Honest, Auth::OtherPeer, Auth::LocalPeer];
    let third_peer = PeerId::random();
    let hang_addr = net::node_addr(b.idx, 9998);
    net::script(&hang_addr, Script::Hang);
    let n = 4 + choose(12);
    let mut plan = vec![];
    let mut sample = vec![];
    for i in 0..n {
        // forced schedule enumerates the 9 combinations, then random ones
        let (ao, ai) = if i < 9 && choose(4) != 0 { (kinds[i % 3], kinds[i / 3]) } else { (kinds[choose(3)], kinds[choose(3)]) };
        // expected peer id of the dial: none, the remote's, (rarely) our own id, or a third peer while another dial to the
        // remote is pending (a connection that authenticates as "some peer we are dialing anyway" is still the wrong one)
        let with_peer = [0usize, 1, 1, 1, 1, 2, 3][choose(7)];
        if with_peer == 3 {
            let _ = a.dial(DialOpts::peer_id(b.peer).condition(PeerCondition::Always).addresses(vec![hang_addr.clone()]).build());
            probe("wrong-peer-dial-while-obtained-peer-is-being-dialed");
        }
        net::with_net(|nn| {
            nn.forced_auth.push_back(ao);
            nn.forced_auth.push_back(ai);
        });
        if ao != Auth::Honest || ai != Auth::Honest {
            fired(match (ao, ai) {
                (Auth::LocalPeer, _) | (_, Auth::LocalPeer) => "auth_as_local_peer",
                _ => "auth_as_other_peer",
            });
        }
        // a dial may also run with the listener role (hole punching): the identity rules are the same
        let override_role = choose(4) == 0;
        let opts = match with_peer {
            1 | 2 | 3 => {
                if with_peer == 2 {
                    probe("dial-expecting-own-peer-id");
                }
                let o = DialOpts::peer_id(match with_peer {
                    1 => b.peer,
                    2 => a.peer,
                    _ => third_peer,
                })
                .condition(PeerCondition::Always)
                .addresses(vec![baddr.clone()]);
                if override_role {
                    probe("dial-with-role-override");
                    o.override_role().build()
                } else {
                    o.build()
                }
            }
            _ => DialOpts::unknown_peer_id().address(baddr.clone()).build(),
        };
        let id = opts.connection_id();
        let conn_before = net::conn_count();
        a.dial(opts).map_err(|e| violation!("C05/dial-refused", "{e:?}"))?;
        // interleave: let it complete fully so that the forced auth pair belongs to this dial
        run_until_idle();
        ensure!(net::conn_count() == conn_before + 1, "C05/harness", "dial did not create a physical connection");
        let conn = conn_before;
        plan.push((id, conn, ao, ai, with_peer));
        note_val("combo", (ao as u64) * 3 + ai as u64 + 9 * with_peer as u64);
        if with_peer == 2 {
            // nothing else to interleave with a dial to "ourselves"
            continue;
        }
        // some ordinary traffic in between
        if choose(3) == 0 {
            let _ = a.swarm.borrow_mut().disconnect_peer_id(b.peer);
            a.kick();
            run_until_idle();
        }
    }
    settle(Duration::from_secs(5));
    let aev = a.events.borrow();
    let bev = b.events.borrow();
    for (id, conn, ao, ai, with_peer) in &plan {
        let cs = net::conn(*conn);
        let cs = cs.lock().unwrap();
        let claimed_to_dialer = cs.claimed[0];
        let claimed_to_listener = cs.claimed[1];
        // ---- dialling side
        let out = aev.iter().find_map(|(_, e)| match e {
            Ev::Established { id: x, peer, .. } if x == id => Some(format!("Established({peer})")),
            Ev::OutgoingError { id: x, kind, .. } if x == id => Some(kind.clone()),
            _ => None,
        });
        let expected = match *with_peer {
            1 => Some(b.peer),
            2 => Some(a.peer),
            3 => Some(third_peer),
            _ => None,
        };
        let expect_out = if expected.map(|e| claimed_to_dialer != e).unwrap_or(false) {
            "WrongPeerId".to_string()
        } else if claimed_to_dialer == a.peer {
            "LocalPeerId".to_string()
        } else {
            format!("Established({claimed_to_dialer})")
        };
        let d = format!("dial {id} (expected peer given: {with_peer}) authenticated to the dialer as {ao:?}, to the listener as {ai:?}");
        if sample.len() < 20 {
            sample.push(format!("{ao:?}/{ai:?}/{with_peer} -> {out:?}"));
        }
        ensure!(out.as_deref() == Some(expect_out.as_str()), "C05/dialer-outcome", "{d}: dialer saw {out:?}, expected {expect_out}");
        if !expect_out.starts_with("Established") {
            ensure!(cs.close_polled[0] || cs.dropped[0], "C05/refused-connection-not-closed", "{d}: the dialer refused the connection ({expect_out}) but its muxer was neither closed nor dropped");
            ensure!(cs.close_polled[0], "C05/refused-connection-not-closed-gracefully", "{d}: the refused connection's muxer was dropped without poll_close");
        }
        // ---- listening side: find its incoming connection through the physical connection order
        let _ = claimed_to_listener;
        let _ = &bev;
    }
    // listening side: every IncomingConnection resolves; LocalPeerId iff authenticated as local
    let lied_local: usize = plan.iter().filter(|p| p.3 == Auth::LocalPeer).count();
    let local_errs = bev.iter().filter(|(_, e)| matches!(e, Ev::IncomingError { kind, .. } if kind == "LocalPeerId")).count();
    ensure!(local_errs == lied_local, "C05/listener-local-peer", "{lied_local} inbound connections authenticated as the listener's own id, {local_errs} IncomingConnectionError(LocalPeerId) reported");
    for (_, e) in bev.iter() {
        if let Ev::Established { peer, .. } = e {
            ensure!(*peer != b.peer, "C05/established-with-local-id", "listener reports a connection established with its own peer id");
        }
    }
    for (_, e) in aev.iter() {
        if let Ev::Established { peer, .. } = e {
            ensure!(*peer != a.peer, "C05/established-with-local-id", "dialer reports a connection established with its own peer id");
        }
    }
    for (_, conn, _, ai, _) in &plan {
        if *ai == Auth::LocalPeer {
            let cs = net::conn(*conn);
            let cs = cs.lock().unwrap();
            ensure!(cs.close_polled[1], "C05/refused-connection-not-closed", "inbound connection {conn} was refused (LocalPeerId) but its muxer was not closed via poll_close");
        }
    }
    mark_nontrivial();
    set_sample(|| sample.join("; "));
    Ok(())
}

// =================================================================================================
// C07
// =================================================================================================

fn notify() -> SimResult {
    begin();
    draw_policy();
    net::with_net(|n| n.faults = false);
    let mut ka = quiet_knobs();
    ka.notify_buffer = 1 + choose(2);
    let a = Node::new(probe_composite(keepalive_cfgs()), &ka, None);
    let b = Node::new(probe_composite(keepalive_cfgs()), &quiet_knobs(), None);
    a.listen();
    let baddr = b.listen();
    run_until_idle();
    let nconn = 1 + choose(4);
    for _ in 0..nconn {
        let _ = a.dial(DialOpts::peer_id(b.peer).condition(PeerCondition::Always).addresses(vec![baddr.clone()]).build());
    }
    run_until_idle();
    note_val("conns", nconn as u64);
    let mut n_emit = 0u64;
    let mut commanded: BTreeSet<ConnectionId> = BTreeSet::new();
    let mut starved: Vec<UnitId> = vec![];
    let nops = 10 + choose(70);
    let mut waited = false;
    for _ in 0..nops {
        if violated() {
            break;
        }
        let est: Vec<ConnectionId> = a.model.borrow().established.keys().copied().collect();
        match choose(13) {
            0..=5 => {
                // emit
                let k = choose(3);
                n_emit += 1;
                let n = n_emit;
                let handler = if !est.is_empty() && choose(3) != 0 { NotifyHandler::One(est[choose(est.len())]) } else if choose(6) == 0 { NotifyHandler::One(ConnectionId::new_unchecked(9_000_000)) } else { NotifyHandler::Any };
                with_field(&a, k, |f| f.push(ToSwarm::NotifyHandler { peer_id: b.peer, handler, event: HCmd::Payload { n, target: String::new() } }));
                a.kick();
                note("emit");
            }
            6 => {
                // starve a connection task of A
                let tasks = net::with_net(|n| n.tasks.get(&a.idx).cloned().unwrap_or_default());
                let live: Vec<UnitId> = tasks.into_iter().filter(|u| !is_done(*u)).collect();
                if !live.is_empty() {
                    let u = live[choose(live.len())];
                    starve(u, true);
                    starved.push(u);
                    fired("task_starved");
                }
            }
            7 => {
                for u in starved.drain(..) {
                    starve(u, false);
                }
                note("unstarve");
            }
            8 => {
                if !est.is_empty() {
                    let c = est[choose(est.len())];
                    commanded.insert(c);
                    a.swarm.borrow_mut().close_connection(c);
                    a.kick();
                    note("close");
                }
            }
            9 => {
                if profile() != Profile::None && net::conn_count() > 0 {
                    let c = choose(net::conn_count());
                    net::reset_conn(c);
                    fired("conn_reset");
                }
            }
            10 => {
                // one more connection
                let _ = a.dial(DialOpts::peer_id(b.peer).condition(PeerCondition::Always).addresses(vec![baddr.clone()]).build());
            }
            _ => {
                // burst against starved connection tasks: the command buffers fill up
                let tasks = net::with_net(|n| n.tasks.get(&a.idx).cloned().unwrap_or_default());
                let live: Vec<UnitId> = tasks.into_iter().filter(|u| !is_done(*u)).collect();
                for u in &live {
                    starve(*u, true);
                }
                fired("task_starved");
                let k = choose(3);
                // echo bursts: every notification is answered with a handler event, so the event channel towards the
                // Swarm fills up while the command channel towards the handler is full too
                let echo = choose(3) == 0;
                let burst = if echo { 12 + choose(30) } else { 3 + choose(8) };
                let focus = if est.is_empty() { None } else { Some(est[choose(est.len())]) };
                for _ in 0..burst {
                    n_emit += 1;
                    let n = n_emit;
                    let handler = match focus {
                        Some(c) if echo && choose(8) != 0 => NotifyHandler::One(c),
                        _ if !est.is_empty() && choose(4) != 0 => NotifyHandler::One(est[choose(est.len())]),
                        _ => NotifyHandler::Any,
                    };
                    with_field(&a, k, |f| f.push(ToSwarm::NotifyHandler { peer_id: b.peer, handler, event: HCmd::Payload { n, target: if echo { "echo".into() } else { String::new() } } }));
                }
                if echo {
                    note("echo-burst");
                    if choose(2) == 0 {
                        // let the connection tasks run while the burst is delivered
                        for u in &live {
                            starve(*u, false);
                        }
                    }
                }
                a.kick();
                run_steps(20 + choose(40));
                if with_field(&a, k, |f| f.actions.len()) > 0 {
                    waited = true; // the Swarm is holding an undeliverable notification and stopped polling the behaviour
                }
                if choose(2) == 0 && !est.is_empty() {
                    // a close racing the queued notifications
                    let c = est[choose(est.len())];
                    commanded.insert(c);
                    a.swarm.borrow_mut().close_connection(c);
                    a.kick();
                    note("close-during-burst");
                }
                run_steps(choose(20));
                for u in &live {
                    starve(*u, false);
                }
                note("burst");
            }
        }
        run_steps(choose(12));
        // did an emitted notification have to wait? (back-pressure reached)
        let pending_actions = with_field(&a, 0, |f| f.actions.len()) + with_field(&a, 1, |f| f.actions.len()) + with_field(&a, 2, |f| f.actions.len());
        if pending_actions > 0 && ready_count() == 0 {
            waited = true;
        }
    }
    for u in starved.drain(..) {
        starve(u, false);
    }
    a.kick();
    settle(Duration::from_secs(2));
    if violated() {
        return Ok(());
    }
    // ---- oracle
    let log = a.log.lock().unwrap();
    let evs = a.events.borrow();
    // which connections were ever closed (for any reason) on A
    let closed: BTreeSet<ConnectionId> = evs.iter().filter_map(|(_, e)| if let Ev::Closed { id, .. } = e { Some(*id) } else { None }).collect();
    // receipts: (n) -> [(conn, tag)]
    let mut receipts: BTreeMap<u64, Vec<(ConnectionId, u8)>> = BTreeMap::new();
    let mut per_handler_last: BTreeMap<(ConnectionId, u8), u64> = BTreeMap::new();
    for (_, h) in &log.hand {
        if let HEv::Command { tag, id, cmd: HCmd::Payload { n, .. } } = h {
            receipts.entry(*n).or_default().push((*id, *tag));
            let last = per_handler_last.entry((*id, *tag)).or_insert(0);
            ensure!(*n > *last, "C07/out-of-order", "handler (connection {id}, field {tag}) received notification #{n} after #{last}");
            *last = *n;
        }
    }
    let mut delivered = 0;
    let mut dropped = 0;
    for (seq, e) in &log.beh {
        let BEv::Emitted { tag, n, one, .. } = e else { continue };
        let got = receipts.get(n).cloned().unwrap_or_default();
        ensure!(got.len() <= 1, "C07/delivered-twice", "notification #{n} was delivered {} times: {got:?}", got.len());
        // snapshot of established connections to B when the action was handed to the Swarm
        let mut snap: BTreeSet<ConnectionId> = BTreeSet::new();
        for (s2, ev) in evs.iter() {
            if s2 > seq {
                break;
            }
            match ev {
                Ev::Established { id, peer, .. } if *peer == b.peer => {
                    snap.insert(*id);
                }
                Ev::Closed { id, .. } => {
                    snap.remove(id);
                }
                _ => {}
            }
        }
        match one {
            Some(c) => {
                if let Some((rc, rt)) = got.first() {
                    ensure!(rc == c && rt == tag, "C07/wrong-target", "notification #{n} for One({c}) emitted by field {tag} was received by handler (connection {rc}, field {rt})");
                    delivered += 1;
                } else {
                    dropped += 1;
                    let excusable = !snap.contains(c) || closed.contains(c) || commanded.contains(c);
                    ensure!(excusable, "C07/lost", "notification #{n} for One({c}) (field {tag}) never arrived although connection {c} was established at emission and was never closed nor commanded to close");
                }
            }
            None => {
                if let Some((rc, rt)) = got.first() {
                    ensure!(snap.contains(rc), "C07/any-outside-snapshot", "notification #{n} (Any, field {tag}) was received on connection {rc}, which was not established when it was emitted (snapshot {snap:?})");
                    ensure!(rt == tag, "C07/wrong-field", "notification #{n} emitted by field {tag} arrived at field {rt}");
                    delivered += 1;
                } else {
                    dropped += 1;
                    // the Swarm hands the event to ONE ready connection of the snapshot; if that one
                    // closes before its task processes the command the event is legitimately gone. So
                    // a loss is only inexcusable when no snapshot member was ever closed or told to close.
                    let excusable = snap.is_empty() || snap.iter().any(|c| closed.contains(c) || commanded.contains(c));
                    ensure!(excusable, "C07/lost", "notification #{n} (Any, field {tag}) never arrived although none of the connections {snap:?} established at emission was ever closed or commanded to close");
                }
            }
        }
    }
    if waited || !commanded.is_empty() {
        mark_nontrivial();
    }
    if waited {
        probe("notification_had_to_wait");
    }
    set_sample(|| format!("{nconn}+ connections, notify buffer {}, {n_emit} notifications emitted: {delivered} delivered, {dropped} dropped (excusable), closes commanded on {commanded:?}, waited={waited}", ka.notify_buffer));
    Ok(())
}
