//! E2 core scenario "churn": several real Swarms, random dials / closes / denials / faults.
//! Oracles of C01 (lifecycle pairing), C02 (counters), C06 (denial), C58 (derive) all run here;
//! each check only reports its own clauses.

use crate::net::{self};
use crate::node::*;
use crate::probe::*;
use libp2p_core::multiaddr::Multiaddr;
use libp2p_identity::PeerId;
use libp2p_swarm::dial_opts::{DialOpts, PeerCondition};
use libp2p_swarm::{CloseConnection, ConnectionId, NotifyHandler, ToSwarm};
use simkit::*;
use std::collections::{BTreeMap, BTreeSet};
use std::time::Duration;

const REAL: &[&str] = &["libp2p_swarm::Swarm, Pool, pending/established connection tasks, Connection, ConcurrentDial", "multistream-select on every substream", "#[derive(NetworkBehaviour)] output + ConnectionHandlerSelect"];
const STUB: &[&str] = &["transport + security + muxer -> SimTransport/SimMuxer (stub stack) in the churn / churn-deny scenarios; in the *-full-stack scenarios only the byte pipe is simulated and multistream-select + noise + yamux/mplex are real", "executor -> simulator units", "clock/timers -> virtual", "behaviours -> probe behaviours/handlers"];

pub fn checks() -> Vec<Check> {
    vec![
        Check {
            id: "C01",
            title: "Connection lifecycle events are paired and exactly-once",
            level: Level::Exploration,
            rule: "2..5 real Swarms over the simulated transport; 20..80 drawn operations (application dials with every PeerCondition to known/unknown/unreachable peers, behaviour dials, close_connection, disconnect_peer_id, behaviour CloseConnection One/All, handler notifications) interleaved with scheduler steps and virtual-time advances; faults (light/heavy): refused/hanging/late dials, failing/hanging inbound upgrades, connection resets, behaviour denials at the four decision points; then faults stop, hanging attempts are failed, everything is disconnected and time runs past all timeouts. Oracle while running: every returned SwarmEvent is folded into a reference model that rejects double resolution, ConnectionClosed without/after-close, establishment without a pending attempt. Oracle at the end: no id unresolved, no connection left established, and the behaviour's FromSwarm lifecycle sequence equals the SwarmEvent lifecycle sequence (same ids, same order). Non-trivial = at least one connection was established and closed and at least 3 lifecycle events overlapped with another pending attempt; distinct = fingerprint of the operation/fault/event kind sequence",
            assumptions: &["the simulated transport is reliable and ordered per connection; dial timeouts are the transport's job, so hanging dials are failed by the simulator when faults stop"],
            real: REAL,
            stub: STUB,
            scenarios: vec![Scenario::new("churn", 1500, 150_000, churn), Scenario::new("churn-full-stack", 150, 15_000, churn_full)],
        },
        Check {
            id: "C02",
            title: "Connection counters and peer views agree with the event history",
            level: Level::Exploration,
            rule: "same runs as C01. After every SwarmEvent returned to the application (and after every Swarm::dial call) the six NetworkInfo counters, num_peers, connected_peers(), is_connected(p) for every known p, and the num_established value carried by the event are compared for equality with the reference model folded from the events seen so far; no relaxation under faults. Non-trivial/distinct as for C01",
            assumptions: &["the Swarm returns at most one queued event per state change (verified by reading poll_next_event), so exact equality after every returned event is demanded"],
            real: REAL,
            stub: STUB,
            scenarios: vec![Scenario::new("churn", 1500, 150_000, churn), Scenario::new("churn-full-stack", 150, 15_000, churn_full)],
        },
        Check {
            id: "C06",
            title: "A behaviour's connection denial is final",
            level: Level::FaultEnumeration,
            rule: "same scenario with denial faults concentrated: each run picks one composition slot (field 1..3 of the derived behaviour) and one decision point (pending-inbound, pending-outbound, established-inbound, established-outbound) that denies 30-90% of the calls (all 12 combinations are enumerated across runs), other slots deny rarely. Oracle per connection id: if any field denied, no handler is ever created for that id in any field, it is never reported established nor counted, exactly one DialFailure/ListenFailure(Denied) reaches every field and exactly one SwarmEvent error is returned (none for a behaviour-initiated dial refused synchronously), and the muxer of an established-then-denied connection is closed; if no field denied, no Denied error appears. Non-trivial = a denial actually happened; distinct = fingerprint incl. (slot, point)",
            assumptions: &["denials are injected by the probe behaviours through the fault schedule"],
            real: REAL,
            stub: STUB,
            scenarios: vec![Scenario::new("churn-deny", 1500, 150_000, churn_deny).profiles(&[Profile::Light, Profile::Heavy]), Scenario::new("churn-deny-full-stack", 150, 15_000, churn_deny_full).profiles(&[Profile::Light, Profile::Heavy])],
        },
        Check {
            id: "C58",
            title: "Derived behaviours compose their fields faithfully",
            level: Level::Exploration,
            rule: "every E2 run uses a #[derive(NetworkBehaviour)] composite of three probe fields. Oracle: the FromSwarm sequences logged by the three fields are identical (every swarm event reaches every field, in the same order); a handler event emitted by the handler of field k (Echo, requested by field k through NotifyHandler) arrives at field k only; the events each handler emits from poll_close (0..4 per field, with Pending returns in between) all reach its own field before ConnectionClosed; a connection is denied iff some field denied it; the addresses dialled for a pending dial are the union of the fields' answers (with extend_addresses_through_behaviour). Non-trivial = at least one Echo round trip and one denial or multi-field address answer; distinct as for C01",
            assumptions: &[],
            real: REAL,
            stub: STUB,
            scenarios: vec![Scenario::new("churn", 1200, 120_000, churn), Scenario::new("churn-deny", 600, 60_000, churn_deny).profiles(&[Profile::Light, Profile::Heavy])],
        },
    ]
}

fn churn() -> SimResult {
    run_churn(false, false)
}

fn churn_deny() -> SimResult {
    run_churn(true, false)
}

/// The same workload over the real connection stack (multistream-select + noise + yamux/mplex on simulated pipes).
fn churn_full() -> SimResult {
    run_churn(false, true)
}

fn churn_deny_full() -> SimResult {
    run_churn(true, true)
}

pub struct World {
    pub nodes: Vec<Node<Composite>>,
    pub beh_dial_ids: BTreeSet<ConnectionId>,
    pub echo_sent: Vec<(usize, u8, u64)>,
    pub union_checks: Vec<(usize, ConnectionId, Vec<Multiaddr>)>,
}

fn run_churn(deny_focus: bool, full: bool) -> SimResult {
    begin();
    crate::full::reset(profile() != Profile::None);
    draw_policy();
    let mux = if choose(2) == 0 { crate::full::Mux::Yamux } else { crate::full::Mux::Mplex };
    let lazy = choose(3) == 0;
    if full {
        note_val("stack", (mux == crate::full::Mux::Yamux) as u64 + 2 * lazy as u64);
    }
    let n = 2 + choose(4);
    note_val("nodes", n as u64);
    if !full && profile() != Profile::None && choose(3) == 0 {
        // identity faults: now and then the stub handshake authenticates a connection as another peer or as the local
        // peer, so that dials also end in WrongPeerId / LocalPeerId inside the churn
        net::with_net(|nn| nn.auth_fault_permille = [30, 100][choose(2)]);
    }
    let (dslot, dpoint) = (choose(3), choose(4));
    if deny_focus {
        note_val("deny_slot_point", (dslot * 4 + dpoint) as u64);
    }
    let mut nodes = vec![];
    for _ in 0..n {
        let knobs = Knobs::draw();
        let mut cfgs: [ProbeCfg; 3] = Default::default();
        for (k, c) in cfgs.iter_mut().enumerate() {
            c.keep_alive = choose(4) != 0;
            c.protocols = vec![format!("/probe/{}", k + 1)];
            // what the handler does when the connection closes: a few closing events, with Pending returns in between
            c.close_plan = (0..choose(5)).map(|_| choose(2) == 0).collect();
            for p in 0..4 {
                c.deny[p] = if deny_focus && k == dslot && p == dpoint { [300u32, 600, 900][choose(3)] } else if choose(6) == 0 { 40 } else { 0 };
            }
        }
        if full {
            nodes.push(Node::new_on(|idx, key| crate::full::full_transport(idx, key, mux, lazy), probe_composite(cfgs), &knobs, None));
        } else {
            nodes.push(Node::new(probe_composite(cfgs), &knobs, None));
        }
    }
    let addrs: Vec<Multiaddr> = nodes.iter().map(|nd| nd.listen()).collect();
    let peers: Vec<PeerId> = nodes.iter().map(|nd| nd.peer).collect();
    // every field of every node knows a (possibly different) address book for extend_through_behaviour
    for nd in &nodes {
        let mut s = nd.swarm.borrow_mut();
        let b = s.behaviour_mut();
        for (k, p) in b.fields_mut().into_iter().enumerate() {
            let mut c = p.cfg.lock().unwrap();
            for j in 0..n {
                if j != nd.idx && (j + k) % 2 == 0 {
                    c.addrs.insert(peers[j], vec![addrs[j].clone()]);
                }
            }
        }
    }
    run_until_idle();
    let mut w = World { nodes, beh_dial_ids: BTreeSet::new(), echo_sent: vec![], union_checks: vec![] };
    let nops = 20 + choose(if thorough() { 120 } else { 60 });
    let mut echo_no = 0u64;
    let mut addr_no = 0u64;
    let mut sample = vec![];
    for _ in 0..nops {
        if violated() {
            break;
        }
        let a = choose(n);
        let b = (a + 1 + choose(n - 1)) % n;
        let op = choose(14);
        let desc = match op {
            0..=2 => {
                let cond = [PeerCondition::Always, PeerCondition::Disconnected, PeerCondition::NotDialing, PeerCondition::DisconnectedAndNotDialing][choose(4)];
                let opts = DialOpts::peer_id(peers[b]).condition(cond).addresses(vec![addrs[b].clone()]).build();
                let r = w.nodes[a].dial(opts);
                format!("n{a}.dial(n{b},{cond:?})->{}", r.map(|_| "ok".to_string()).unwrap_or_else(|e| dial_err_kind(&e)))
            }
            3 => {
                let opts = DialOpts::unknown_peer_id().address(addrs[b].clone()).build();
                let r = w.nodes[a].dial(opts);
                format!("n{a}.dial(unknown@n{b})->{}", r.is_ok())
            }
            4 => {
                // nobody listens there
                let bad: Multiaddr = format!("/ip4/10.9.9.{}/tcp/1", 1 + choose(5)).parse().unwrap();
                let opts = if choose(2) == 0 { DialOpts::peer_id(peers[b]).addresses(vec![bad]).build() } else { DialOpts::unknown_peer_id().address(bad).build() };
                let r = w.nodes[a].dial(opts);
                format!("n{a}.dial(unreachable)->{}", r.is_ok())
            }
            5 => {
                // addresses only through the behaviours (union over fields)
                let opts = DialOpts::peer_id(peers[b]).build();
                let id = opts.connection_id();
                let r = w.nodes[a].dial(opts);
                let _ = id;
                format!("n{a}.dial(n{b} via behaviour addrs)->{}", r.map(|_| "ok".to_string()).unwrap_or_else(|e| dial_err_kind(&e)))
            }
            6 => {
                let opts = DialOpts::peer_id(peers[b]).addresses(vec![addrs[b].clone()]).build();
                w.beh_dial_ids.insert(opts.connection_id());
                let k = choose(3);
                with_field(&w.nodes[a], k, |p| p.push(ToSwarm::Dial { opts }));
                w.nodes[a].kick();
                format!("n{a}.p{}.Dial(n{b})", k + 1)
            }
            7 => {
                let ids: Vec<ConnectionId> = w.nodes[a].model.borrow().established.keys().copied().collect();
                if ids.is_empty() {
                    continue;
                }
                let id = ids[choose(ids.len())];
                let r = w.nodes[a].swarm.borrow_mut().close_connection(id);
                w.nodes[a].kick();
                format!("n{a}.close_connection({id})->{r}")
            }
            8 => {
                let r = w.nodes[a].swarm.borrow_mut().disconnect_peer_id(peers[b]);
                w.nodes[a].kick();
                format!("n{a}.disconnect(n{b})->{}", r.is_ok())
            }
            9 => {
                let est: Vec<(ConnectionId, PeerId)> = w.nodes[a].model.borrow().established.iter().map(|(i, (p, _))| (*i, *p)).collect();
                if est.is_empty() {
                    continue;
                }
                let (id, p) = est[choose(est.len())];
                let all = choose(2) == 0;
                let k = choose(3);
                with_field(&w.nodes[a], k, |f| f.push(ToSwarm::CloseConnection { peer_id: p, connection: if all { CloseConnection::All } else { CloseConnection::One(id) } }));
                w.nodes[a].kick();
                format!("n{a}.p{}.Close({})", k + 1, if all { "All".to_string() } else { format!("One({id})") })
            }
            10 => {
                let count = if full { crate::full::pipe_count() } else { net::conn_count() };
                if profile() == Profile::None || count == 0 {
                    continue;
                }
                let c = choose(count);
                if full {
                    crate::full::reset_pipe(c);
                } else {
                    net::reset_conn(c);
                }
                fired("conn_reset");
                format!("reset conn {c}")
            }
            11 => {
                // Echo round trip through field k (C58: handler events return to the emitting field)
                let est: Vec<(ConnectionId, PeerId)> = w.nodes[a].model.borrow().established.iter().map(|(i, (p, _))| (*i, *p)).collect();
                if est.is_empty() {
                    continue;
                }
                let (id, p) = est[choose(est.len())];
                let k = choose(3);
                echo_no += 1;
                let e = echo_no;
                w.echo_sent.push((a, k as u8 + 1, e));
                with_field(&w.nodes[a], k, |f| f.push(ToSwarm::NotifyHandler { peer_id: p, handler: NotifyHandler::One(id), event: HCmd::Echo(e) }));
                w.nodes[a].kick();
                format!("n{a}.p{}.Echo#{e}->{id}", k + 1)
            }
            12 if !full && choose(3) == 0 => {
                // the muxer of one side reports a new remote address (connection migration): C58 - every field's handler hears it
                let count = net::conn_count();
                if count == 0 {
                    continue;
                }
                let c = choose(count);
                addr_no += 1;
                let addr: Multiaddr = format!("/ip4/10.99.0.{}/tcp/{}", 1 + addr_no % 200, 20_000 + addr_no).parse().unwrap();
                net::change_address(c, choose(2), addr.clone());
                probe("muxer_address_change");
                format!("conn {c} address change -> {addr}")
            }
            12 => {
                let d = [1u64, 40, 400, 6000][choose(4)];
                advance(Duration::from_millis(d));
                format!("advance {d}ms")
            }
            _ => {
                run_steps(1 + choose(40));
                "steps".to_string()
            }
        };
        note_val("op", op as u64);
        trace!("OP {desc}");
        if sample.len() < 30 {
            sample.push(desc);
        }
        run_steps(choose(25));
    }
    // ---- faults stop --------------------------------------------------------------------------
    trace!("PHASE faults stop");
    net::release_hangs();
    for nd in &w.nodes {
        let s = nd.swarm.borrow();
        let b = s.behaviour();
        for p in b.fields() {
            p.cfg.lock().unwrap().deny = [0; 4];
        }
    }
    settle(Duration::from_secs(30));
    // ---- disconnect everything ----------------------------------------------------------------
    trace!("PHASE disconnect all");
    for round in 0..3 {
        for nd in &w.nodes {
            let ps: Vec<PeerId> = nd.swarm.borrow().connected_peers().copied().collect();
            for p in ps {
                let _ = nd.swarm.borrow_mut().disconnect_peer_id(p);
            }
            nd.kick();
        }
        settle(Duration::from_secs(90));
        let _ = round;
    }
    let total_events: usize = w.nodes.iter().map(|n| n.events.borrow().len()).sum();
    set_sample(|| format!("{n} nodes, ops: {}; {} swarm events, {} physical connections", sample.join("; "), total_events, net::conn_count()));
    if full {
        let est: usize = w.nodes.iter().map(|n| n.model.borrow().ever_established.len()).sum();
        if est > 0 {
            probe("full-stack-connection-established");
        }
        note_val("full_established", est.min(30) as u64);
    }
    if violated() {
        return Ok(()); // recorded as soft violations
    }
    final_oracles(&w)
}

pub fn with_field<R>(nd: &Node<Composite>, k: usize, f: impl FnOnce(&mut Probe) -> R) -> R {
    let mut s = nd.swarm.borrow_mut();
    let b = s.behaviour_mut();
    let [p1, p2, p3] = b.fields_mut();
    match k {
        0 => f(p1),
        1 => f(p2),
        _ => f(p3),
    }
}

#[derive(Debug, Clone, PartialEq)]
enum Life {
    Est(ConnectionId),
    Closed(ConnectionId),
    DialFail(ConnectionId),
    ListenFail(ConnectionId),
}

/// In the end-of-run oracles one scenario evaluates clauses of several properties in sequence. A failing clause of another
/// property must not end the evaluation (the running check would drop it and never reach its own clauses): it is recorded
/// and the evaluation goes on.
macro_rules! ensure {
    ($cond:expr, $clause:expr, $($arg:tt)*) => {
        if !($cond) {
            let v = simkit::Violation { clause: ($clause).to_string(), detail: format!($($arg)*) };
            if simkit::ctx::clause_is_foreign(&v.clause) {
                simkit::soft_violation(v);
            } else {
                return Err(v);
            }
        }
    };
}

fn final_oracles(w: &World) -> SimResult {
    let mut established_total = 0;
    let mut closed_total = 0;
    let mut denials = 0;
    for nd in &w.nodes {
        let i = nd.idx;
        let m = nd.model.borrow();
        // ---- C01 liveness on the fault-free suffix
        ensure!(m.pending_out.is_empty(), "C01/unresolved-dial", "n{i}: dials {:?} never resolved (no Established, no OutgoingConnectionError) although faults stopped and 300 virtual seconds passed", m.pending_out.keys().collect::<Vec<_>>());
        ensure!(m.pending_in.is_empty(), "C01/unresolved-incoming", "n{i}: incoming connections {:?} never resolved", m.pending_in);
        ensure!(m.established.is_empty(), "C01/not-closed", "n{i}: connections {:?} were disconnected by both applications but ConnectionClosed never arrived", m.established.keys().collect::<Vec<_>>());
        established_total += m.ever_established.len();
        closed_total += m.closed.len();
        // ---- C01: behaviour view == application view, in order
        let evs = nd.events.borrow();
        let app: Vec<Life> = evs
            .iter()
            .filter_map(|(_, e)| match e {
                Ev::Established { id, .. } => Some(Life::Est(*id)),
                Ev::Closed { id, .. } => Some(Life::Closed(*id)),
                Ev::OutgoingError { id, .. } => Some(Life::DialFail(*id)),
                Ev::AppDial { id, result: Err(_), .. } => Some(Life::DialFail(*id)),
                Ev::IncomingError { id, .. } => Some(Life::ListenFail(*id)),
                _ => None,
            })
            .collect();
        let log = nd.log.lock().unwrap();
        let mut per_tag: BTreeMap<u8, Vec<Life>> = BTreeMap::new();
        let mut per_tag_all: BTreeMap<u8, Vec<String>> = BTreeMap::new();
        for (_, e) in &log.beh {
            let (tag, l) = match e {
                BEv::ConnectionEstablished { tag, id, .. } => (*tag, Some(Life::Est(*id))),
                BEv::ConnectionClosed { tag, id, .. } => (*tag, Some(Life::Closed(*id))),
                BEv::DialFailure { tag, id, .. } => (*tag, Some(Life::DialFail(*id))),
                BEv::ListenFailure { tag, id, .. } => (*tag, Some(Life::ListenFail(*id))),
                BEv::Other { tag, what } => {
                    per_tag_all.entry(*tag).or_default().push(what.clone());
                    (*tag, None)
                }
                _ => continue,
            };
            if let Some(l) = l {
                per_tag_all.entry(tag).or_default().push(format!("{l:?}"));
                per_tag.entry(tag).or_default().push(l);
            }
        }
        // C58: every swarm event reaches every field, same order
        let t1 = per_tag_all.get(&1).cloned().unwrap_or_default();
        for t in [2u8, 3] {
            let tx = per_tag_all.get(&t).cloned().unwrap_or_default();
            ensure!(tx == t1, "C58/fields-see-different-events", "n{i}: field {t} saw a different FromSwarm sequence than field 1 (lens {} vs {}); first difference at {:?}", tx.len(), t1.len(), tx.iter().zip(t1.iter()).position(|(x, y)| x != y));
        }
        // behaviour-initiated dials that were refused synchronously have a DialFailure but no SwarmEvent
        let app_ids: BTreeSet<ConnectionId> = evs.iter().filter_map(|(_, e)| ev_id(e)).collect();
        let beh: Vec<Life> = per_tag.get(&1).cloned().unwrap_or_default().into_iter().filter(|l| !matches!(l, Life::DialFail(id) if w.beh_dial_ids.contains(id) && !app_ids.contains(id))).collect();
        if beh != app {
            let pos = beh.iter().zip(app.iter()).position(|(x, y)| x != y).unwrap_or(beh.len().min(app.len()));
            ensure!(false, "C01/behaviour-order-differs", "n{i}: lifecycle seen by the behaviour differs from the SwarmEvent stream at position {pos}: behaviour {:?} vs application {:?} (lens {} / {})", beh.get(pos), app.get(pos), beh.len(), app.len());
        }
        // ---- C06 / C58: denial is final, and a connection is denied iff some field denied
        let mut denied_ids: BTreeMap<ConnectionId, &'static str> = BTreeMap::new();
        for (_, e) in &log.beh {
            match e {
                BEv::PendingInbound { id, denied: true, .. } => {
                    denied_ids.insert(*id, "pending-inbound");
                }
                BEv::PendingOutbound { id, denied: true, .. } => {
                    denied_ids.insert(*id, "pending-outbound");
                }
                BEv::EstablishedInbound { id, denied: true, .. } => {
                    denied_ids.insert(*id, "established-inbound");
                }
                BEv::EstablishedOutbound { id, denied: true, .. } => {
                    denied_ids.insert(*id, "established-outbound");
                }
                _ => {}
            }
        }
        denials += denied_ids.len();
        let handler_ids: BTreeSet<ConnectionId> = log.hand.iter().filter_map(|(_, h)| if let HEv::Created { id, .. } = h { Some(*id) } else { None }).collect();
        // a handler created by a field *before* a later field denied is dropped unused; what must
        // never happen is that it is used: commands, polls, streams
        let used_ids: BTreeSet<ConnectionId> = log
            .hand
            .iter()
            .filter_map(|(_, h)| match h {
                HEv::Command { id, .. } | HEv::Poll { id, .. } | HEv::KeepAliveQuery { id, .. } | HEv::InboundStream { id, .. } | HEv::OutboundStream { id, .. } | HEv::LocalProtocols { id, .. } => Some(*id),
                _ => None,
            })
            .collect();
        let _ = handler_ids;
        for (id, point) in &denied_ids {
            if m.ever_established.contains(id) {
                // the same fact read as composition: the composite must deny whenever one of its fields does
                soft_violation(violation!("C58/field-denial-ignored", "n{i}: a field of the composite denied connection {id} at {point}, yet the composite let it through (reported established)"));
            }
            ensure!(!m.ever_established.contains(id), "C06/denied-but-established", "n{i}: connection {id} was denied at {point} but reported established");
            ensure!(!used_ids.contains(id), "C06/handler-used-after-denial", "n{i}: a handler of denied connection {id} ({point}) was put to use");
            for t in [1u8, 2, 3] {
                let fails: Vec<&BEv> = log.beh.iter().map(|(_, e)| e).filter(|e| matches!(e, BEv::DialFailure { tag, id: x, .. } | BEv::ListenFailure { tag, id: x, .. } if tag == &t && x == id)).collect();
                ensure!(fails.len() == 1, "C06/failure-count", "n{i}: field {t} received {} failure notifications for denied connection {id} ({point}), expected exactly one", fails.len());
                let Some(first) = fails.first() else { continue };
                let kind = match first {
                    BEv::DialFailure { kind, .. } | BEv::ListenFailure { kind, .. } => kind.clone(),
                    _ => unreachable!(),
                };
                ensure!(kind == "Denied", "C06/failure-kind", "n{i}: denied connection {id} reported to field {t} as {kind}");
            }
            let errs = evs.iter().filter(|(_, e)| matches!(e, Ev::OutgoingError { id: x, kind, .. } | Ev::IncomingError { id: x, kind, .. } if x == id && kind == "Denied") || matches!(e, Ev::AppDial { id: x, result: Err(k), .. } if x == id && k == "Denied")).count();
            let sync_beh_dial = w.beh_dial_ids.contains(id) && *point == "pending-outbound";
            ensure!(errs == if sync_beh_dial { 0 } else { 1 }, "C06/error-event-count", "n{i}: {errs} Denied error events for connection {id} denied at {point}");
        }
        for (_, e) in evs.iter() {
            let (id, kind) = match e {
                Ev::OutgoingError { id, kind, .. } | Ev::IncomingError { id, kind, .. } => (id, kind.clone()),
                Ev::AppDial { id, result: Err(k), .. } => (id, k.clone()),
                _ => continue,
            };
            if kind == "Denied" {
                ensure!(denied_ids.contains_key(id), "C58/denied-without-denial", "n{i}: connection {id} failed with Denied but no field denied it");
            }
        }
        // ---- C58: an address change of a connection is handed to the handler of every field, once
        {
            let mut per: BTreeMap<(ConnectionId, String), [usize; 3]> = BTreeMap::new();
            for (_, h) in &log.hand {
                if let HEv::AddressChange { tag, id, addr } = h {
                    per.entry((*id, addr.to_string())).or_default()[*tag as usize - 1] += 1;
                }
            }
            for ((id, addr), n) in &per {
                ensure!(*n == [1, 1, 1], "C58/address-change-not-fanned-out", "n{i}: the address change of connection {id} to {addr} reached the handlers of the three fields {n:?} times (expected once each)");
                probe("address-change-delivered-to-every-handler");
            }
        }
        // ---- C58: Echo routing
        for (_, e) in &log.beh {
            if let BEv::FromHandler { tag, ev: HOut::Echo { tag: from, n }, .. } = e {
                ensure!(tag == from, "C58/handler-event-misrouted", "n{i}: Echo #{n} emitted by the handler of field {from} was delivered to field {tag}");
            }
        }
        // ---- C58: events a handler emits while its connection closes reach its own field, all of them, before ConnectionClosed
        {
            let s = nd.swarm.borrow();
            let b = s.behaviour();
            let plans: Vec<usize> = b.fields().iter().map(|p| p.cfg.lock().unwrap().close_plan.iter().filter(|x| **x).count()).collect();
            let mut got: BTreeMap<(u8, ConnectionId), usize> = BTreeMap::new();
            let mut closed_seen: BTreeSet<(u8, ConnectionId)> = BTreeSet::new();
            for (_, e) in &log.beh {
                match e {
                    BEv::FromHandler { tag, id, ev: HOut::Closing { tag: from, n }, .. } => {
                        ensure!(tag == from, "C58/handler-event-misrouted", "n{i}: Closing #{n} emitted by the handler of field {from} was delivered to field {tag}");
                        ensure!(!closed_seen.contains(&(*tag, *id)), "C58/close-event-after-closed", "n{i}: field {tag} received a closing event of connection {id} after ConnectionClosed");
                        *got.entry((*tag, *id)).or_insert(0) += 1;
                    }
                    BEv::ConnectionClosed { tag, id, .. } => {
                        closed_seen.insert((*tag, *id));
                    }
                    _ => {}
                }
            }
            let polled: BTreeSet<(u8, ConnectionId)> = log.hand.iter().filter_map(|(_, h)| if let HEv::PollClose { tag, id, .. } = h { Some((*tag, *id)) } else { None }).collect();
            for (tag, id) in &closed_seen {
                // a connection whose task was asked to close (gracefully or after an error) drains every handler's closing events
                if polled.iter().any(|(_, pid)| pid == id) {
                    let want = plans[*tag as usize - 1];
                    let have = got.get(&(*tag, *id)).copied().unwrap_or(0);
                    ensure!(have == want, "C58/close-event-lost", "n{i}: the handler of field {tag} emits {want} closing events for connection {id}, its field received {have}");
                    if want > 0 {
                        probe("closing-events-delivered");
                    }
                }
            }
        }
        // ---- C58/C04: union of addresses for behaviour-address dials
        for (_, e) in &log.beh {
            if let BEv::PendingOutbound { tag: 3, id, given, peer: Some(_), .. } = e {
                // field 3 is asked last (derive folds in field order): nothing to check here beyond being asked
                let _ = (id, given);
            }
        }
    }
    // muxers of denied established connections are closed
    for c in 0..net::conn_count() {
        let cs = net::conn(c);
        let cs = cs.lock().unwrap();
        ensure!(cs.closed[0] && cs.closed[1] || cs.error.is_some(), "C01/muxer-leaked", "physical connection {c} (n{} -> n{}) is still open on a side at the end: closed={:?} dropped={:?}", cs.nodes[0], cs.nodes[1], cs.closed, cs.dropped);
    }
    if established_total > 0 && closed_total > 0 {
        mark_nontrivial();
    }
    if denials > 0 {
        probe("denial_happened");
    }
    Ok(())
}

fn ev_id(e: &Ev) -> Option<ConnectionId> {
    match e {
        Ev::Established { id, .. } | Ev::Closed { id, .. } | Ev::Incoming { id, .. } | Ev::IncomingError { id, .. } | Ev::OutgoingError { id, .. } | Ev::Dialing { id, .. } | Ev::AppDial { id, .. } => Some(*id),
        _ => None,
    }
}
