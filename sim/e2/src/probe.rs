//! Probe behaviour + handler: record everything the Swarm tells them, execute commands from
//! the workload (emit ToSwarm actions, deny connections, open/hold/drop streams, flip
//! keep-alive, change advertised protocols).

use futures::future;
use futures::AsyncWrite;
use libp2p_core::multiaddr::Multiaddr;
use libp2p_core::transport::PortUse;
use libp2p_core::upgrade::{InboundUpgrade, OutboundUpgrade, UpgradeInfo};
use libp2p_core::Endpoint;
use libp2p_identity::PeerId;
use libp2p_swarm::behaviour::{ExternalAddresses, FromSwarm, ListenAddresses, PeerAddresses};
use libp2p_swarm::handler::{ConnectionEvent, ProtocolSupport};
use libp2p_swarm::{ConnectionDenied, ConnectionHandler, ConnectionHandlerEvent, ConnectionId, DialError, ListenError, NetworkBehaviour, Stream, StreamProtocol, SubstreamProtocol, THandlerInEvent, THandlerOutEvent, ToSwarm};
use simkit::*;
use std::collections::{BTreeMap, HashSet, VecDeque};
use std::convert::Infallible;
use std::sync::{Arc, Mutex};
use std::task::{Context, Poll, Waker};
use std::time::Duration;

pub fn dial_err_kind(e: &DialError) -> String {
    match e {
        DialError::LocalPeerId { .. } => "LocalPeerId".into(),
        DialError::NoAddresses => "NoAddresses".into(),
        DialError::DialPeerConditionFalse(_) => "DialPeerConditionFalse".into(),
        DialError::Aborted => "Aborted".into(),
        DialError::WrongPeerId { .. } => "WrongPeerId".into(),
        DialError::Denied { .. } => "Denied".into(),
        DialError::Transport(v) => format!("Transport({})", v.len()),
    }
}

pub fn listen_err_kind(e: &ListenError) -> String {
    match e {
        ListenError::Aborted => "Aborted".into(),
        ListenError::WrongPeerId { .. } => "WrongPeerId".into(),
        ListenError::LocalPeerId { .. } => "LocalPeerId".into(),
        ListenError::Denied { .. } => "Denied".into(),
        ListenError::Transport(_) => "Transport".into(),
    }
}

/// What a behaviour was told / asked, in call order (shared by all probe fields of a node).
#[derive(Debug, Clone)]
pub enum BEv {
    PendingInbound { tag: u8, id: ConnectionId, denied: bool },
    PendingOutbound { tag: u8, id: ConnectionId, peer: Option<PeerId>, given: Vec<Multiaddr>, returned: Vec<Multiaddr>, denied: bool },
    EstablishedInbound { tag: u8, id: ConnectionId, peer: PeerId, denied: bool },
    EstablishedOutbound { tag: u8, id: ConnectionId, peer: PeerId, addr: Multiaddr, denied: bool },
    ConnectionEstablished { tag: u8, id: ConnectionId, peer: PeerId, outbound: bool, other_established: usize, failed: usize },
    ConnectionClosed { tag: u8, id: ConnectionId, peer: PeerId, remaining: usize, cause: Option<String> },
    DialFailure { tag: u8, id: ConnectionId, peer: Option<PeerId>, kind: String },
    ListenFailure { tag: u8, id: ConnectionId, kind: String, peer: Option<PeerId> },
    Other { tag: u8, what: String },
    FromHandler { tag: u8, peer: PeerId, id: ConnectionId, ev: HOut },
    /// the behaviour handed a numbered notification to the Swarm (returned it from poll)
    Emitted { tag: u8, n: u64, peer: PeerId, one: Option<ConnectionId> },
}

/// What a handler saw.
#[derive(Debug, Clone)]
pub enum HEv {
    Created { tag: u8, id: ConnectionId, peer: PeerId },
    Command { tag: u8, id: ConnectionId, cmd: HCmd },
    Poll { tag: u8, id: ConnectionId, busy: bool, keep_alive: bool, at: Duration },
    KeepAliveQuery { tag: u8, id: ConnectionId, result: bool, at: Duration },
    PollClose { tag: u8, id: ConnectionId, at: Duration },
    LocalProtocols { tag: u8, id: ConnectionId, added: bool, protos: Vec<String> },
    /// the handler's advertised list actually changed (whatever path applied it)
    ProtocolsApplied { tag: u8, id: ConnectionId, list: Vec<String> },
    RemoteProtocols { tag: u8, id: ConnectionId, added: bool, protos: Vec<String> },
    ListenProtocol { tag: u8, id: ConnectionId, list: Vec<String> },
    InboundStream { tag: u8, id: ConnectionId, proto: String },
    OutboundStream { tag: u8, id: ConnectionId, proto: String, hold: Hold },
    OutboundFailed { tag: u8, id: ConnectionId, err: String },
    Dropped { tag: u8, id: ConnectionId },
    /// the handler handed a ReportRemoteProtocols event to the connection
    Reported { tag: u8, id: ConnectionId, add: bool, protos: Vec<String> },
    /// ConnectionEvent::AddressChange reached this handler
    AddressChange { tag: u8, id: ConnectionId, addr: Multiaddr },
}

#[derive(Default)]
pub struct NodeLog {
    pub beh: Vec<(u64, BEv)>,
    pub hand: Vec<(u64, HEv)>,
    /// virtual time of each `hand` entry (same index)
    pub hand_at: Vec<Duration>,
    /// detailed handler logging (polls, keep-alive queries) on/off
    pub detail: bool,
}

pub type Log = Arc<Mutex<NodeLog>>;

fn blog(log: &Log, e: BEv) {
    let s = next_seq();
    trace!("  beh {e:?}");
    log.lock().unwrap().beh.push((s, e));
}
fn hlog(log: &Log, e: HEv) {
    let s = next_seq();
    trace!("  hnd {e:?}");
    let mut l = log.lock().unwrap();
    l.hand.push((s, e));
    l.hand_at.push(elapsed());
}

/// Commands behaviour -> handler.
#[derive(Debug, Clone)]
pub enum HCmd {
    /// numbered notification (C07): (emission number, target description)
    Payload { n: u64, target: String },
    SetKeepAlive(bool),
    /// open an outbound stream for `proto`; what to do with it once negotiated
    OpenStream { proto: String, hold: Hold },
    DropStreams,
    SetProtocols(Vec<String>),
    /// the same change, but applied inside `ConnectionHandler::poll` (true) or on the next
    /// `on_connection_event` (false) instead of in `on_behaviour_event`
    SetProtocolsLater(Vec<String>, bool),
    ReportRemote { add: bool, protos: Vec<String> },
    /// emit `NotifyBehaviour(Echo)` so that routing back to the right field can be checked
    Echo(u64),
}

#[derive(Debug, Clone, Copy, PartialEq)]
pub enum Hold {
    Drop,
    Keep,
    KeepIgnored,
    /// close the write half (request/response style), then keep the stream to "wait for the answer"
    KeepHalfClosed,
}

/// Events handler -> behaviour.
#[derive(Debug, Clone)]
pub enum HOut {
    Echo { tag: u8, n: u64 },
    /// emitted from `poll_close` (the n-th of the handler's closing events)
    Closing { tag: u8, n: u32 },
}

#[derive(Debug)]
pub enum ProbeOut {
    Note(String),
}

#[derive(Debug)]
pub struct ProbeDenied {
    pub tag: u8,
    pub point: &'static str,
}
impl std::fmt::Display for ProbeDenied {
    fn fmt(&self, f: &mut std::fmt::Formatter<'_>) -> std::fmt::Result {
        write!(f, "probe {} denies at {}", self.tag, self.point)
    }
}
impl std::error::Error for ProbeDenied {}

#[derive(Default, Clone)]
pub struct ProbeCfg {
    /// per-mille denial rates: pending-in, pending-out, established-in, established-out
    pub deny: [u32; 4],
    /// addresses returned from handle_pending_outbound_connection per peer
    pub addrs: BTreeMap<PeerId, Vec<Multiaddr>>,
    /// initial handler settings
    pub keep_alive: bool,
    pub protocols: Vec<String>,
    /// what `poll_close` does, in order: true = emit a Closing event, false = return Pending once
    pub close_plan: Vec<bool>,
}

pub struct Probe {
    pub tag: u8,
    pub log: Log,
    pub cfg: Arc<Mutex<ProbeCfg>>,
    pub actions: VecDeque<ToSwarm<ProbeOut, HCmd>>,
    pub waker: Option<Waker>,
    pub listen: ListenAddresses,
    pub external: ExternalAddresses,
    pub peer_addrs: PeerAddresses,
    pub changed_log: Vec<(u64, &'static str, String, bool)>,
    /// address-related FromSwarm events with the `changed` answers of the three helpers
    /// (listen, external, peer) in that order
    pub addr_log: Vec<(AddrEv, [bool; 3])>,
}

#[derive(Debug, Clone)]
pub enum AddrEv {
    NewListenAddr(Multiaddr),
    ExpiredListenAddr(Multiaddr),
    ExtConfirmed(Multiaddr),
    ExtExpired(Multiaddr),
    ExtOfPeer(PeerId, Multiaddr),
    DialFailureTransport(PeerId, Vec<Multiaddr>),
    Irrelevant,
}

impl Probe {
    pub fn new(tag: u8, log: Log, cfg: ProbeCfg) -> Self {
        Probe {
            tag,
            log,
            cfg: Arc::new(Mutex::new(cfg)),
            actions: VecDeque::new(),
            waker: None,
            listen: Default::default(),
            external: Default::default(),
            peer_addrs: PeerAddresses::default(),
            changed_log: vec![],
            addr_log: vec![],
        }
    }
    pub fn push(&mut self, a: ToSwarm<ProbeOut, HCmd>) {
        self.actions.push_back(a);
        if let Some(w) = self.waker.take() {
            w.wake();
        }
    }
    fn deny(&self, point: usize) -> bool {
        let rate = self.cfg.lock().unwrap().deny[point];
        const NAMES: [&str; 4] = ["deny_pending_inbound", "deny_pending_outbound", "deny_established_inbound", "deny_established_outbound"];
        rate > 0 && fault(NAMES[point], rate)
    }
    fn handler(&self, id: ConnectionId, peer: PeerId) -> ProbeHandler {
        let c = self.cfg.lock().unwrap();
        hlog(&self.log, HEv::Created { tag: self.tag, id, peer });
        ProbeHandler {
            tag: self.tag,
            id,
            log: self.log.clone(),
            keep_alive: c.keep_alive,
            protocols: c.protocols.clone(),
            out: VecDeque::new(),
            held: vec![],
            closing: vec![],
            pending_outbound: 0,
            waker: None,
            deferred_in_poll: None,
            deferred_on_event: None,
            close_plan: c.close_plan.iter().copied().collect(),
            close_emitted: 0,
        }
    }
}

impl NetworkBehaviour for Probe {
    type ConnectionHandler = ProbeHandler;
    type ToSwarm = ProbeOut;

    fn handle_pending_inbound_connection(&mut self, id: ConnectionId, _local: &Multiaddr, _remote: &Multiaddr) -> Result<(), ConnectionDenied> {
        let denied = self.deny(0);
        blog(&self.log, BEv::PendingInbound { tag: self.tag, id, denied });
        if denied {
            return Err(ConnectionDenied::new(ProbeDenied { tag: self.tag, point: "pending_inbound" }));
        }
        Ok(())
    }

    fn handle_established_inbound_connection(&mut self, id: ConnectionId, peer: PeerId, _local: &Multiaddr, _remote: &Multiaddr) -> Result<ProbeHandler, ConnectionDenied> {
        let denied = self.deny(2);
        blog(&self.log, BEv::EstablishedInbound { tag: self.tag, id, peer, denied });
        if denied {
            return Err(ConnectionDenied::new(ProbeDenied { tag: self.tag, point: "established_inbound" }));
        }
        Ok(self.handler(id, peer))
    }

    fn handle_pending_outbound_connection(&mut self, id: ConnectionId, peer: Option<PeerId>, given: &[Multiaddr], _e: Endpoint) -> Result<Vec<Multiaddr>, ConnectionDenied> {
        let denied = self.deny(1);
        let returned = peer.and_then(|p| self.cfg.lock().unwrap().addrs.get(&p).cloned()).unwrap_or_default();
        blog(&self.log, BEv::PendingOutbound { tag: self.tag, id, peer, given: given.to_vec(), returned: returned.clone(), denied });
        if denied {
            return Err(ConnectionDenied::new(ProbeDenied { tag: self.tag, point: "pending_outbound" }));
        }
        Ok(returned)
    }

    fn handle_established_outbound_connection(&mut self, id: ConnectionId, peer: PeerId, addr: &Multiaddr, _e: Endpoint, _p: PortUse) -> Result<ProbeHandler, ConnectionDenied> {
        let denied = self.deny(3);
        blog(&self.log, BEv::EstablishedOutbound { tag: self.tag, id, peer, addr: addr.clone(), denied });
        if denied {
            return Err(ConnectionDenied::new(ProbeDenied { tag: self.tag, point: "established_outbound" }));
        }
        Ok(self.handler(id, peer))
    }

    fn on_swarm_event(&mut self, ev: FromSwarm) {
        let tag = self.tag;
        let seq = next_seq();
        let c1 = self.listen.on_swarm_event(&ev);
        let c2 = self.external.on_swarm_event(&ev);
        let c3 = self.peer_addrs.on_swarm_event(&ev);
        let e = match &ev {
            FromSwarm::ConnectionEstablished(c) => BEv::ConnectionEstablished { tag, id: c.connection_id, peer: c.peer_id, outbound: c.endpoint.is_dialer(), other_established: c.other_established, failed: c.failed_addresses.len() },
            FromSwarm::ConnectionClosed(c) => BEv::ConnectionClosed { tag, id: c.connection_id, peer: c.peer_id, remaining: c.remaining_established, cause: c.cause.map(|e| format!("{e}")) },
            FromSwarm::DialFailure(d) => BEv::DialFailure { tag, id: d.connection_id, peer: d.peer_id, kind: dial_err_kind(d.error) },
            FromSwarm::ListenFailure(l) => BEv::ListenFailure { tag, id: l.connection_id, kind: listen_err_kind(l.error), peer: l.peer_id },
            FromSwarm::NewListenAddr(a) => BEv::Other { tag, what: format!("NewListenAddr {:?} {}", a.listener_id, a.addr) },
            FromSwarm::ExpiredListenAddr(a) => BEv::Other { tag, what: format!("ExpiredListenAddr {:?} {}", a.listener_id, a.addr) },
            FromSwarm::ListenerClosed(a) => BEv::Other { tag, what: format!("ListenerClosed {:?} ok={}", a.listener_id, a.reason.is_ok()) },
            FromSwarm::ListenerError(a) => BEv::Other { tag, what: format!("ListenerError {:?}", a.listener_id) },
            FromSwarm::NewListener(a) => BEv::Other { tag, what: format!("NewListener {:?}", a.listener_id) },
            FromSwarm::NewExternalAddrCandidate(a) => BEv::Other { tag, what: format!("NewExternalAddrCandidate {}", a.addr) },
            FromSwarm::ExternalAddrConfirmed(a) => BEv::Other { tag, what: format!("ExternalAddrConfirmed {}", a.addr) },
            FromSwarm::ExternalAddrExpired(a) => BEv::Other { tag, what: format!("ExternalAddrExpired {}", a.addr) },
            FromSwarm::NewExternalAddrOfPeer(a) => BEv::Other { tag, what: format!("NewExternalAddrOfPeer {} {}", a.peer_id, a.addr) },
            FromSwarm::AddressChange(a) => BEv::Other { tag, what: format!("AddressChange {:?}", a.connection_id) },
            _ => BEv::Other { tag, what: "unknown".into() },
        };
        let ae = match &ev {
            FromSwarm::NewListenAddr(a) => AddrEv::NewListenAddr(a.addr.clone()),
            FromSwarm::ExpiredListenAddr(a) => AddrEv::ExpiredListenAddr(a.addr.clone()),
            FromSwarm::ExternalAddrConfirmed(a) => AddrEv::ExtConfirmed(a.addr.clone()),
            FromSwarm::ExternalAddrExpired(a) => AddrEv::ExtExpired(a.addr.clone()),
            FromSwarm::NewExternalAddrOfPeer(a) => AddrEv::ExtOfPeer(a.peer_id, a.addr.clone()),
            FromSwarm::DialFailure(d) => match (d.peer_id, d.error) {
                (Some(p), DialError::Transport(v)) => AddrEv::DialFailureTransport(p, v.iter().map(|(a, _)| a.clone()).collect()),
                _ => AddrEv::Irrelevant,
            },
            _ => AddrEv::Irrelevant,
        };
        self.addr_log.push((ae, [c1, c2, c3]));
        let what = format!("{e:?}");
        self.changed_log.push((seq, "listen", what.clone(), c1));
        self.changed_log.push((seq, "external", what.clone(), c2));
        self.changed_log.push((seq, "peer", what, c3));
        blog(&self.log, e);
    }

    fn on_connection_handler_event(&mut self, peer: PeerId, id: ConnectionId, ev: THandlerOutEvent<Self>) {
        blog(&self.log, BEv::FromHandler { tag: self.tag, peer, id, ev });
    }

    fn poll(&mut self, cx: &mut Context<'_>) -> Poll<ToSwarm<ProbeOut, THandlerInEvent<Self>>> {
        if let Some(a) = self.actions.pop_front() {
            if let ToSwarm::NotifyHandler { peer_id, handler, event: HCmd::Payload { n, .. } } = &a {
                let one = match handler {
                    libp2p_swarm::NotifyHandler::One(c) => Some(*c),
                    libp2p_swarm::NotifyHandler::Any => None,
                };
                blog(&self.log, BEv::Emitted { tag: self.tag, n: *n, peer: *peer_id, one });
            }
            return Poll::Ready(a);
        }
        self.waker = Some(cx.waker().clone());
        Poll::Pending
    }
}

// ---------------------------------------------------------------------------------------------

#[derive(Clone, Debug)]
pub struct ProbeUpgrade {
    pub names: Vec<String>,
}

impl UpgradeInfo for ProbeUpgrade {
    type Info = String;
    type InfoIter = std::vec::IntoIter<String>;
    fn protocol_info(&self) -> Self::InfoIter {
        self.names.clone().into_iter()
    }
}
impl InboundUpgrade<Stream> for ProbeUpgrade {
    type Output = (String, Stream);
    type Error = Infallible;
    type Future = future::Ready<Result<Self::Output, Infallible>>;
    fn upgrade_inbound(self, s: Stream, info: String) -> Self::Future {
        future::ready(Ok((info, s)))
    }
}
impl OutboundUpgrade<Stream> for ProbeUpgrade {
    type Output = (String, Stream);
    type Error = Infallible;
    type Future = future::Ready<Result<Self::Output, Infallible>>;
    fn upgrade_outbound(self, s: Stream, info: String) -> Self::Future {
        future::ready(Ok((info, s)))
    }
}

pub struct ProbeHandler {
    pub tag: u8,
    pub id: ConnectionId,
    pub log: Log,
    pub keep_alive: bool,
    pub protocols: Vec<String>,
    pub out: VecDeque<ConnectionHandlerEvent<ProbeUpgrade, Hold, HOut>>,
    /// streams kept alive by this handler: (stream, counts for keep-alive?)
    pub held: Vec<(Stream, bool)>,
    /// streams whose write half is being closed; they move to `held` (counting) once `poll_close` returned
    pub closing: Vec<Stream>,
    pub pending_outbound: usize,
    pub waker: Option<Waker>,
    pub deferred_in_poll: Option<Vec<String>>,
    pub deferred_on_event: Option<Vec<String>>,
    pub close_plan: VecDeque<bool>,
    pub close_emitted: u32,
}

impl ProbeHandler {
    fn busy(&self) -> bool {
        self.pending_outbound > 0 || !self.closing.is_empty() || self.held.iter().any(|(_, counts)| *counts)
    }
    fn detail(&self) -> bool {
        self.log.lock().unwrap().detail
    }
}

impl ConnectionHandler for ProbeHandler {
    type FromBehaviour = HCmd;
    type ToBehaviour = HOut;
    type InboundProtocol = ProbeUpgrade;
    type OutboundProtocol = ProbeUpgrade;
    type InboundOpenInfo = ();
    type OutboundOpenInfo = Hold;

    fn listen_protocol(&self) -> SubstreamProtocol<ProbeUpgrade, ()> {
        if self.detail() {
            hlog(&self.log, HEv::ListenProtocol { tag: self.tag, id: self.id, list: self.protocols.clone() });
        }
        SubstreamProtocol::new(ProbeUpgrade { names: self.protocols.clone() }, ())
    }

    fn connection_keep_alive(&self) -> bool {
        if self.detail() {
            hlog(&self.log, HEv::KeepAliveQuery { tag: self.tag, id: self.id, result: self.keep_alive, at: elapsed() });
        }
        self.keep_alive
    }

    fn poll(&mut self, cx: &mut Context<'_>) -> Poll<ConnectionHandlerEvent<ProbeUpgrade, Hold, HOut>> {
        if self.detail() {
            hlog(&self.log, HEv::Poll { tag: self.tag, id: self.id, busy: self.busy(), keep_alive: self.keep_alive, at: elapsed() });
        }
        if let Some(p) = self.deferred_in_poll.take() {
            hlog(&self.log, HEv::ProtocolsApplied { tag: self.tag, id: self.id, list: p.clone() });
            self.protocols = p;
        }
        let mut i = 0;
        while i < self.closing.len() {
            match std::pin::Pin::new(&mut self.closing[i]).poll_close(cx) {
                Poll::Ready(_) => {
                    let s = self.closing.remove(i);
                    self.held.push((s, true));
                }
                Poll::Pending => i += 1,
            }
        }
        if let Some(e) = self.out.pop_front() {
            if let ConnectionHandlerEvent::ReportRemoteProtocols(p) = &e {
                let (add, set) = match p {
                    ProtocolSupport::Added(s) => (true, s),
                    ProtocolSupport::Removed(s) => (false, s),
                };
                let mut protos: Vec<String> = set.iter().map(|x| x.to_string()).collect();
                protos.sort();
                hlog(&self.log, HEv::Reported { tag: self.tag, id: self.id, add, protos });
            }
            return Poll::Ready(e);
        }
        self.waker = Some(cx.waker().clone());
        Poll::Pending
    }

    fn poll_close(&mut self, cx: &mut Context<'_>) -> Poll<Option<HOut>> {
        hlog(&self.log, HEv::PollClose { tag: self.tag, id: self.id, at: elapsed() });
        match self.close_plan.pop_front() {
            Some(false) => {
                cx.waker().wake_by_ref();
                Poll::Pending
            }
            Some(true) => {
                self.close_emitted += 1;
                Poll::Ready(Some(HOut::Closing { tag: self.tag, n: self.close_emitted }))
            }
            None => Poll::Ready(None),
        }
    }

    fn on_behaviour_event(&mut self, cmd: HCmd) {
        hlog(&self.log, HEv::Command { tag: self.tag, id: self.id, cmd: cmd.clone() });
        match cmd {
            // an "echo" payload is also answered with a handler -> behaviour event (traffic in both directions)
            HCmd::Payload { n, target } if target == "echo" => self.out.push_back(ConnectionHandlerEvent::NotifyBehaviour(HOut::Echo { tag: self.tag, n })),
            HCmd::Payload { .. } => {}
            HCmd::SetKeepAlive(k) => self.keep_alive = k,
            HCmd::OpenStream { proto, hold } => {
                self.pending_outbound += 1;
                self.out.push_back(ConnectionHandlerEvent::OutboundSubstreamRequest {
                    protocol: SubstreamProtocol::new(ProbeUpgrade { names: vec![proto] }, hold).with_timeout(Duration::from_secs(10)),
                });
            }
            HCmd::DropStreams => {
                self.held.clear();
                self.closing.clear();
            }
            HCmd::SetProtocols(p) => {
                hlog(&self.log, HEv::ProtocolsApplied { tag: self.tag, id: self.id, list: p.clone() });
                self.protocols = p
            }
            HCmd::SetProtocolsLater(p, true) => self.deferred_in_poll = Some(p),
            HCmd::SetProtocolsLater(p, false) => self.deferred_on_event = Some(p),
            HCmd::ReportRemote { add, protos } => {
                let set: HashSet<StreamProtocol> = protos.into_iter().filter_map(|p| StreamProtocol::try_from_owned(p).ok()).collect();
                self.out.push_back(ConnectionHandlerEvent::ReportRemoteProtocols(if add { ProtocolSupport::Added(set) } else { ProtocolSupport::Removed(set) }));
            }
            HCmd::Echo(n) => self.out.push_back(ConnectionHandlerEvent::NotifyBehaviour(HOut::Echo { tag: self.tag, n })),
        }
        if let Some(w) = self.waker.take() {
            w.wake();
        }
    }

    fn on_connection_event(&mut self, event: ConnectionEvent<ProbeUpgrade, ProbeUpgrade, (), Hold>) {
        if let Some(p) = self.deferred_on_event.take() {
            hlog(&self.log, HEv::ProtocolsApplied { tag: self.tag, id: self.id, list: p.clone() });
            self.protocols = p;
        }
        match event {
            ConnectionEvent::FullyNegotiatedInbound(f) => {
                let (proto, stream) = f.protocol;
                hlog(&self.log, HEv::InboundStream { tag: self.tag, id: self.id, proto });
                // inbound streams are dropped right away unless the handler is told to hold them
                drop(stream);
            }
            ConnectionEvent::FullyNegotiatedOutbound(f) => {
                let (proto, mut stream) = f.protocol;
                self.pending_outbound = self.pending_outbound.saturating_sub(1);
                hlog(&self.log, HEv::OutboundStream { tag: self.tag, id: self.id, proto, hold: f.info });
                match f.info {
                    Hold::Drop => drop(stream),
                    Hold::Keep => self.held.push((stream, true)),
                    Hold::KeepHalfClosed => self.closing.push(stream),
                    Hold::KeepIgnored => {
                        stream.ignore_for_keep_alive();
                        self.held.push((stream, false));
                    }
                }
            }
            ConnectionEvent::AddressChange(c) => {
                hlog(&self.log, HEv::AddressChange { tag: self.tag, id: self.id, addr: c.new_address.clone() });
            }
            ConnectionEvent::DialUpgradeError(e) => {
                self.pending_outbound = self.pending_outbound.saturating_sub(1);
                hlog(&self.log, HEv::OutboundFailed { tag: self.tag, id: self.id, err: format!("{:?}", e.error) });
            }
            ConnectionEvent::LocalProtocolsChange(c) => {
                let (added, protos) = match c {
                    libp2p_swarm::handler::ProtocolsChange::Added(a) => (true, a.map(|p| p.to_string()).collect::<Vec<_>>()),
                    libp2p_swarm::handler::ProtocolsChange::Removed(r) => (false, r.map(|p| p.to_string()).collect::<Vec<_>>()),
                };
                hlog(&self.log, HEv::LocalProtocols { tag: self.tag, id: self.id, added, protos });
            }
            ConnectionEvent::RemoteProtocolsChange(c) => {
                let (added, protos) = match c {
                    libp2p_swarm::handler::ProtocolsChange::Added(a) => (true, a.map(|p| p.to_string()).collect::<Vec<_>>()),
                    libp2p_swarm::handler::ProtocolsChange::Removed(r) => (false, r.map(|p| p.to_string()).collect::<Vec<_>>()),
                };
                hlog(&self.log, HEv::RemoteProtocols { tag: self.tag, id: self.id, added, protos });
            }
            _ => {}
        }
    }
}

impl Drop for ProbeHandler {
    fn drop(&mut self) {
        if simkit::in_run() {
            hlog(&self.log, HEv::Dropped { tag: self.tag, id: self.id });
        }
    }
}
