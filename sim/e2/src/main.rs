#![allow(dead_code)]
//! E2 — network of real Swarms over a simulated transport, executor and clock.
simkit::interpose_getrandom!();

mod core;
mod core2;
mod core3;
mod core4;
mod full;
mod net;
mod node;
mod pnode;
mod probe;
mod relay;
mod kadin;
mod rr;
mod identify;
mod autonat;
mod rendezvous;
mod script;

fn main() {
    let mut checks = vec![];
    checks.extend(core::checks());
    checks.extend(core2::checks());
    checks.extend(core3::checks());
    checks.extend(core4::checks());
    checks.extend(relay::checks());
    checks.extend(kadin::checks());
    checks.extend(rr::checks());
    checks.extend(identify::checks());
    checks.extend(autonat::checks());
    checks.extend(rendezvous::checks());
    simkit::main_with(checks);
}
