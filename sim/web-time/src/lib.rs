//! Drop-in replacement for `web-time` 1.1.0 used only inside the /verif simulation workspace.
//!
//! `Instant` and `SystemTime` are thin wrappers around a `Duration` read from a thread-local
//! *virtual* clock which only the simulator advances (`sim::set_now`). `Duration` stays
//! `std::time::Duration`, so no public signature of the code under test changes.

use std::cell::Cell;
use std::fmt;
use std::ops::{Add, AddAssign, Sub, SubAssign};
pub use std::time::Duration;

/// Virtual time at which every simulation starts, as an offset from the zero of the
/// representation: far from zero so that `Instant - Duration` does not underflow.
pub const SIM_EPOCH: Duration = Duration::from_secs(1_000_000_000);

thread_local! {
    static NOW: Cell<Duration> = const { Cell::new(SIM_EPOCH) };
    static READS: Cell<u64> = const { Cell::new(0) };
}

/// Simulator-side control of the clock.
pub mod sim {
    use super::*;
    /// Current virtual time (since the zero of the representation).
    pub fn now() -> Duration {
        NOW.with(|n| n.get())
    }
    /// Virtual time elapsed since the start of the run.
    pub fn elapsed() -> Duration {
        now() - SIM_EPOCH
    }
    pub fn set_now(d: Duration) {
        NOW.with(|n| {
            assert!(d >= n.get(), "virtual clock must not go backwards");
            n.set(d)
        })
    }
    pub fn advance(d: Duration) {
        NOW.with(|n| n.set(n.get() + d))
    }
    pub fn reset() {
        NOW.with(|n| n.set(SIM_EPOCH));
        READS.with(|r| r.set(0));
    }
    /// Number of clock reads by code under test (reach measure).
    pub fn reads() -> u64 {
        READS.with(|r| r.get())
    }
}

fn read() -> Duration {
    READS.with(|r| r.set(r.get() + 1));
    NOW.with(|n| n.get())
}

#[derive(Clone, Copy, PartialEq, Eq, PartialOrd, Ord, Hash)]
pub struct Instant(Duration);

impl Instant {
    pub fn now() -> Self {
        Instant(read())
    }
    pub fn duration_since(&self, earlier: Instant) -> Duration {
        self.0.checked_sub(earlier.0).unwrap_or_default()
    }
    pub fn checked_duration_since(&self, earlier: Instant) -> Option<Duration> {
        self.0.checked_sub(earlier.0)
    }
    pub fn saturating_duration_since(&self, earlier: Instant) -> Duration {
        self.0.checked_sub(earlier.0).unwrap_or_default()
    }
    pub fn elapsed(&self) -> Duration {
        Instant::now().duration_since(*self)
    }
    pub fn checked_add(&self, d: Duration) -> Option<Instant> {
        self.0.checked_add(d).map(Instant)
    }
    pub fn checked_sub(&self, d: Duration) -> Option<Instant> {
        self.0.checked_sub(d).map(Instant)
    }
    /// Simulator-only: offset since the run started.
    pub fn sim_offset(&self) -> Duration {
        self.0.checked_sub(SIM_EPOCH).unwrap_or_default()
    }
}

impl fmt::Debug for Instant {
    fn fmt(&self, f: &mut fmt::Formatter<'_>) -> fmt::Result {
        write!(f, "Instant(+{:?})", self.0.checked_sub(SIM_EPOCH).unwrap_or_default())
    }
}

impl Add<Duration> for Instant {
    type Output = Instant;
    fn add(self, rhs: Duration) -> Instant {
        self.checked_add(rhs).expect("overflow when adding duration to instant")
    }
}
impl AddAssign<Duration> for Instant {
    fn add_assign(&mut self, rhs: Duration) {
        *self = *self + rhs
    }
}
impl Sub<Duration> for Instant {
    type Output = Instant;
    fn sub(self, rhs: Duration) -> Instant {
        self.checked_sub(rhs).expect("overflow when subtracting duration from instant")
    }
}
impl SubAssign<Duration> for Instant {
    fn sub_assign(&mut self, rhs: Duration) {
        *self = *self - rhs
    }
}
impl Sub<Instant> for Instant {
    type Output = Duration;
    fn sub(self, rhs: Instant) -> Duration {
        self.duration_since(rhs)
    }
}

#[derive(Clone, Copy, PartialEq, Eq, PartialOrd, Ord, Hash)]
pub struct SystemTime(Duration);

/// The wall clock of the simulation: UNIX_EPOCH is the zero of the representation, so the
/// simulated date is 2001-09-09 plus elapsed virtual time.
pub const UNIX_EPOCH: SystemTime = SystemTime(Duration::ZERO);

#[derive(Clone, Debug)]
pub struct SystemTimeError(Duration);

impl SystemTimeError {
    pub fn duration(&self) -> Duration {
        self.0
    }
}
impl fmt::Display for SystemTimeError {
    fn fmt(&self, f: &mut fmt::Formatter<'_>) -> fmt::Result {
        write!(f, "second time provided was later than self")
    }
}
impl std::error::Error for SystemTimeError {}

impl SystemTime {
    pub const UNIX_EPOCH: SystemTime = UNIX_EPOCH;
    pub fn now() -> Self {
        SystemTime(read())
    }
    pub fn duration_since(&self, earlier: SystemTime) -> Result<Duration, SystemTimeError> {
        self.0
            .checked_sub(earlier.0)
            .ok_or_else(|| SystemTimeError(earlier.0 - self.0))
    }
    pub fn elapsed(&self) -> Result<Duration, SystemTimeError> {
        SystemTime::now().duration_since(*self)
    }
    pub fn checked_add(&self, d: Duration) -> Option<SystemTime> {
        self.0.checked_add(d).map(SystemTime)
    }
    pub fn checked_sub(&self, d: Duration) -> Option<SystemTime> {
        self.0.checked_sub(d).map(SystemTime)
    }
}
impl fmt::Debug for SystemTime {
    fn fmt(&self, f: &mut fmt::Formatter<'_>) -> fmt::Result {
        write!(f, "SystemTime({:?})", self.0)
    }
}
impl Add<Duration> for SystemTime {
    type Output = SystemTime;
    fn add(self, rhs: Duration) -> SystemTime {
        self.checked_add(rhs).expect("overflow when adding duration to time")
    }
}
impl AddAssign<Duration> for SystemTime {
    fn add_assign(&mut self, rhs: Duration) {
        *self = *self + rhs
    }
}
impl Sub<Duration> for SystemTime {
    type Output = SystemTime;
    fn sub(self, rhs: Duration) -> SystemTime {
        self.checked_sub(rhs).expect("overflow when subtracting duration from time")
    }
}
impl SubAssign<Duration> for SystemTime {
    fn sub_assign(&mut self, rhs: Duration) {
        *self = *self - rhs
    }
}
