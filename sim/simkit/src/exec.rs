//! Deterministic single-threaded scheduler: units (futures), a ready list fed by wakers, a
//! discrete-event queue merged with the virtual timer wheel. Which ready unit runs next is a
//! recorded choice.

use crate::ctx::{choose, probe};
use std::cell::RefCell;
use std::collections::{BTreeMap, BTreeSet};
use std::future::Future;
use std::pin::Pin;
use std::sync::atomic::{AtomicBool, Ordering};
use std::sync::{Arc, Mutex};
use std::task::{Context, Poll, Wake, Waker};
use std::time::Duration;

pub type UnitId = usize;

struct UnitWake {
    id: UnitId,
    queued: AtomicBool,
    ready: Arc<Mutex<Vec<UnitId>>>,
}

impl Wake for UnitWake {
    fn wake(self: Arc<Self>) {
        self.wake_by_ref()
    }
    fn wake_by_ref(self: &Arc<Self>) {
        if !self.queued.swap(true, Ordering::SeqCst) {
            self.ready.lock().unwrap().push(self.id);
        }
    }
}

struct Unit {
    name: String,
    fut: Option<Pin<Box<dyn Future<Output = ()>>>>,
    wake: Arc<UnitWake>,
    done: bool,
    polls: u64,
    prio: u32,
}

#[derive(Clone, Copy, Debug, PartialEq, Eq)]
pub enum Policy {
    Uniform,
    /// Highest drawn priority first most of the time (PCT-like), priorities reshuffled now and then.
    Priority,
    /// Keep running the same unit while it stays ready (models a greedy executor).
    Sticky,
}

struct Sched {
    units: Vec<Unit>,
    ready: Arc<Mutex<Vec<UnitId>>>,
    events: BTreeMap<(Duration, u64), Box<dyn FnOnce()>>,
    evseq: u64,
    steps: u64,
    max_steps: u64,
    policy: Policy,
    last: Option<UnitId>,
    starved: BTreeSet<UnitId>,
    /// never scheduled while in this set (a stalled task: descheduled thread, blocked executor)
    frozen: BTreeSet<UnitId>,
}

thread_local! {
    static SCHED: RefCell<Sched> = RefCell::new(Sched::new());
}

/// Marker payload: a run hit its step cap (reported as inconclusive, never pass/violation).
pub struct Capped;

impl Sched {
    fn new() -> Self {
        Sched {
            units: Vec::new(),
            ready: Arc::new(Mutex::new(Vec::new())),
            events: BTreeMap::new(),
            evseq: 0,
            steps: 0,
            max_steps: 400_000,
            policy: Policy::Uniform,
            last: None,
            starved: BTreeSet::new(),
            frozen: BTreeSet::new(),
        }
    }
}

pub fn reset() {
    // Drop old units outside the borrow (their destructors may call into the scheduler).
    let old = SCHED.with(|s| std::mem::replace(&mut *s.borrow_mut(), Sched::new()));
    drop(old);
}

/// Drop every unit and pending event (end of run), outside of any scheduler borrow.
pub fn teardown() {
    reset();
}

pub fn set_policy(p: Policy) {
    SCHED.with(|s| s.borrow_mut().policy = p);
}

/// Draw the scheduling policy of this run.
pub fn draw_policy() -> Policy {
    let p = match choose(4) {
        0 | 1 => Policy::Uniform,
        2 => Policy::Priority,
        _ => Policy::Sticky,
    };
    set_policy(p);
    p
}

pub fn set_max_steps(n: u64) {
    SCHED.with(|s| s.borrow_mut().max_steps = n);
}

pub fn steps() -> u64 {
    SCHED.with(|s| s.borrow().steps)
}

/// Spawn a unit; it is runnable immediately.
pub fn spawn(name: impl Into<String>, fut: impl Future<Output = ()> + 'static) -> UnitId {
    spawn_boxed(name.into(), Box::pin(fut))
}

pub fn spawn_boxed(name: String, fut: Pin<Box<dyn Future<Output = ()>>>) -> UnitId {
    let prio = choose(1 << 16) as u32;
    SCHED.with(|s| {
        let mut s = s.borrow_mut();
        let id = s.units.len();
        let wake = Arc::new(UnitWake { id, queued: AtomicBool::new(true), ready: s.ready.clone() });
        s.ready.lock().unwrap().push(id);
        s.units.push(Unit { name, fut: Some(fut), wake, done: false, polls: 0, prio });
        id
    })
}

pub fn is_done(id: UnitId) -> bool {
    SCHED.with(|s| s.borrow().units[id].done)
}

pub fn unit_name(id: UnitId) -> String {
    SCHED.with(|s| s.borrow().units[id].name.clone())
}

pub fn unit_polls(id: UnitId) -> u64 {
    SCHED.with(|s| s.borrow().units[id].polls)
}

/// Crash a unit: its future is dropped at this very point.
pub fn kill(id: UnitId) {
    let f = SCHED.with(|s| {
        let mut s = s.borrow_mut();
        s.units[id].done = true;
        s.units[id].fut.take()
    });
    drop(f);
}

/// Make a unit runnable without cause (poll functions must tolerate spurious polls).
pub fn spurious_wake(id: UnitId) {
    let w = SCHED.with(|s| {
        let s = s.borrow();
        if s.units[id].done {
            None
        } else {
            Some(s.units[id].wake.clone())
        }
    });
    if let Some(w) = w {
        w.wake_by_ref()
    }
}

/// A waker for an externally driven object (same effect as a unit wake).
pub fn waker_of(id: UnitId) -> Waker {
    SCHED.with(|s| Waker::from(s.borrow().units[id].wake.clone()))
}

/// While starved, a unit is only chosen when nothing else is ready — and then only with
/// probability 1/8 per step (back-pressure generator).
pub fn starve(id: UnitId, on: bool) {
    SCHED.with(|s| {
        let mut s = s.borrow_mut();
        if on {
            s.starved.insert(id);
        } else {
            s.starved.remove(&id);
        }
    });
}

/// While frozen, a unit is not scheduled at all (its wake-ups are kept): a task whose executor thread is descheduled.
/// Unfreeze it before the run ends, or the run reports the unit as stuck.
pub fn freeze(id: UnitId, on: bool) {
    SCHED.with(|s| {
        let mut s = s.borrow_mut();
        if on {
            s.frozen.insert(id);
        } else {
            s.frozen.remove(&id);
        }
    });
}

pub fn ready_count() -> usize {
    SCHED.with(|s| s.borrow().ready.lock().unwrap().len())
}

pub fn unit_count() -> usize {
    SCHED.with(|s| s.borrow().units.len())
}

/// Poll one ready unit chosen by the schedule. Returns false if nothing was runnable.
pub fn step() -> bool {
    // 1. choose
    let (n_ready, policy, last) = SCHED.with(|s| {
        let s = s.borrow();
        let n = s.ready.lock().unwrap().len();
        (n, s.policy, s.last)
    });
    if n_ready == 0 {
        return false;
    }
    let idx = {
        // candidates excluding starved
        let (cands, all): (Vec<usize>, Vec<usize>) = SCHED.with(|s| {
            let s = s.borrow();
            let r = s.ready.lock().unwrap();
            let unfrozen: Vec<usize> = (0..r.len()).filter(|i| !s.frozen.contains(&r[*i])).collect();
            let c: Vec<usize> = unfrozen.iter().copied().filter(|i| !s.starved.contains(&r[*i])).collect();
            (c, unfrozen)
        });
        if all.is_empty() {
            return false; // only frozen units are ready
        }
        if cands.is_empty() {
            // only starved units are ready: usually refuse to run them
            if choose(8) != 7 {
                return false;
            }
            all[choose(all.len())]
        } else {
            match policy {
                Policy::Uniform => cands[choose(cands.len())],
                Policy::Sticky => {
                    let pos = SCHED.with(|s| {
                        let s = s.borrow();
                        let r = s.ready.lock().unwrap();
                        cands.iter().copied().find(|i| Some(r[*i]) == last)
                    });
                    match pos {
                        Some(p) if choose(8) != 7 => p,
                        _ => cands[choose(cands.len())],
                    }
                }
                Policy::Priority => {
                    if choose(8) == 7 {
                        cands[choose(cands.len())]
                    } else {
                        SCHED.with(|s| {
                            let s = s.borrow();
                            let r = s.ready.lock().unwrap();
                            *cands.iter().max_by_key(|i| (s.units[r[**i]].prio, **i)).unwrap()
                        })
                    }
                }
            }
        }
    };
    // 2. take the future out so that the poll may re-enter the scheduler (spawn, wake)
    let (id, mut fut, waker) = SCHED.with(|s| {
        let mut s = s.borrow_mut();
        let id = {
            let mut r = s.ready.lock().unwrap();
            r.remove(idx)
        };
        s.steps += 1;
        if s.steps > s.max_steps {
            return (id, None, None);
        }
        s.last = Some(id);
        if policy == Policy::Priority && s.steps % 97 == 0 {
            // priority change point: demote the unit about to run
            s.units[id].prio = 0;
        }
        let u = &mut s.units[id];
        u.wake.queued.store(false, Ordering::SeqCst);
        u.polls += 1;
        (id, u.fut.take(), Some(Waker::from(u.wake.clone())))
    });
    let Some(waker) = waker else {
        std::panic::panic_any(Capped);
    };
    let Some(f) = fut.as_mut() else {
        return true; // killed / finished unit that was still queued
    };
    let mut cx = Context::from_waker(&waker);
    let res = f.as_mut().poll(&mut cx);
    match res {
        Poll::Ready(()) => {
            SCHED.with(|s| s.borrow_mut().units[id].done = true);
            drop(fut);
        }
        Poll::Pending => {
            let killed = SCHED.with(|s| {
                let mut s = s.borrow_mut();
                if s.units[id].done {
                    true
                } else {
                    s.units[id].fut = fut.take();
                    false
                }
            });
            if killed {
                drop(fut);
            }
        }
    }
    true
}

/// Run until nothing is runnable, without advancing time.
pub fn run_until_idle() {
    let mut refused = 0;
    loop {
        if step() {
            refused = 0;
            continue;
        }
        if ready_count() == 0 {
            break;
        }
        // only starved units ready and the coin refused: try a bounded number of times
        refused += 1;
        if refused > 64 {
            break;
        }
    }
}

/// Run at most `n` steps.
pub fn run_steps(n: usize) {
    for _ in 0..n {
        if !step() {
            break;
        }
    }
}

/// Schedule a simulator event at `now + delay`.
pub fn schedule(delay: Duration, f: impl FnOnce() + 'static) {
    let at = web_time::sim::now() + delay;
    SCHED.with(|s| {
        let mut s = s.borrow_mut();
        s.evseq += 1;
        let k = (at, s.evseq);
        s.events.insert(k, Box::new(f));
    });
}

fn next_event_time() -> Option<Duration> {
    let e = SCHED.with(|s| s.borrow().events.keys().next().map(|k| k.0));
    let t = futures_timer::sim::next_deadline();
    match (e, t) {
        (Some(a), Some(b)) => Some(a.min(b)),
        (a, b) => a.or(b),
    }
}

fn fire_due() {
    let now = web_time::sim::now();
    loop {
        let ev = SCHED.with(|s| {
            let mut s = s.borrow_mut();
            let k = s.events.keys().next().copied();
            match k {
                Some(k) if k.0 <= now => s.events.remove(&k),
                _ => None,
            }
        });
        match ev {
            Some(f) => f(),
            None => break,
        }
    }
    futures_timer::sim::fire_due();
}

/// Jump the clock to the next timer/event (if any, and not beyond `limit` from now), fire it.
/// Returns false if there was nothing to jump to.
pub fn jump_to_next(limit: Duration) -> bool {
    let now = web_time::sim::now();
    match next_event_time() {
        Some(t) if t <= now + limit => {
            if t > now {
                web_time::sim::set_now(t);
                probe("clock_jump");
            }
            fire_due();
            true
        }
        _ => false,
    }
}

/// Advance virtual time by `d`, running everything that becomes runnable on the way.
pub fn advance(d: Duration) {
    let target = web_time::sim::now() + d;
    loop {
        run_until_idle();
        let now = web_time::sim::now();
        match next_event_time() {
            Some(t) if t <= target => {
                if t > now {
                    web_time::sim::set_now(t);
                }
                fire_due();
            }
            _ => break,
        }
    }
    if target > web_time::sim::now() {
        web_time::sim::set_now(target);
    }
    fire_due();
    run_until_idle();
}

/// Run until quiescent: nothing runnable and no timer/event within `horizon`.
pub fn settle(horizon: Duration) {
    let end = web_time::sim::now() + horizon;
    loop {
        run_until_idle();
        let now = web_time::sim::now();
        if now >= end {
            break;
        }
        if !jump_to_next(end - now) {
            break;
        }
    }
}

/// A `Send` handle implementing "spawn onto the simulator" for executor seams.
#[derive(Clone, Copy, Default)]
pub struct SimSpawner;

impl SimSpawner {
    pub fn spawn_send(&self, name: &str, fut: Pin<Box<dyn Future<Output = ()> + Send>>) -> UnitId {
        spawn_boxed(name.to_string(), fut)
    }
}

/// Poll a future once with a no-op waker (for driver-side helpers).
pub fn poll_once<F: Future + Unpin>(f: &mut F) -> Poll<F::Output> {
    let w = futures::task::noop_waker();
    let mut cx = Context::from_waker(&w);
    Pin::new(f).poll(&mut cx)
}
