//! In-memory duplex byte pipe with schedule-controlled chunking, readiness and faults.
//! This replaces the OS socket under every byte-stream consumer (multistream-select, noise,
//! plaintext, pnet, mplex, yamux, codecs, ...).

use crate::ctx::{choose, fault, probe};
use futures::io::{AsyncRead, AsyncWrite};
use std::collections::VecDeque;
use std::io;
use std::pin::Pin;
use std::sync::{Arc, Mutex};
use std::task::{Context, Poll, Waker};

#[derive(Clone, Copy, Debug, PartialEq, Eq)]
pub enum Chunking {
    /// As much as fits.
    Full,
    /// One byte per call.
    Byte,
    /// Drawn per call.
    Random,
}

#[derive(Clone, Debug)]
pub struct PipeCfg {
    pub capacity: usize,
    pub read_chunking: Chunking,
    pub write_chunking: Chunking,
    /// per-mille rate of a spurious `Pending` (with immediate self-wake) on read/write/flush/close
    pub pending_permille: u32,
    /// Return `ErrorKind::Interrupted` from write now and then (only for code documenting EINTR handling).
    pub eintr_permille: u32,
    /// Buffered-writer semantics: written bytes are staged at this end and reach the peer only when `poll_flush` (or
    /// `poll_close`) runs, like a `BufWriter`, a TLS/noise stream or a muxer substream. Bytes never flushed are lost when
    /// the end is dropped. Off by default; scenarios opt in per run.
    pub staged: bool,
}

impl Default for PipeCfg {
    fn default() -> Self {
        PipeCfg {
            capacity: 1 << 20,
            read_chunking: Chunking::Full,
            write_chunking: Chunking::Full,
            pending_permille: 0,
            eintr_permille: 0,
            staged: false,
        }
    }
}

impl PipeCfg {
    /// Draw a configuration (chunking modes are schedule, not fault: drawn in every profile).
    /// Like `draw`, but with room for at least `min` bytes in flight (for protocols that write a
    /// whole flight before reading, which deadlocks on any transport with smaller buffers).
    pub fn draw_min_cap(min: usize) -> Self {
        let mut c = Self::draw();
        if c.capacity < min {
            c.capacity = min + choose(3) * min;
        }
        c
    }

    pub fn with_staged(mut self, on: bool) -> Self {
        self.staged = on;
        self
    }

    pub fn draw() -> Self {
        let ch = |v| match v {
            0 => Chunking::Full,
            1 => Chunking::Byte,
            _ => Chunking::Random,
        };
        PipeCfg {
            capacity: match choose(4) {
                0 => 1 << 20,
                1 => 1,
                2 => 1 + choose(64),
                _ => 1 + choose(4096),
            },
            read_chunking: ch(choose(4)),
            write_chunking: ch(choose(4)),
            pending_permille: [0, 0, 30, 150][choose(4)],
            eintr_permille: 0,
            staged: false,
        }
    }
}

#[derive(Default)]
pub struct Dir {
    buf: VecDeque<u8>,
    /// writer closed (EOF once drained)
    closed: bool,
    /// connection reset: reads and writes fail
    reset: bool,
    /// reader went away: writes fail
    reader_gone: bool,
    read_waker: Option<Waker>,
    write_waker: Option<Waker>,
    pub written: u64,
    pub read: u64,
    /// copy of everything written (when tapping is on)
    tap: Option<Vec<u8>>,
    /// switchable at run time: rate of `Interrupted` errors returned to the writer
    eintr_permille: u32,
}

impl Dir {
    fn wake_reader(&mut self) {
        if let Some(w) = self.read_waker.take() {
            w.wake()
        }
    }
    fn wake_writer(&mut self) {
        if let Some(w) = self.write_waker.take() {
            w.wake()
        }
    }
}

pub type DirRef = Arc<Mutex<Dir>>;

/// One end of a duplex pipe, implementing `futures::io::{AsyncRead, AsyncWrite}`.
pub struct End {
    pub name: &'static str,
    rx: DirRef,
    tx: DirRef,
    cfg: PipeCfg,
    /// bytes written but not yet flushed (staged mode)
    stage: Vec<u8>,
}

/// Create a connected pair.
pub fn pair(cfg: PipeCfg) -> (End, End) {
    pair_cfg(cfg.clone(), cfg)
}

pub fn pair_cfg(a: PipeCfg, b: PipeCfg) -> (End, End) {
    let ab: DirRef = Default::default();
    let ba: DirRef = Default::default();
    (
        End { name: "A", rx: ba.clone(), tx: ab.clone(), cfg: a, stage: Vec::new() },
        End { name: "B", rx: ab, tx: ba, cfg: b, stage: Vec::new() },
    )
}

impl End {
    /// Control handle usable after the end has been moved into the code under test.
    pub fn ctl(&self) -> Ctl {
        Ctl { rx: self.rx.clone(), tx: self.tx.clone() }
    }
}

fn chunk(mode: Chunking, max: usize) -> usize {
    debug_assert!(max >= 1);
    match mode {
        Chunking::Full => max,
        Chunking::Byte => 1,
        Chunking::Random => {
            if choose(3) == 0 {
                max
            } else {
                1 + choose(max)
            }
        }
    }
}

impl AsyncRead for End {
    fn poll_read(self: Pin<&mut Self>, cx: &mut Context<'_>, buf: &mut [u8]) -> Poll<io::Result<usize>> {
        let this = self.get_mut();
        if buf.is_empty() {
            return Poll::Ready(Ok(0));
        }
        if this.cfg.pending_permille > 0 && fault("pipe_pending_read", this.cfg.pending_permille) {
            cx.waker().wake_by_ref();
            return Poll::Pending;
        }
        let mut d = this.rx.lock().unwrap();
        if d.reset {
            return Poll::Ready(Err(io::ErrorKind::ConnectionReset.into()));
        }
        if d.buf.is_empty() {
            if d.closed {
                return Poll::Ready(Ok(0));
            }
            d.read_waker = Some(cx.waker().clone());
            return Poll::Pending;
        }
        let max = d.buf.len().min(buf.len());
        let n = chunk(this.cfg.read_chunking, max);
        if n < max {
            probe("pipe_short_read");
        }
        for b in buf.iter_mut().take(n) {
            *b = d.buf.pop_front().unwrap();
        }
        d.read += n as u64;
        d.wake_writer();
        Poll::Ready(Ok(n))
    }
}

impl AsyncWrite for End {
    fn poll_write(self: Pin<&mut Self>, cx: &mut Context<'_>, buf: &[u8]) -> Poll<io::Result<usize>> {
        let this = self.get_mut();
        if buf.is_empty() {
            return Poll::Ready(Ok(0));
        }
        if this.cfg.eintr_permille > 0 && fault("pipe_eintr_write", this.cfg.eintr_permille) {
            return Poll::Ready(Err(io::ErrorKind::Interrupted.into()));
        }
        if this.cfg.pending_permille > 0 && fault("pipe_pending_write", this.cfg.pending_permille) {
            cx.waker().wake_by_ref();
            return Poll::Pending;
        }
        let mut d = this.tx.lock().unwrap();
        if d.eintr_permille > 0 && fault("pipe_eintr_write", d.eintr_permille) {
            return Poll::Ready(Err(io::ErrorKind::Interrupted.into()));
        }
        if d.reset {
            return Poll::Ready(Err(io::ErrorKind::ConnectionReset.into()));
        }
        if d.reader_gone {
            return Poll::Ready(Err(io::ErrorKind::BrokenPipe.into()));
        }
        if d.closed {
            return Poll::Ready(Err(io::ErrorKind::WriteZero.into()));
        }
        if this.cfg.staged {
            // staging area of the same size as the pipe; full => the writer has to flush first
            let room = this.cfg.capacity.max(1).saturating_sub(this.stage.len());
            if room == 0 {
                drop(d);
                return match this.push_stage(cx) {
                    Poll::Ready(Ok(())) | Poll::Pending => {
                        cx.waker().wake_by_ref();
                        Poll::Pending
                    }
                    Poll::Ready(Err(e)) => Poll::Ready(Err(e)),
                };
            }
            let max = room.min(buf.len());
            let n = chunk(this.cfg.write_chunking, max);
            if n < buf.len() {
                probe("pipe_short_write");
            }
            this.stage.extend_from_slice(&buf[..n]);
            probe("pipe_staged_write");
            return Poll::Ready(Ok(n));
        }
        let room = this.cfg.capacity.saturating_sub(d.buf.len());
        if room == 0 {
            probe("pipe_backpressure");
            d.write_waker = Some(cx.waker().clone());
            return Poll::Pending;
        }
        let max = room.min(buf.len());
        let n = chunk(this.cfg.write_chunking, max);
        if n < buf.len() {
            probe("pipe_short_write");
        }
        d.buf.extend(&buf[..n]);
        if let Some(t) = d.tap.as_mut() {
            t.extend_from_slice(&buf[..n]);
        }
        d.written += n as u64;
        d.wake_reader();
        Poll::Ready(Ok(n))
    }

    fn poll_flush(self: Pin<&mut Self>, cx: &mut Context<'_>) -> Poll<io::Result<()>> {
        let this = self.get_mut();
        if this.cfg.pending_permille > 0 && fault("pipe_pending_flush", this.cfg.pending_permille) {
            cx.waker().wake_by_ref();
            return Poll::Pending;
        }
        if this.cfg.staged {
            return this.push_stage(cx);
        }
        let d = this.tx.lock().unwrap();
        if d.reset {
            return Poll::Ready(Err(io::ErrorKind::ConnectionReset.into()));
        }
        Poll::Ready(Ok(()))
    }

    fn poll_close(self: Pin<&mut Self>, cx: &mut Context<'_>) -> Poll<io::Result<()>> {
        let this = self.get_mut();
        if this.cfg.pending_permille > 0 && fault("pipe_pending_close", this.cfg.pending_permille) {
            cx.waker().wake_by_ref();
            return Poll::Pending;
        }
        if this.cfg.staged && !this.stage.is_empty() {
            match this.push_stage(cx) {
                Poll::Ready(Ok(())) => {}
                other => return other,
            }
        }
        let mut d = this.tx.lock().unwrap();
        d.closed = true;
        d.wake_reader();
        Poll::Ready(Ok(()))
    }
}

impl End {
    /// Move staged bytes into the pipe as far as there is room (staged mode).
    fn push_stage(&mut self, cx: &mut Context<'_>) -> Poll<io::Result<()>> {
        let mut d = self.tx.lock().unwrap();
        if d.reset {
            return Poll::Ready(Err(io::ErrorKind::ConnectionReset.into()));
        }
        if self.stage.is_empty() {
            return Poll::Ready(Ok(()));
        }
        if d.reader_gone {
            return Poll::Ready(Err(io::ErrorKind::BrokenPipe.into()));
        }
        let room = self.cfg.capacity.saturating_sub(d.buf.len());
        let n = room.min(self.stage.len());
        if n > 0 {
            let moved: Vec<u8> = self.stage.drain(..n).collect();
            d.buf.extend(&moved);
            if let Some(t) = d.tap.as_mut() {
                t.extend_from_slice(&moved);
            }
            d.written += n as u64;
            d.wake_reader();
        }
        if self.stage.is_empty() {
            Poll::Ready(Ok(()))
        } else {
            probe("pipe_backpressure");
            d.write_waker = Some(cx.waker().clone());
            Poll::Pending
        }
    }
}

impl Drop for End {
    fn drop(&mut self) {
        if let Ok(mut d) = self.tx.lock() {
            d.closed = true;
            d.wake_reader();
        }
        if let Ok(mut d) = self.rx.lock() {
            d.reader_gone = true;
            d.wake_writer();
        }
    }
}

/// Simulator-side view of one end: inspect, inject, fail.
#[derive(Clone)]
pub struct Ctl {
    rx: DirRef,
    tx: DirRef,
}

impl Ctl {
    /// Reset the connection in both directions (both ends see ConnectionReset).
    pub fn reset(&self) {
        for d in [&self.rx, &self.tx] {
            let mut d = d.lock().unwrap();
            d.reset = true;
            d.wake_reader();
            d.wake_writer();
        }
    }
    /// Bytes this end has written so far / the peer has consumed so far.
    pub fn tx_written(&self) -> u64 {
        self.tx.lock().unwrap().written
    }
    pub fn tx_consumed(&self) -> u64 {
        self.tx.lock().unwrap().read
    }
    pub fn rx_written(&self) -> u64 {
        self.rx.lock().unwrap().written
    }
    pub fn rx_consumed(&self) -> u64 {
        self.rx.lock().unwrap().read
    }
    pub fn tx_buffered(&self) -> usize {
        self.tx.lock().unwrap().buf.len()
    }
    pub fn rx_buffered(&self) -> usize {
        self.rx.lock().unwrap().buf.len()
    }
    pub fn tx_closed(&self) -> bool {
        self.tx.lock().unwrap().closed
    }
    pub fn rx_closed(&self) -> bool {
        self.rx.lock().unwrap().closed
    }
    /// From now on this end's writes fail with `Interrupted` at the given rate (light/heavy profiles).
    pub fn set_eintr(&self, permille: u32) {
        self.tx.lock().unwrap().eintr_permille = permille;
    }
    /// Insert bytes into this end's receive direction as if the peer had written them.
    pub fn inject_rx(&self, bytes: &[u8]) {
        let mut d = self.rx.lock().unwrap();
        d.buf.extend(bytes);
        d.written += bytes.len() as u64;
        d.wake_reader();
    }
    /// Start recording everything this end writes.
    pub fn tap_tx(&self) {
        self.tx.lock().unwrap().tap = Some(Vec::new());
    }
    pub fn take_tap_tx(&self) -> Vec<u8> {
        let mut d = self.tx.lock().unwrap();
        d.tap.as_mut().map(std::mem::take).unwrap_or_default()
    }
    pub fn tap_rx(&self) {
        self.rx.lock().unwrap().tap = Some(Vec::new());
    }
    pub fn take_tap_rx(&self) -> Vec<u8> {
        let mut d = self.rx.lock().unwrap();
        d.tap.as_mut().map(std::mem::take).unwrap_or_default()
    }
}

/// A raw end driven synchronously by a scripted peer or an on-path adversary.
pub struct Raw {
    rx: DirRef,
    tx: DirRef,
}

/// A pipe whose second end is driven by simulator code rather than a future.
pub fn pair_raw(cfg: PipeCfg) -> (End, Raw) {
    let (a, b) = pair(cfg);
    let raw = Raw { rx: b.rx.clone(), tx: b.tx.clone() };
    std::mem::forget(b); // the Raw handle now owns end B (no drop-close)
    (a, raw)
}

impl Raw {
    pub fn send(&self, bytes: &[u8]) {
        let mut d = self.tx.lock().unwrap();
        d.buf.extend(bytes);
        d.written += bytes.len() as u64;
        d.wake_reader();
    }
    /// Everything the other end has written and we have not yet taken.
    pub fn recv_all(&self) -> Vec<u8> {
        let mut d = self.rx.lock().unwrap();
        let v: Vec<u8> = d.buf.drain(..).collect();
        d.read += v.len() as u64;
        d.wake_writer();
        v
    }
    pub fn recv_upto(&self, n: usize) -> Vec<u8> {
        let mut d = self.rx.lock().unwrap();
        let k = n.min(d.buf.len());
        let v: Vec<u8> = d.buf.drain(..k).collect();
        d.read += v.len() as u64;
        d.wake_writer();
        v
    }
    pub fn available(&self) -> usize {
        self.rx.lock().unwrap().buf.len()
    }
    /// Unread bytes we sent that the other end has not consumed yet.
    pub fn unconsumed(&self) -> usize {
        self.tx.lock().unwrap().buf.len()
    }
    pub fn consumed(&self) -> u64 {
        self.tx.lock().unwrap().read
    }
    pub fn close_write(&self) {
        let mut d = self.tx.lock().unwrap();
        d.closed = true;
        d.wake_reader();
    }
    pub fn peer_closed(&self) -> bool {
        self.rx.lock().unwrap().closed
    }
    pub fn reset(&self) {
        for d in [&self.rx, &self.tx] {
            let mut d = d.lock().unwrap();
            d.reset = true;
            d.wake_reader();
            d.wake_writer();
        }
    }
    /// Register interest: wake `w` when the other end writes.
    pub fn set_read_waker(&self, w: Waker) {
        self.rx.lock().unwrap().read_waker = Some(w);
    }
}
