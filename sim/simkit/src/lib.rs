//! simkit — deterministic simulation kernel for the rust-libp2p checks.
//!
//! One integer decides everything: every scheduling decision, delay, chunk size, fault coin and
//! generated operation is drawn through [`choose`], which is backed by a PRNG seeded from the
//! run's seed and *recorded*; replay feeds a recorded sequence back (zeros when exhausted).
//! OS entropy (std `RandomState`, the `rand`/`getrandom` crates) is served from a second
//! per-thread stream derived from the same seed (see [`interpose_getrandom!`]).
//! Time is virtual (patched `web-time` / `futures-timer`).

pub mod alloc;
pub mod ctx;
pub mod exec;
pub mod pipe;
pub mod rng;
pub mod runner;

pub use ctx::*;
pub use exec::*;
pub use runner::{main_with, Check, Level, Scenario, Tier};

/// A property violation found by an oracle.
#[derive(Clone, Debug)]
pub struct Violation {
    /// Stable identifier of the oracle clause that failed (used for shrinking: a candidate is
    /// kept only if the *same clause* fails, and for matching known findings).
    pub clause: String,
    /// Human readable detail (not compared).
    pub detail: String,
}

pub type SimResult = Result<(), Violation>;

#[macro_export]
macro_rules! ensure {
    ($cond:expr, $clause:expr, $($arg:tt)*) => {
        if !($cond) {
            return Err($crate::Violation { clause: ($clause).to_string(), detail: format!($($arg)*) });
        }
    };
}

#[macro_export]
macro_rules! violation {
    ($clause:expr, $($arg:tt)*) => {
        $crate::Violation { clause: ($clause).to_string(), detail: format!($($arg)*) }
    };
}

/// Define the `getrandom(2)` symbol in the harness binary so that std's `RandomState` keys and
/// every version of the `getrandom`/`rand` crates draw from the run's seeded entropy stream.
#[macro_export]
macro_rules! interpose_getrandom {
    () => {
        #[no_mangle]
        pub unsafe extern "C" fn getrandom(
            buf: *mut u8,
            buflen: usize,
            _flags: u32,
        ) -> isize {
            let s = std::slice::from_raw_parts_mut(buf, buflen);
            $crate::ctx::fill_entropy(s);
            buflen as isize
        }
    };
}
