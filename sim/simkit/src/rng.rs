//! Small, dependency-free PRNGs (the `rand` crate is code under test's entropy consumer and is
//! deliberately not used by the simulator itself).

#[derive(Clone, Debug)]
pub struct SplitMix64(pub u64);

impl SplitMix64 {
    pub fn next(&mut self) -> u64 {
        self.0 = self.0.wrapping_add(0x9E3779B97F4A7C15);
        let mut z = self.0;
        z = (z ^ (z >> 30)).wrapping_mul(0xBF58476D1CE4E5B9);
        z = (z ^ (z >> 27)).wrapping_mul(0x94D049BB133111EB);
        z ^ (z >> 31)
    }
}

#[derive(Clone, Debug)]
pub struct Xoshiro256 {
    s: [u64; 4],
}

impl Xoshiro256 {
    pub fn new(seed: u64) -> Self {
        let mut sm = SplitMix64(seed);
        Xoshiro256 { s: [sm.next(), sm.next(), sm.next(), sm.next()] }
    }
    pub fn next(&mut self) -> u64 {
        let result = self.s[1].wrapping_mul(5).rotate_left(7).wrapping_mul(9);
        let t = self.s[1] << 17;
        self.s[2] ^= self.s[0];
        self.s[3] ^= self.s[1];
        self.s[1] ^= self.s[2];
        self.s[0] ^= self.s[3];
        self.s[2] ^= t;
        self.s[3] = self.s[3].rotate_left(45);
        result
    }
    /// Uniform in [0, n) (n > 0); bias is negligible for the n used here.
    pub fn below(&mut self, n: u64) -> u64 {
        ((self.next() as u128 * n as u128) >> 64) as u64
    }
    pub fn fill(&mut self, buf: &mut [u8]) {
        for chunk in buf.chunks_mut(8) {
            let v = self.next().to_le_bytes();
            chunk.copy_from_slice(&v[..chunk.len()]);
        }
    }
}

pub fn mix(a: u64, b: u64) -> u64 {
    let mut s = SplitMix64(a ^ b.wrapping_mul(0xD6E8FEB86659FD93));
    s.next()
}
