//! Per-run simulation context (thread-local: every run executes on its own fresh OS thread, so
//! std's per-thread hash keys, `rand`'s thread rng, the virtual clock and the timer wheel all
//! start from the run's seed).

use crate::rng::{mix, Xoshiro256};
use crate::Violation;
use std::cell::RefCell;
use std::collections::BTreeMap;
use std::time::Duration;

#[derive(Clone, Copy, Debug, PartialEq, Eq)]
pub enum Profile {
    /// No faults: oracles at full strength.
    None,
    Light,
    Heavy,
}

impl Profile {
    pub fn name(self) -> &'static str {
        match self {
            Profile::None => "none",
            Profile::Light => "light",
            Profile::Heavy => "heavy",
        }
    }
}

pub struct Ctx {
    pub seed: u64,
    prng: Xoshiro256,
    replay: Option<Vec<u32>>,
    pos: usize,
    pub choices: Vec<u32>,
    pub profile: Profile,
    pub thorough: bool,
    pub tracing: bool,
    pub trace: Vec<String>,
    pub trace_dropped: u64,
    pub fp: u64,
    pub loghash: u64,
    pub faults: BTreeMap<&'static str, u64>,
    pub probes: BTreeMap<&'static str, u64>,
    fault_enabled: BTreeMap<&'static str, bool>,
    pub soft: Vec<Violation>,
    pub nontrivial: bool,
    pub seq: u64,
    pub entropy_draws: u64,
    pub sample: Option<String>,
}

const TRACE_CAP: usize = 6000;

thread_local! {
    static CTX: RefCell<Option<Ctx>> = const { RefCell::new(None) };
    // Separate from CTX: std may call getrandom (hash keys) while CTX is borrowed.
    static ENTROPY: RefCell<(Xoshiro256Lazy, u64)> = const { RefCell::new((Xoshiro256Lazy::Unset, 0)) };
}

enum Xoshiro256Lazy {
    Unset,
    Set(Xoshiro256),
}

/// Serve `len` bytes of "OS entropy" from the run's stream (fixed stream outside a run).
pub fn fill_entropy(buf: &mut [u8]) {
    let r = ENTROPY.try_with(|e| {
        if let Ok(mut e) = e.try_borrow_mut() {
            if let Xoshiro256Lazy::Unset = e.0 {
                e.0 = Xoshiro256Lazy::Set(Xoshiro256::new(0x5EED_0F_E27));
            }
            if let Xoshiro256Lazy::Set(x) = &mut e.0 {
                x.fill(buf);
            }
            e.1 += 1;
            true
        } else {
            false
        }
    });
    if r != Ok(true) {
        // thread teardown: deterministic filler
        for (i, b) in buf.iter_mut().enumerate() {
            *b = (i as u8).wrapping_mul(167).wrapping_add(13);
        }
    }
}

pub fn entropy_draws() -> u64 {
    ENTROPY.with(|e| e.borrow().1)
}

/// Start a run on the current (fresh) thread.
pub fn begin_run(seed: u64, replay: Option<Vec<u32>>, profile: Profile, thorough: bool, tracing: bool) {
    ENTROPY.with(|e| {
        *e.borrow_mut() = (Xoshiro256Lazy::Set(Xoshiro256::new(mix(seed, 0xE27_0E27))), 0);
    });
    web_time::sim::reset();
    futures_timer::sim::reset();
    crate::exec::reset();
    CTX.with(|c| {
        *c.borrow_mut() = Some(Ctx {
            seed,
            prng: Xoshiro256::new(mix(seed, 0xC401CE)),
            replay,
            pos: 0,
            choices: Vec::new(),
            profile,
            thorough,
            tracing,
            trace: Vec::new(),
            trace_dropped: 0,
            fp: 0,
            loghash: 0,
            faults: BTreeMap::new(),
            probes: BTreeMap::new(),
            fault_enabled: BTreeMap::new(),
            soft: Vec::new(),
            nontrivial: false,
            seq: 0,
            entropy_draws: 0,
            sample: None,
        })
    });
}

/// Finish the run and take its context.
pub fn end_run() -> Ctx {
    let mut c = CTX.with(|c| c.borrow_mut().take()).expect("no run");
    c.entropy_draws = entropy_draws();
    c
}

fn with<R>(f: impl FnOnce(&mut Ctx) -> R) -> R {
    CTX.with(|c| f(c.borrow_mut().as_mut().expect("simkit: no run active on this thread")))
}

pub fn in_run() -> bool {
    CTX.with(|c| c.borrow().is_some())
}

/// Draw a value in `[0, n)`. `0` is by convention the simplest choice everywhere.
pub fn choose(n: usize) -> usize {
    if n <= 1 {
        return 0;
    }
    with(|c| {
        let v = match &c.replay {
            Some(r) => {
                let v = r.get(c.pos).copied().unwrap_or(0) as u64 % n as u64;
                c.pos += 1;
                v
            }
            None => c.prng.below(n as u64),
        };
        c.choices.push(v as u32);
        c.loghash = mix(c.loghash, v.wrapping_add((n as u64) << 32));
        v as usize
    })
}

/// Draw in `[lo, hi]` inclusive.
pub fn range(lo: usize, hi: usize) -> usize {
    debug_assert!(hi >= lo);
    lo + choose(hi - lo + 1)
}

/// True with probability `per_mille`/1000 (false is the simple choice).
pub fn chance(per_mille: u32) -> bool {
    if per_mille == 0 {
        return false;
    }
    // draw so that value 0 means "false"
    let v = choose(1000);
    v >= 1000 - (per_mille.min(1000) as usize)
}

pub fn pick<T: Clone>(xs: &[T]) -> T {
    xs[choose(xs.len())].clone()
}

/// Small-biased size in [lo, hi]: half of the time from the low end.
pub fn small(lo: usize, hi: usize) -> usize {
    if hi <= lo {
        return lo;
    }
    if choose(2) == 0 {
        range(lo, (lo + 3).min(hi))
    } else {
        range(lo, hi)
    }
}

pub fn bytes(len: usize) -> Vec<u8> {
    (0..len).map(|_| choose(256) as u8).collect()
}

pub fn profile() -> Profile {
    with(|c| c.profile)
}

pub fn thorough() -> bool {
    with(|c| c.thorough)
}

/// Fault coin. Never fires in the `none` profile. Each fault kind is enabled or disabled for
/// the whole run (swarm-style variation) the first time it is consulted; the rate is
/// `per_mille` in `light` and three times that in `heavy`. Counts how often it *fired*.
pub fn fault(kind: &'static str, per_mille: u32) -> bool {
    let p = profile();
    if p == Profile::None {
        return false;
    }
    let enabled = match with(|c| c.fault_enabled.get(kind).copied()) {
        Some(e) => e,
        None => {
            let e = choose(4) != 1; // enabled in 3 of 4 runs
            with(|c| c.fault_enabled.insert(kind, e));
            e
        }
    };
    if !enabled {
        return false;
    }
    let rate = if p == Profile::Heavy { per_mille * 3 } else { per_mille };
    if chance(rate) {
        fired(kind);
        true
    } else {
        false
    }
}

/// Record that a fault of this kind fired (for faults decided by the scenario itself).
pub fn fired(kind: &'static str) {
    with(|c| {
        let e = c.faults.entry(kind).or_insert(0);
        *e += 1;
        if *e == 1 {
            // the fingerprint records which fault kinds fired, not how often
            c.fp = mix(c.fp, fnv(kind.as_bytes()) ^ 0xFA);
        }
        c.nontrivial = true;
    });
    trace_line(|| format!("FAULT {kind}"));
}

/// "This rare condition was hit" counter.
pub fn probe(name: &'static str) {
    with(|c| *c.probes.entry(name).or_insert(0) += 1);
}

/// Abstract event kind: contributes to the run fingerprint (distinctness measure).
pub fn note(tag: &'static str) {
    with(|c| {
        c.fp = mix(c.fp, fnv(tag.as_bytes()));
        c.seq += 1;
    });
    trace_line(|| tag.to_string());
}

/// Contribute a small abstract value (kind index, count bucket) to the fingerprint.
pub fn note_val(tag: &'static str, v: u64) {
    with(|c| {
        c.fp = mix(c.fp, fnv(tag.as_bytes()) ^ v.wrapping_mul(0x9E37));
        c.seq += 1;
    });
    trace_line(|| format!("{tag}={v}"));
}

pub fn mark_nontrivial() {
    with(|c| c.nontrivial = true);
}

/// Global event sequence number (monotone, used to stamp history events).
pub fn next_seq() -> u64 {
    with(|c| {
        c.seq += 1;
        c.seq
    })
}

pub fn tracing() -> bool {
    CTX.with(|c| c.borrow().as_ref().map(|c| c.tracing).unwrap_or(false))
}

pub fn trace_line(f: impl FnOnce() -> String) {
    if !tracing() {
        return;
    }
    let t = web_time::sim::elapsed();
    let s = f();
    with(|c| {
        c.loghash = mix(c.loghash, fnv(s.as_bytes()) ^ t.as_nanos() as u64);
        if c.trace.len() >= TRACE_CAP {
            c.trace.remove(0);
            c.trace_dropped += 1;
        }
        c.trace.push(format!("[{:>12.6}s] {}", t.as_secs_f64(), s));
    });
}

#[macro_export]
macro_rules! trace {
    ($($arg:tt)*) => {
        if $crate::ctx::tracing() { $crate::ctx::trace_line(|| format!($($arg)*)); }
    };
}

/// Record a violation without aborting the run (used where later oracles should still run).
pub fn soft_violation(v: Violation) {
    with(|c| {
        if c.soft.len() < 64 {
            c.soft.push(v)
        }
    });
}

pub fn soft_count() -> usize {
    with(|c| c.soft.len())
}

thread_local! {
    /// id of the property whose check is running (clauses of other properties are not reported by it)
    static OWN: RefCell<String> = const { RefCell::new(String::new()) };
}

pub fn set_own(id: &str) {
    OWN.with(|o| *o.borrow_mut() = id.to_string());
}

/// A clause "Cxx/..." belongs to property Cxx; untagged clauses (panics, harness) belong to whoever runs.
pub fn foreign_clause(own: &str, clause: &str) -> bool {
    if let Some((p, _)) = clause.split_once('/') {
        let is_prop = p.len() >= 3 && p.starts_with('C') && p[1..].chars().all(|c| c.is_ascii_digit());
        return is_prop && p != own;
    }
    false
}

/// Is this clause one that the running check does not report (it belongs to another property)?
pub fn clause_is_foreign(clause: &str) -> bool {
    OWN.with(|o| foreign_clause(&o.borrow(), clause))
}

/// Soft violations that the running check will report. A scenario shared between checks must not stop evaluating its
/// own oracles because a clause of another property fired.
pub fn soft_count_own() -> usize {
    let own = OWN.with(|o| o.borrow().clone());
    with(|c| c.soft.iter().filter(|v| !foreign_clause(&own, &v.clause)).count())
}

/// Set a human-readable sample of what this run did (kept for a few runs in evidence).
pub fn set_sample(f: impl FnOnce() -> String) {
    let s = f();
    with(|c| c.sample = Some(s));
}

pub fn now() -> Duration {
    web_time::sim::now()
}

pub fn elapsed() -> Duration {
    web_time::sim::elapsed()
}

pub fn fnv(b: &[u8]) -> u64 {
    let mut h: u64 = 0xcbf29ce484222325;
    for x in b {
        h ^= *x as u64;
        h = h.wrapping_mul(0x100000001b3);
    }
    h
}
