//! Allocation seam. Rust aborts the process when an allocation fails, so a defect that makes the code under test
//! request an absurd amount of memory (a hostile length prefix believed too early) would kill the whole batch with
//! no report. Every engine binary therefore runs with this allocator: a single request of `BOMB_BYTES` or more made
//! by a simulated run is reported as a violation of the check that is running (with a replay file naming the run),
//! and the process exits with the VIOLATION status instead of aborting. Nothing in the harness or in the code
//! under test on the unchanged tree allocates anywhere near that much in one piece.

use std::alloc::{GlobalAlloc, Layout, System};
use std::cell::{Cell, RefCell};

pub const BOMB_BYTES: usize = 256 << 20;

pub struct SimAlloc;

#[global_allocator]
static GLOBAL: SimAlloc = SimAlloc;

thread_local! {
    static IN_RUN: Cell<bool> = const { Cell::new(false) };
    static DESC: RefCell<Option<RunDesc>> = const { RefCell::new(None) };
}

#[derive(Clone)]
pub struct RunDesc {
    pub property: String,
    pub scenario: &'static str,
    pub seed: u64,
    pub profile: &'static str,
    pub tier: &'static str,
    pub verif_dir: String,
    /// recorded choice sequence when the run is itself a replay
    pub replay: Option<Vec<u32>>,
}

pub fn enter_run(d: RunDesc) {
    DESC.with(|x| *x.borrow_mut() = Some(d));
    IN_RUN.with(|x| x.set(true));
}

pub fn leave_run() {
    IN_RUN.with(|x| x.set(false));
}

/// Report a violation that cannot be handled inside the run (the process has to stop where it is): write a replay
/// file that regenerates the run from its seed, print the VIOLATION line and exit with the violation status.
pub fn fatal_violation(d: &RunDesc, clause: &str, detail: &str) -> ! {
    IN_RUN.with(|x| x.set(false));
    let dir = format!("{}/replays", d.verif_dir);
    let _ = std::fs::create_dir_all(&dir);
    let path = format!("{dir}/{}-{}.json", d.property, d.seed);
    let choices = match &d.replay {
        Some(c) => format!("[{}]", c.iter().map(|x| x.to_string()).collect::<Vec<_>>().join(",")),
        None => "null".to_string(),
    };
    let rep = format!(
        "{{\n \"property\": \"{}\",\n \"scenario\": \"{}\",\n \"seed\": {},\n \"profile\": \"{}\",\n \"tier\": \"{}\",\n \"clause\": \"{}\",\n \"detail\": \"{}\",\n \"reproducible\": true,\n \"choices\": {},\n \"note\": \"choices null = the run is regenerated from its seed; the process stops inside the run, so the sequence is not minimised\"\n}}\n",
        d.property, d.scenario, d.seed, d.profile, d.tier, clause, detail.replace('"', "'"), choices
    );
    let _ = std::fs::write(&path, rep);
    println!("run (scenario {} profile {} seed {}) violated: {} — {}", d.scenario, d.profile, d.seed, clause, detail);
    println!("VIOLATION property={} replay={}", d.property, path);
    use std::io::Write;
    let _ = std::io::stdout().flush();
    std::process::exit(1)
}

#[cold]
fn bomb(size: usize) -> ! {
    IN_RUN.with(|x| x.set(false));
    let d = DESC.with(|x| x.borrow().clone());
    let Some(d) = d else { std::process::abort() };
    let detail = format!("the code under test requested a single allocation of {size} bytes (>= {BOMB_BYTES}); a real process would be killed or would buffer that much for a peer");
    fatal_violation(&d, "alloc-bomb", &detail)
}

unsafe impl GlobalAlloc for SimAlloc {
    #[inline]
    unsafe fn alloc(&self, layout: Layout) -> *mut u8 {
        if layout.size() >= BOMB_BYTES && IN_RUN.with(|x| x.get()) {
            bomb(layout.size());
        }
        System.alloc(layout)
    }
    #[inline]
    unsafe fn alloc_zeroed(&self, layout: Layout) -> *mut u8 {
        if layout.size() >= BOMB_BYTES && IN_RUN.with(|x| x.get()) {
            bomb(layout.size());
        }
        System.alloc_zeroed(layout)
    }
    #[inline]
    unsafe fn dealloc(&self, ptr: *mut u8, layout: Layout) {
        System.dealloc(ptr, layout)
    }
    #[inline]
    unsafe fn realloc(&self, ptr: *mut u8, layout: Layout, new_size: usize) -> *mut u8 {
        if new_size >= BOMB_BYTES && IN_RUN.with(|x| x.get()) {
            bomb(new_size);
        }
        System.realloc(ptr, layout, new_size)
    }
}
