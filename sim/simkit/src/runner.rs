//! Batch runner: seeded search over runs, violation confirmation, choice-sequence shrinking,
//! replay files, known findings, evidence, determinism self-test.

use crate::ctx::{self, Profile};
use crate::exec::{self, Capped};
use crate::rng::mix;
use crate::{SimResult, Violation};
use serde_json::{json, Value};
use std::cell::RefCell;
use std::collections::{BTreeMap, BTreeSet, HashSet};
use std::sync::atomic::{AtomicBool, AtomicU64, Ordering};
use std::sync::Mutex;
use std::time::{Duration, Instant};

#[derive(Clone, Copy, Debug, PartialEq, Eq)]
pub enum Level {
    Exploration,
    FaultEnumeration,
}

impl Level {
    fn name(self) -> &'static str {
        match self {
            Level::Exploration => "exploration",
            Level::FaultEnumeration => "fault_enumeration",
        }
    }
}

#[derive(Clone, Copy, Debug, PartialEq, Eq)]
pub enum Tier {
    Quick,
    Thorough,
}

impl Tier {
    fn name(self) -> &'static str {
        match self {
            Tier::Quick => "quick",
            Tier::Thorough => "thorough",
        }
    }
}

pub const ALL_PROFILES: &[Profile] = &[Profile::None, Profile::Light, Profile::Heavy];
pub const NO_FAULTS: &[Profile] = &[Profile::None];

#[derive(Clone)]
pub struct Scenario {
    pub name: &'static str,
    pub quick: u64,
    pub thorough: u64,
    pub profiles: &'static [Profile],
    pub run: fn() -> SimResult,
}

impl Scenario {
    pub fn new(name: &'static str, quick: u64, thorough: u64, run: fn() -> SimResult) -> Self {
        Scenario { name, quick, thorough, profiles: ALL_PROFILES, run }
    }
    pub fn profiles(mut self, p: &'static [Profile]) -> Self {
        self.profiles = p;
        self
    }
}

#[derive(Clone)]
pub struct Check {
    pub id: &'static str,
    pub title: &'static str,
    pub level: Level,
    /// how cases are generated and what makes one non-trivial / distinct
    pub rule: &'static str,
    pub assumptions: &'static [&'static str],
    pub real: &'static [&'static str],
    pub stub: &'static [&'static str],
    pub scenarios: Vec<Scenario>,
}

#[derive(Clone, Debug)]
enum Outcome {
    Ok,
    Violations(Vec<Violation>),
    Capped,
}

#[derive(Clone, Debug)]
struct RunOut {
    outcome: Outcome,
    choices: Vec<u32>,
    fp: u64,
    loghash: u64,
    faults: BTreeMap<&'static str, u64>,
    probes: BTreeMap<&'static str, u64>,
    nontrivial: bool,
    sim_time: Duration,
    steps: u64,
    trace: Vec<String>,
    sample: Option<String>,
    entropy_draws: u64,
    clock_reads: u64,
    timers: (u64, u64),
}

thread_local! {
    static LAST_PANIC: RefCell<Option<String>> = const { RefCell::new(None) };
}

static QUIET_PANICS: AtomicBool = AtomicBool::new(false);

fn install_panic_hook() {
    QUIET_PANICS.store(true, Ordering::SeqCst);
    std::panic::set_hook(Box::new(|info| {
        let msg = if info.payload().is::<Capped>() {
            "capped".to_string()
        } else if let Some(s) = info.payload().downcast_ref::<&str>() {
            s.to_string()
        } else if let Some(s) = info.payload().downcast_ref::<String>() {
            s.clone()
        } else {
            "non-string panic".to_string()
        };
        let loc = info.location().map(|l| format!("{}:{}", l.file(), l.line())).unwrap_or_default();
        let _ = LAST_PANIC.try_with(|p| *p.borrow_mut() = Some(format!("{msg} @ {loc}")));
    }));
}

struct RunSpec<'a> {
    own: &'a str,
    scen: &'a Scenario,
    seed: u64,
    profile: Profile,
    thorough: bool,
    replay: Option<Vec<u32>>,
    tracing: bool,
}

/// A clause "Cxx/..." belongs to property Cxx. Scenarios shared between checks evaluate the
/// oracles of several properties; a check only reports clauses of its own property (plus
/// untagged ones such as panics) so that `VIOLATION property=<id>` is attributed correctly.
use crate::ctx::foreign_clause;

/// Runs in progress: (started, description), for the hang watchdog.
static IN_FLIGHT: Mutex<Vec<(u64, Instant, crate::alloc::RunDesc)>> = Mutex::new(Vec::new());
static FLIGHT_SEQ: AtomicU64 = AtomicU64::new(0);

/// A run that does not come back (an endless loop inside one poll of the code under test never reaches the scheduler's
/// step cap) would hang the whole check. The watchdog reports it as a violation with a seed replay instead. Ordinary runs
/// take milliseconds; the limit is generous enough for a heavily loaded machine.
fn start_watchdog() {
    let limit = Duration::from_secs(std::env::var("VERIF_HANG_S").ok().and_then(|s| s.parse().ok()).unwrap_or(300));
    std::thread::Builder::new()
        .name("watchdog".into())
        .spawn(move || loop {
            std::thread::sleep(Duration::from_secs(2));
            let stuck = IN_FLIGHT.lock().unwrap().iter().find(|(_, t, _)| t.elapsed() > limit).map(|(_, _, d)| d.clone());
            if let Some(d) = stuck {
                crate::alloc::fatal_violation(&d, "hang", &format!("the run did not finish within {} s of wall-clock time: the code under test loops or blocks inside a single poll (the simulator never blocks)", limit.as_secs()));
            }
        })
        .expect("spawn watchdog");
}

fn exec_run(spec: RunSpec<'_>) -> RunOut {
    let run = spec.scen.run;
    let RunSpec { seed, profile, thorough, replay, tracing, .. } = spec;
    let own = spec.own.to_string();
    let desc = crate::alloc::RunDesc {
        property: own.clone(),
        scenario: spec.scen.name,
        seed,
        profile: profile.name(),
        tier: if thorough { "thorough" } else { "quick" },
        verif_dir: verif_dir(),
        replay: replay.clone(),
    };
    let flight = FLIGHT_SEQ.fetch_add(1, Ordering::Relaxed);
    IN_FLIGHT.lock().unwrap().push((flight, Instant::now(), desc.clone()));
    let h = std::thread::Builder::new()
        .name("simrun".into())
        .stack_size(32 << 20)
        .spawn(move || {
            ctx::begin_run(seed, replay, profile, thorough, tracing);
            ctx::set_own(&own);
            crate::alloc::enter_run(desc);
            // self-test of the two process-level guards (never set by a registered command)
            match std::env::var("VERIF_SELFTEST_GUARD").as_deref() {
                Ok("hang") if seed % 7 == 0 => loop {
                    std::hint::spin_loop()
                },
                Ok("alloc") if seed % 7 == 0 => drop(std::hint::black_box(Vec::<u8>::with_capacity(1 << 40))),
                _ => {}
            }
            let r = std::panic::catch_unwind(std::panic::AssertUnwindSafe(run));
            let sim_time = web_time::sim::elapsed();
            let steps = exec::steps();
            let clock_reads = web_time::sim::reads();
            let timers = futures_timer::sim::stats();
            // Dropping the units may run destructors of code under test: keep it inside a guard.
            let _ = std::panic::catch_unwind(std::panic::AssertUnwindSafe(exec::teardown));
            crate::alloc::leave_run();
            let c = ctx::end_run();
            let mut vs: Vec<Violation> = c.soft.iter().filter(|v| !foreign_clause(&own, &v.clause)).cloned().collect();
            let r = match r {
                Ok(Err(v)) if foreign_clause(&own, &v.clause) => Ok(Ok(())),
                other => other,
            };
            let outcome = match r {
                Ok(Ok(())) => {
                    if vs.is_empty() {
                        Outcome::Ok
                    } else {
                        Outcome::Violations(vs)
                    }
                }
                Ok(Err(v)) => {
                    vs.push(v);
                    Outcome::Violations(vs)
                }
                Err(p) => {
                    if p.is::<Capped>() {
                        if vs.is_empty() {
                            Outcome::Capped
                        } else {
                            Outcome::Violations(vs)
                        }
                    } else {
                        let msg = LAST_PANIC.with(|p| p.borrow_mut().take()).unwrap_or_else(|| "panic".into());
                        // clause: location-stable prefix of the message
                        let short: String = msg.chars().take(160).collect();
                        vs.push(Violation { clause: format!("panic: {short}"), detail: msg });
                        Outcome::Violations(vs)
                    }
                }
            };
            RunOut {
                outcome,
                choices: c.choices,
                fp: c.fp,
                loghash: c.loghash,
                faults: c.faults,
                probes: c.probes,
                nontrivial: c.nontrivial,
                sim_time,
                steps,
                trace: c.trace,
                sample: c.sample,
                entropy_draws: c.entropy_draws,
                clock_reads,
                timers,
            }
        })
        .expect("spawn run thread");
    let out = h.join().expect("run thread must not die outside catch_unwind");
    IN_FLIGHT.lock().unwrap().retain(|(f, _, _)| *f != flight);
    out
}

fn verif_dir() -> String {
    std::env::var("VERIF_DIR").unwrap_or_else(|_| "/verif".into())
}

#[derive(Clone, Debug)]
struct Known {
    signature: String,
    description: String,
}

fn load_known(id: &str) -> Vec<Known> {
    let p = format!("{}/known_findings.json", verif_dir());
    let Ok(s) = std::fs::read_to_string(&p) else { return vec![] };
    let v: Value = match serde_json::from_str(&s) {
        Ok(v) => v,
        Err(e) => {
            eprintln!("harness error: cannot parse {p}: {e}");
            std::process::exit(2);
        }
    };
    let mut out = vec![];
    if let Some(a) = v.get("known").and_then(|k| k.as_array()) {
        for k in a {
            if k.get("property").and_then(|p| p.as_str()) == Some(id) {
                out.push(Known {
                    signature: k.get("signature").and_then(|s| s.as_str()).unwrap_or("").to_string(),
                    description: k.get("description").and_then(|s| s.as_str()).unwrap_or("").to_string(),
                });
            }
        }
    }
    out
}

fn is_known(known: &[Known], v: &Violation) -> Option<usize> {
    known.iter().position(|k| !k.signature.is_empty() && v.clause == k.signature)
}

fn profile_from(s: &str) -> Profile {
    match s {
        "light" => Profile::Light,
        "heavy" => Profile::Heavy,
        _ => Profile::None,
    }
}

struct Agg {
    evaluations: u64,
    fps: HashSet<u64>,
    fps_all: HashSet<u64>,
    faults: BTreeMap<&'static str, u64>,
    probes: BTreeMap<&'static str, u64>,
    sim_time: Duration,
    steps: u64,
    capped: u64,
    per_scenario: BTreeMap<&'static str, u64>,
    per_profile: BTreeMap<&'static str, u64>,
    samples: Vec<Value>,
    violating: Vec<(u64, usize, Profile, u64, Vec<u32>, Vec<Violation>)>, // (run idx, scen idx, profile, seed, choices, violations)
    known_seen: BTreeMap<usize, (u64, String)>,
    choices_total: u64,
    entropy_draws: u64,
    clock_reads: u64,
    timers_created: u64,
    timers_fired: u64,
}

pub fn main_with(checks: Vec<Check>) {
    install_panic_hook();
    let args: Vec<String> = std::env::args().collect();
    let cmd = args.get(1).map(|s| s.as_str()).unwrap_or("");
    let code = match cmd {
        "run" => cmd_run(&checks, &args[2..]),
        "replay" => cmd_replay(&checks, &args[2..]),
        "selftest" => cmd_selftest(&checks, &args[2..]),
        "list" => {
            for c in &checks {
                println!("{} {}", c.id, c.title);
            }
            0
        }
        _ => {
            eprintln!("usage: run <ID> [--tier quick|thorough] [--runs N] [--jobs N] | replay <file> | selftest [--dump] [--seeds N] [--jobs N] [ID..] | list");
            2
        }
    };
    std::process::exit(code);
}

fn opt<'a>(args: &'a [String], name: &str) -> Option<&'a str> {
    args.iter().position(|a| a == name).and_then(|i| args.get(i + 1)).map(|s| s.as_str())
}

fn base_seed() -> u64 {
    std::env::var("VERIF_SEED").ok().and_then(|s| s.parse::<i64>().ok()).map(|v| v as u64).unwrap_or(1)
}

fn plan(check: &Check, tier: Tier, runs_override: Option<u64>) -> Vec<(usize, u64)> {
    // (scenario index, number of runs)
    let mut v: Vec<(usize, u64)> = check
        .scenarios
        .iter()
        .enumerate()
        .map(|(i, s)| (i, if tier == Tier::Quick { s.quick } else { s.thorough }))
        .collect();
    if let Some(total) = runs_override {
        let sum: u64 = v.iter().map(|x| x.1).sum::<u64>().max(1);
        for x in v.iter_mut() {
            x.1 = (x.1 * total).div_ceil(sum).max(1);
        }
    }
    v
}

fn locate(plan: &[(usize, u64)], mut i: u64) -> usize {
    for (s, n) in plan {
        if i < *n {
            return *s;
        }
        i -= n;
    }
    plan.last().unwrap().0
}

/// Process-wide one-time initialisations inside dependencies (lazily seeded hashers, CPU feature
/// probes, ...) may draw from the entropy seam of whichever run triggers them first. Trigger them
/// all in throw-away runs so that every measured run - and every replay in a fresh process -
/// sees the same process state.
fn warmup(check: &Check) {
    for scen in &check.scenarios {
        for (k, p) in scen.profiles.iter().enumerate() {
            let _ = exec_run(RunSpec { own: check.id, scen, seed: 0xAA00 + k as u64, profile: *p, thorough: false, replay: None, tracing: false });
        }
    }
}

fn cmd_run(checks: &[Check], args: &[String]) -> i32 {
    let Some(id) = args.first() else {
        eprintln!("run: missing property id");
        return 2;
    };
    let Some(check) = checks.iter().find(|c| c.id == id) else {
        eprintln!("run: unknown property {id} in this binary");
        return 2;
    };
    let tier = match opt(args, "--tier").or(std::env::var("VERIF_TIER").ok().as_deref()) {
        Some("thorough") => Tier::Thorough,
        _ => Tier::Quick,
    };
    let jobs: usize = opt(args, "--jobs").and_then(|s| s.parse().ok()).unwrap_or_else(|| {
        std::thread::available_parallelism().map(|n| n.get()).unwrap_or(8)
    });
    let runs_override = opt(args, "--runs").and_then(|s| s.parse().ok());
    let wall_cap = Duration::from_secs(
        std::env::var("VERIF_WALL_S").ok().and_then(|s| s.parse().ok()).unwrap_or(if tier == Tier::Quick { 120 } else { 1500 }),
    );
    let seed = base_seed();
    start_watchdog();
    warmup(check);
    let known = load_known(check.id);
    let plan = plan(check, tier, runs_override);
    let total: u64 = plan.iter().map(|p| p.1).sum();
    let started = Instant::now();
    println!("seed={seed} property={} tier={} runs={total} jobs={jobs}", check.id, tier.name());

    let agg = Mutex::new(Agg {
        evaluations: 0,
        fps: HashSet::new(),
        fps_all: HashSet::new(),
        faults: BTreeMap::new(),
        probes: BTreeMap::new(),
        sim_time: Duration::ZERO,
        steps: 0,
        capped: 0,
        per_scenario: BTreeMap::new(),
        per_profile: BTreeMap::new(),
        samples: Vec::new(),
        violating: Vec::new(),
        known_seen: BTreeMap::new(),
        choices_total: 0,
        entropy_draws: 0,
        clock_reads: 0,
        timers_created: 0,
        timers_fired: 0,
    });
    let next = AtomicU64::new(0);
    let stop = AtomicBool::new(false);
    std::thread::scope(|sc| {
        for _ in 0..jobs {
            sc.spawn(|| loop {
                if stop.load(Ordering::Relaxed) {
                    break;
                }
                let i = next.fetch_add(1, Ordering::SeqCst);
                if i >= total {
                    break;
                }
                if started.elapsed() > wall_cap {
                    break;
                }
                let si = locate(&plan, i);
                let scen = &check.scenarios[si];
                let profile = scen.profiles[(i % scen.profiles.len() as u64) as usize];
                let rs = mix(seed, i);
                let out = exec_run(RunSpec { own: check.id, scen, seed: rs, profile, thorough: tier == Tier::Thorough, replay: None, tracing: false });
                let mut a = agg.lock().unwrap();
                a.evaluations += 1;
                a.fps_all.insert(out.fp);
                if out.nontrivial {
                    a.fps.insert(out.fp);
                }
                for (k, v) in &out.faults {
                    *a.faults.entry(k).or_insert(0) += v;
                }
                for (k, v) in &out.probes {
                    *a.probes.entry(k).or_insert(0) += v;
                }
                a.sim_time += out.sim_time;
                a.steps += out.steps;
                a.choices_total += out.choices.len() as u64;
                a.entropy_draws += out.entropy_draws;
                a.clock_reads += out.clock_reads;
                a.timers_created += out.timers.0;
                a.timers_fired += out.timers.1;
                *a.per_scenario.entry(scen.name).or_insert(0) += 1;
                *a.per_profile.entry(profile.name()).or_insert(0) += 1;
                if a.samples.len() < 6 && (i < 3 || out.sample.is_some()) {
                    let s = json!({
                        "run": i, "scenario": scen.name, "profile": profile.name(), "seed": rs,
                        "choices": out.choices.len(), "steps": out.steps,
                        "sim_time_s": out.sim_time.as_secs_f64(),
                        "what": out.sample.clone().unwrap_or_default(),
                    });
                    a.samples.push(s);
                }
                match out.outcome {
                    Outcome::Ok => {}
                    Outcome::Capped => a.capped += 1,
                    Outcome::Violations(vs) => {
                        let mut unknown = false;
                        for v in &vs {
                            match is_known(&known, v) {
                                Some(k) => {
                                    let e = a.known_seen.entry(k).or_insert((0, v.detail.clone()));
                                    e.0 += 1;
                                }
                                None => unknown = true,
                            }
                        }
                        if unknown {
                            a.violating.push((i, si, profile, rs, out.choices, vs));
                            if a.violating.len() >= 8 {
                                stop.store(true, Ordering::Relaxed);
                            }
                        }
                    }
                }
            });
        }
    });
    let mut a = agg.into_inner().unwrap();
    let wall = started.elapsed();

    // trace samples of the first two runs (re-executed with tracing on)
    let mut trace_samples = vec![];
    for i in 0..2u64.min(total) {
        let si = locate(&plan, i);
        let scen = &check.scenarios[si];
        let profile = scen.profiles[(i % scen.profiles.len() as u64) as usize];
        let out = exec_run(RunSpec { own: check.id, scen, seed: mix(seed, i), profile, thorough: tier == Tier::Thorough, replay: None, tracing: true });
        let head: Vec<String> = out.trace.iter().take(40).cloned().collect();
        trace_samples.push(json!({"run": i, "scenario": scen.name, "profile": profile.name(), "trace_head": head, "trace_len": out.trace.len()}));
    }

    let mut exit = 0;
    let mut violations_reported = 0;
    a.violating.sort_by_key(|v| v.0);
    if let Some((i, si, profile, rs, choices, vs)) = a.violating.first().cloned() {
        let scen = &check.scenarios[si];
        let target = vs.iter().find(|v| is_known(&known, v).is_none()).unwrap().clone();
        println!("run {i} (scenario {} profile {} seed {rs}) violated: {} — {}", scen.name, profile.name(), target.clause, target.detail);
        // confirm + shrink
        let fails = |cs: &[u32]| -> Option<RunOut> {
            let out = exec_run(RunSpec { own: check.id, scen, seed: rs, profile, thorough: tier == Tier::Thorough, replay: Some(cs.to_vec()), tracing: false });
            match &out.outcome {
                Outcome::Violations(v) if v.iter().any(|x| x.clause == target.clause) => Some(out),
                _ => None,
            }
        };
        let confirmed = fails(&choices);
        let (min_choices, reproducible) = match confirmed {
            None => {
                println!("WARNING: violation did not reproduce from its recorded choice sequence (nondeterminism in harness?)");
                (choices.clone(), false)
            }
            Some(_) => (shrink(&choices, &fails, Duration::from_secs(if tier == Tier::Quick { 20 } else { 90 })), true),
        };
        let fin = exec_run(RunSpec { own: check.id, scen, seed: rs, profile, thorough: tier == Tier::Thorough, replay: Some(min_choices.clone()), tracing: true });
        let (clause, detail) = match &fin.outcome {
            Outcome::Violations(v) => v.iter().find(|x| x.clause == target.clause).map(|x| (x.clause.clone(), x.detail.clone())).unwrap_or((target.clause.clone(), target.detail.clone())),
            _ => (target.clause.clone(), target.detail.clone()),
        };
        let dir = format!("{}/replays", verif_dir());
        let _ = std::fs::create_dir_all(&dir);
        let path = format!("{dir}/{}-{}.json", check.id, rs);
        let rep = json!({
            "property": check.id, "scenario": scen.name, "scenario_index": si, "seed": rs,
            "profile": profile.name(), "tier": tier.name(), "clause": clause, "detail": detail,
            "reproducible": reproducible, "original_choices": choices.len(),
            "choices": min_choices.clone(),
            "trace": fin.trace,
        });
        std::fs::write(&path, serde_json::to_string_pretty(&rep).unwrap()).expect("write replay");
        println!("minimised {} -> {} choices", choices.len(), min_choices.len());
        for l in fin.trace.iter().rev().take(25).rev() {
            println!("  {l}");
        }
        println!("VIOLATION property={} replay={}", check.id, path);
        violations_reported = a.violating.len();
        exit = 1;
    }
    for (k, (n, detail)) in &a.known_seen {
        println!("KNOWN-FINDING: property={} {} — {} (seen in {} runs; e.g. {})", check.id, known[*k].signature, known[*k].description, n, detail);
    }

    // evidence
    let hours = wall.as_secs_f64() / 3600.0;
    let mut samples = a.samples.clone();
    samples.extend(trace_samples);
    let ev = json!({
        "property_id": check.id,
        "tier": tier.name(),
        "seed": seed,
        "level": check.level.name(),
        "wall_s": wall.as_secs_f64(),
        "violations": violations_reported,
        "assumptions": check.assumptions,
        "coverage": {
            "evaluations": a.evaluations,
            "distinct_nontrivial": a.fps.len(),
            "distinct_fingerprints_all": a.fps_all.len(),
            "rule": check.rule,
            "samples": samples,
            "planned_runs": total,
            "runs_per_hour": if hours > 0.0 { (a.evaluations as f64 / hours) as u64 } else { 0 },
            "seeds_per_hour": if hours > 0.0 { (a.evaluations as f64 / hours) as u64 } else { 0 },
            "simulated_time_s": a.sim_time.as_secs_f64(),
            "scheduler_steps": a.steps,
            "choices_drawn": a.choices_total,
            "entropy_requests_served": a.entropy_draws,
            "virtual_clock_reads": a.clock_reads,
            "virtual_timers_created": a.timers_created,
            "virtual_timers_fired": a.timers_fired,
            "faults_fired": a.faults,
            "probes_hit": a.probes,
            "inconclusive_capped_runs": a.capped,
            "runs_per_scenario": a.per_scenario,
            "runs_per_fault_profile": a.per_profile,
            "known_findings_seen": a.known_seen.iter().map(|(k, (n, _))| json!({"signature": known[*k].signature, "runs": n})).collect::<Vec<_>>(),
            "components_real": check.real,
            "components_stub": check.stub,
            "jobs": jobs,
        }
    });
    let edir = format!("{}/evidence", verif_dir());
    let _ = std::fs::create_dir_all(&edir);
    let epath = format!("{edir}/{}.json", check.id);
    if let Err(e) = std::fs::write(&epath, serde_json::to_string_pretty(&ev).unwrap()) {
        eprintln!("harness error: cannot write evidence {epath}: {e}");
        return 2;
    }
    println!(
        "done property={} evaluations={} distinct_nontrivial={} capped={} faults={} wall={:.1}s sim_time={:.0}s exit={}",
        check.id,
        a.evaluations,
        a.fps.len(),
        a.capped,
        a.faults.values().sum::<u64>(),
        wall.as_secs_f64(),
        a.sim_time.as_secs_f64(),
        exit
    );
    if a.evaluations == 0 {
        eprintln!("harness error: no runs executed");
        return 2;
    }
    exit
}

/// Shrink a failing choice sequence; `fails` re-executes and says whether the same clause fails.
fn shrink(orig: &[u32], fails: &dyn Fn(&[u32]) -> Option<RunOut>, budget: Duration) -> Vec<u32> {
    let t0 = Instant::now();
    let mut cur: Vec<u32> = orig.to_vec();
    let evals = std::cell::Cell::new(0u32);
    let try_cand = |cand: &[u32], cur: &mut Vec<u32>| -> bool {
        if t0.elapsed() > budget || evals.get() > 4000 {
            return false;
        }
        evals.set(evals.get() + 1);
        if let Some(out) = fails(cand) {
            // adopt the normalised sequence actually consumed (never longer than cand + zeros)
            let mut n = out.choices;
            // strip trailing zeros: exhausted replay yields zeros anyway
            while n.last() == Some(&0) {
                n.pop();
            }
            if n.len() <= cur.len() {
                *cur = n;
            } else {
                *cur = cand.to_vec();
            }
            true
        } else {
            false
        }
    };
    // normalise once
    let c0 = cur.clone();
    try_cand(&c0, &mut cur);
    loop {
        let before = (cur.len(), cur.iter().map(|x| *x as u64).sum::<u64>());
        // 1. truncate
        let mut len = cur.len() / 2;
        while len > 0 && t0.elapsed() < budget {
            let cand: Vec<u32> = cur[..cur.len() - len.min(cur.len())].to_vec();
            if !try_cand(&cand, &mut cur) {
                len /= 2;
            }
        }
        // 2. delete blocks, 3. zero blocks
        let mut size = (cur.len() / 2).max(1);
        loop {
            let mut i = 0;
            while i < cur.len() && t0.elapsed() < budget {
                let end = (i + size).min(cur.len());
                let mut cand = cur.clone();
                cand.drain(i..end);
                if try_cand(&cand, &mut cur) {
                    continue;
                }
                if cur[i..end].iter().any(|x| *x != 0) {
                    let mut cand = cur.clone();
                    for x in &mut cand[i..end] {
                        *x = 0;
                    }
                    if try_cand(&cand, &mut cur) {
                        i += size;
                        continue;
                    }
                }
                i += size;
            }
            if size == 1 {
                break;
            }
            size /= 2;
        }
        // 4. lower single values
        let mut i = 0;
        while i < cur.len() && t0.elapsed() < budget {
            let v = cur[i];
            if v > 1 {
                let mut cand = cur.clone();
                cand[i] = v / 2;
                if try_cand(&cand, &mut cur) {
                    continue;
                }
                cand = cur.clone();
                cand[i] = v - 1;
                if try_cand(&cand, &mut cur) {
                    continue;
                }
            }
            i += 1;
        }
        let after = (cur.len(), cur.iter().map(|x| *x as u64).sum::<u64>());
        if after >= before || t0.elapsed() > budget || evals.get() > 4000 {
            break;
        }
    }
    while cur.last() == Some(&0) {
        cur.pop();
    }
    cur
}

fn cmd_replay(checks: &[Check], args: &[String]) -> i32 {
    let Some(path) = args.first() else {
        eprintln!("replay: missing file");
        return 2;
    };
    let Ok(s) = std::fs::read_to_string(path) else {
        eprintln!("replay: cannot read {path}");
        return 2;
    };
    let v: Value = match serde_json::from_str(&s) {
        Ok(v) => v,
        Err(e) => {
            eprintln!("replay: bad json: {e}");
            return 2;
        }
    };
    let id = v["property"].as_str().unwrap_or("");
    let Some(check) = checks.iter().find(|c| c.id == id) else {
        eprintln!("replay: property {id} not in this binary");
        return 2;
    };
    let sname = v["scenario"].as_str().unwrap_or("");
    let Some(scen) = check.scenarios.iter().find(|s| s.name == sname) else {
        eprintln!("replay: unknown scenario {sname}");
        return 2;
    };
    // "choices": null = regenerate the run from its seed (written when the process had to stop inside the run)
    let choices: Option<Vec<u32>> = v["choices"].as_array().map(|a| a.iter().map(|x| x.as_u64().unwrap_or(0) as u32).collect());
    let seed = v["seed"].as_u64().unwrap_or(0);
    let profile = profile_from(v["profile"].as_str().unwrap_or("none"));
    let thorough = v["tier"].as_str() == Some("thorough");
    let clause = v["clause"].as_str().unwrap_or("").to_string();
    start_watchdog();
    warmup(check);
    let out = exec_run(RunSpec { own: check.id, scen, seed, profile, thorough, replay: choices, tracing: true });
    for l in &out.trace {
        println!("{l}");
    }
    match out.outcome {
        Outcome::Violations(vs) => {
            for x in &vs {
                println!("violated: {} — {}", x.clause, x.detail);
            }
            if vs.iter().any(|x| x.clause == clause) {
                println!("VIOLATION property={} replay={}", id, path);
                1
            } else {
                println!("replay failed with a different clause than recorded ({clause})");
                1
            }
        }
        Outcome::Ok => {
            println!("replay: no violation (does not reproduce on this tree)");
            0
        }
        Outcome::Capped => {
            println!("replay: run capped (inconclusive)");
            0
        }
    }
}

fn entropy_probe() -> SimResult {
    let s: HashSet<u32> = (0..64).collect();
    let order: Vec<u32> = s.iter().copied().collect();
    crate::ctx::trace_line(|| format!("{order:?}"));
    Ok(())
}

/// Determinism self-test: every scenario, many seeds, executed twice; the full event-log hash,
/// choice sequence, fingerprint, virtual end time and entropy use must be identical.
/// With --dump prints one line per run so that two processes can be diffed.
fn cmd_selftest(checks: &[Check], args: &[String]) -> i32 {
    let dump = args.iter().any(|a| a == "--dump");
    let seeds: u64 = opt(args, "--seeds").and_then(|s| s.parse().ok()).unwrap_or(24);
    let jobs: usize = opt(args, "--jobs").and_then(|s| s.parse().ok()).unwrap_or(16);
    let ids: BTreeSet<&str> = args.iter().filter(|a| a.starts_with('C')).map(|s| s.as_str()).collect();
    let seed = base_seed();
    // entropy seam: same seed => same std hash order and same "OS" randomness; other seed => different
    {
        let sc = Scenario::new("entropy-probe", 1, 1, entropy_probe);
        let run = |s: u64| exec_run(RunSpec { own: "", scen: &sc, seed: s, profile: Profile::None, thorough: false, replay: None, tracing: true });
        let (a, b, c) = (run(11), run(11), run(12));
        if a.loghash != b.loghash || a.loghash == c.loghash || a.entropy_draws == 0 {
            println!("selftest: entropy seam NOT effective (getrandom interposition broken): {:x} {:x} {:x} draws={}", a.loghash, b.loghash, c.loghash, a.entropy_draws);
            return 2;
        }
        if !dump {
            println!("selftest: entropy seam ok (std RandomState order is a function of the seed; {} requests served)", a.entropy_draws);
        }
    }
    let mut work = vec![];
    for c in checks {
        if !ids.is_empty() && !ids.contains(c.id) {
            continue;
        }
        warmup(c);
        for (si, s) in c.scenarios.iter().enumerate() {
            for k in 0..seeds {
                work.push((c.id, si, s.clone(), k));
            }
        }
    }
    let results: Mutex<BTreeMap<(String, usize, u64), Vec<String>>> = Mutex::new(BTreeMap::new());
    let next = AtomicU64::new(0);
    let n = work.len() as u64;
    std::thread::scope(|sc| {
        for _ in 0..jobs {
            sc.spawn(|| loop {
                let i = next.fetch_add(1, Ordering::SeqCst);
                if i >= n * 2 {
                    break;
                }
                let (id, si, scen, k) = &work[(i % n) as usize];
                let profile = scen.profiles[(*k % scen.profiles.len() as u64) as usize];
                let rs = mix(seed ^ crate::ctx::fnv(id.as_bytes()), *k * 31 + *si as u64);
                let out = exec_run(RunSpec { own: id, scen, seed: rs, profile, thorough: false, replay: None, tracing: true });
                let kind = match &out.outcome {
                    Outcome::Ok => "ok".to_string(),
                    Outcome::Capped => "capped".to_string(),
                    Outcome::Violations(v) => format!("viol:{}", v[0].clause),
                };
                let line = format!(
                    "{:016x} fp={:016x} choices={} ch={:016x} t={:?} steps={} ent={} {}",
                    out.loghash,
                    out.fp,
                    out.choices.len(),
                    out.choices.iter().fold(0u64, |h, c| mix(h, *c as u64)),
                    out.sim_time,
                    out.steps,
                    out.entropy_draws,
                    kind
                );
                results.lock().unwrap().entry((id.to_string(), *si, *k)).or_default().push(line);
            });
        }
    });
    let results = results.into_inner().unwrap();
    let mut bad = 0;
    for ((id, si, k), lines) in &results {
        if lines.len() != 2 || lines[0] != lines[1] {
            bad += 1;
            println!("NONDETERMINISTIC {id} scenario#{si} seed#{k}: {:?}", lines);
        }
        if dump {
            println!("{id} {si} {k} {}", lines[0]);
        }
    }
    if !dump {
        println!("selftest: {} runs x2 compared, {} mismatches", results.len(), bad);
    }
    if bad > 0 {
        2
    } else {
        0
    }
}
