#!/usr/bin/env python3
"""C03 check: connection ids unique under seeded thread interleavings (Miri), see src/main.rs.

usage: run.py --tier quick|thorough        run the check, write evidence/C03.json
       run.py --replay <file>              re-run one recorded (seed, rate, threads, per) exactly
exit 0 ok / 1 VIOLATION / 2 harness error
"""
import json, os, re, subprocess, sys, time

HERE = os.path.dirname(os.path.abspath(__file__))
VERIF = os.path.dirname(HERE)
ENV = dict(os.environ, CARGO_NET_OFFLINE="true", CARGO_TERM_COLOR="never")
ENV.pop("RUSTFLAGS", None)

def miri(flags, threads, per):
    env = dict(ENV, MIRIFLAGS=flags + " -Zmiri-disable-isolation")
    p = subprocess.run(["cargo", "+nightly", "miri", "run", "--offline", "--", str(threads), str(per)], cwd=HERE, env=env, capture_output=True, text=True)
    return p.returncode, p.stdout + p.stderr

def main():
    args = sys.argv[1:]
    if "--replay" in args:
        r = json.load(open(args[args.index("--replay") + 1]))
        rc, out = miri(f"-Zmiri-seed={r['miri_seed']} -Zmiri-preemption-rate={r['preemption_rate']}", r["threads"], r["per_thread"])
        print(out[-2000:])
        if "DUPLICATE" in out:
            print(f"VIOLATION property=C03 replay={args[args.index('--replay') + 1]}")
            return 1
        print("replay: no duplicate (does not reproduce on this tree)")
        return 0
    tier = "thorough" if "thorough" in args else "quick"
    base = int(os.environ.get("VERIF_SEED", "1"))
    nseeds = 24 if tier == "quick" else 256
    lo = (base * 1000) % 1000000
    configs = [(3, 4, "0.9"), (2, 6, "0.5"), (4, 3, "0.9")] if tier == "quick" else [(3, 4, "0.9"), (2, 6, "0.5"), (4, 3, "0.9"), (4, 6, "0.7"), (3, 8, "0.3")]
    t0 = time.time()
    orders, evals, samples = set(), 0, []
    for (th, per, rate) in configs:
        rc, out = miri(f"-Zmiri-many-seeds={lo}..{lo + nseeds} -Zmiri-preemption-rate={rate}", th, per)
        oks = re.findall(r"^ok threads=\d+ per_thread=\d+ ids=\d+ order=(\S+)$", out, re.M)
        evals += len(oks)
        for o in oks:
            orders.add((th, per, o))
        if oks and len(samples) < 6:
            samples.append({"threads": th, "per_thread": per, "preemption_rate": rate, "id_order_by_thread": oks[0]})
        if "DUPLICATE" in out:
            # find the seed: re-run them one by one
            for s in range(lo, lo + nseeds):
                rc1, out1 = miri(f"-Zmiri-seed={s} -Zmiri-preemption-rate={rate}", th, per)
                if "DUPLICATE" in out1:
                    os.makedirs(os.path.join(VERIF, "replays"), exist_ok=True)
                    path = os.path.join(VERIF, "replays", f"C03-{s}.json")
                    detail = [l for l in out1.splitlines() if "DUPLICATE" in l][0]
                    json.dump({"property": "C03", "engine": "E4-miri", "miri_seed": s, "preemption_rate": rate, "threads": th, "per_thread": per, "clause": "C03/duplicate-id", "detail": detail}, open(path, "w"), indent=1)
                    print(detail)
                    print(f"VIOLATION property=C03 replay={path}")
                    write_evidence(tier, base, evals, orders, samples, time.time() - t0, 1, configs, nseeds)
                    return 1
            print("harness error: duplicate seen in the batch but no single seed reproduces it", file=sys.stderr)
            return 2
        if rc != 0 or not oks:
            print(out[-3000:], file=sys.stderr)
            print("harness error: miri run failed", file=sys.stderr)
            return 2
    write_evidence(tier, base, evals, orders, samples, time.time() - t0, 0, configs, nseeds)
    print(f"done property=C03 evaluations={evals} distinct_interleavings={len(orders)} wall={time.time() - t0:.1f}s exit=0")
    return 0

def write_evidence(tier, seed, evals, orders, samples, wall, viol, configs, nseeds):
    nontrivial = [o for o in orders if not re.fullmatch(r"m*" + "".join(str(i) + "+" for i in range(o[0])) + "m*", o[2])]
    ev = {
        "property_id": "C03", "tier": tier, "seed": seed, "level": "exploration", "wall_s": wall, "violations": viol,
        "assumptions": ["Miri's scheduler explores interleavings at atomic accesses and yields; weak-memory effects beyond SeqCst are not relevant to a SeqCst fetch_add", "guard cfg(libp2p_verif) is OFF in this build: the real process-wide atomic is exercised"],
        "coverage": {
            "evaluations": evals,
            "distinct_nontrivial": len(nontrivial),
            "rule": "each evaluation is one Miri execution (one scheduler seed) of a program that allocates connection ids from T threads through DialOpts (the Swarm's allocation path) plus before/after the threads; configurations (threads, ids per thread, preemption rate) = " + str(configs) + f", {nseeds} seeds each. distinct = distinct sequences 'which thread got the k-th id'; non-trivial = the sequence interleaves ids of different threads (threads did not simply run one after the other)",
            "samples": samples or [{"note": "no successful run"}],
            "distinct_interleavings_all": len(orders),
            "seeds_per_hour": int(evals / wall * 3600) if wall > 0 else 0,
            "fault_kinds": {"thread_preemption": "Miri -Zmiri-preemption-rate"},
            "components_real": ["libp2p_swarm NEXT_CONNECTION_ID (std AtomicUsize) via DialOpts::connection_id / ConnectionId::next"],
            "components_stub": ["OS scheduler -> Miri seeded scheduler"],
        },
    }
    os.makedirs(os.path.join(VERIF, "evidence"), exist_ok=True)
    json.dump(ev, open(os.path.join(VERIF, "evidence", "C03.json"), "w"), indent=1)

if __name__ == "__main__":
    sys.exit(main())
