//! E4 — C03: connection ids are never reused, also when allocated from several threads.
//!
//! Runs under Miri (`-Zmiri-many-seeds`, preemption rate > 0): Miri's seeded scheduler decides
//! the interleaving of the threads at every atomic access of the *real* `NEXT_CONNECTION_ID`
//! counter; one seed is one exactly repeatable interleaving. The ids are obtained through the
//! public API (`DialOpts::...build().connection_id()`), i.e. the same allocation path the Swarm
//! uses for dials and inbound connections (`ConnectionId::next()`).
//!
//! argv: <threads> <ids per thread>
//! exit 0 = all ids pairwise distinct; exit 1 = duplicate found (printed).

use libp2p_core::Multiaddr;
use libp2p_swarm::dial_opts::DialOpts;
use libp2p_swarm::ConnectionId;
use std::collections::BTreeMap;

fn next_id(addr: &Multiaddr) -> ConnectionId {
    DialOpts::unknown_peer_id().address(addr.clone()).build().connection_id()
}

fn main() {
    let args: Vec<String> = std::env::args().collect();
    let threads: usize = args.get(1).and_then(|s| s.parse().ok()).unwrap_or(3);
    let per: usize = args.get(2).and_then(|s| s.parse().ok()).unwrap_or(4);
    let addr: Multiaddr = "/memory/1".parse().unwrap();
    // ids allocated before the threads start
    let mut all: Vec<(usize, ConnectionId)> = (0..2).map(|_| (usize::MAX, next_id(&addr))).collect();
    let handles: Vec<_> = (0..threads)
        .map(|t| {
            let addr = addr.clone();
            std::thread::spawn(move || {
                let mut v = Vec::with_capacity(per);
                for _ in 0..per {
                    v.push((t, next_id(&addr)));
                    std::thread::yield_now();
                }
                v
            })
        })
        .collect();
    for h in handles {
        all.extend(h.join().unwrap());
    }
    // ... and after they finished
    all.push((usize::MAX, next_id(&addr)));
    let mut seen: BTreeMap<ConnectionId, usize> = BTreeMap::new();
    for (t, id) in &all {
        if let Some(prev) = seen.insert(*id, *t) {
            println!("DUPLICATE connection id {id}: allocated by thread {prev} and by thread {t}");
            std::process::exit(1);
        }
    }
    // the interleaving, as far as the ids reveal it: thread index in id order
    let order: Vec<String> = seen.values().map(|t| if *t == usize::MAX { "m".to_string() } else { t.to_string() }).collect();
    println!("ok threads={threads} per_thread={per} ids={} order={}", all.len(), order.join(""));
}
