#!/usr/bin/env python3
"""Generate /verif/MANIFEST.json from the table below (single source of truth for what is claimed)."""
import json, os, subprocess, sys
HERE = os.path.dirname(os.path.dirname(os.path.abspath(__file__)))

PURE = {
 "C13": "pure function of two multiaddrs (address translation): no schedule, clock, I/O, peer or fault for a simulator to control; input generation alone would not be simulation",
 "C18": "pure function of certificate bytes (TLS certificate parse/verify): no schedule, clock read under the simulator's control, I/O or fault in the anchored code",
 "C20": "pure encode/decode round-trips of keys and peer ids: no concurrency, time, I/O or multi-party behaviour",
 "C21": "pure signature / envelope verification functions of their input bytes: nothing for a scheduler or fault injector to act on",
 "C22": "synchronous classification of the leading IP of one address; dial either refuses or forwards, no state, time or interleaving",
 "C38": "pure function of (routing-table contents, target); the table histories that could depend on time/schedule are C37's subject",
 "C40": "arithmetic laws on 256-bit keys: pure functions",
 "C44": "pure message<->protobuf conversion functions; stream-split independence of the framing is decided under C57",
 "C55": "pure packet build/parse functions of (peer id, address list) / packet bytes",
}

# id -> (engine, level, technique, level text, level note, design ref)
BUILT = {
 "C57": ("E1", "exploration", "deterministic simulation: seeded schedules + chunking/readiness faults on an in-memory pipe, reference encoder as oracle",
         "Seeded search over message sequences x pipe configurations x writer/reader schedules, plus exhaustive split points of short streams inside each 'splits' run and hostile prefixes; oracle = decoded sequence equals encoded sequence / reference frame parser; evidence, not proof",
         "trusts the in-memory pipe to model a reliable ordered byte stream and asynchronous-codec's FramedRead/Write (both real code)", "5/C57"),
}
BUILT["C14"] = ("E1", "exploration", "deterministic simulation: real dialer and listener futures as two scheduled units over a fault-injecting in-memory duplex (one run in three with buffered-writer semantics: bytes move only on flush); outcome + payload-equality oracle",
  "Seeded search over protocol lists x version x payloads x pipe configurations x schedules (plus connection resets in the heavy profile); oracle: both sides agree on the first common protocol or both fail with Failed, optimistic dialer learns failure at first read, payload bytes arrive complete and in order, and the tapped wire equals a hand-written reference encoding",
  "assumes the transport buffers one negotiation flight (>= 40 kB per direction; smaller buffers deadlock multistream-select by design); dialer names valid in the strict scenario", "5/C14")
BUILT["C15"] = ("E1", "fault_enumeration", "deterministic simulation with hostile-peer fault enumeration: scripted raw peer bytes x chunking schedules against the real listener/dialer; reference encoder/parser as oracle",
  "Enumerated hostile cases (over-long varints, 16383/16384 frames, 1000 vs 1001 protocols, names without '/', missing newline, wrong header, bit flips, truncation at every offset) each under drawn chunkings and schedules; honest runs compare the full wire image with a reference encoding; outgoing messages beyond the frame limit must be refused, not framed with a 3-byte prefix; panics are violations",
  "reference encoder/parser written from the spec; case list is finite, chunkings sampled", "5/C15")
BUILT["C24"] = ("E1", "exploration", "deterministic simulation: real mplex / yamux pairs, 2 driver units + up to 16 substream units under a seeded scheduler, pipe chunking/readiness faults, connection reset, bulk transfers past the muxers' windows; tagged-byte stream-equality oracle",
  "Seeded search over substream plans x muxer knobs x pipe configurations x unit interleavings; oracle per substream and direction: read bytes are a prefix of written bytes (equal after a clean close), EOF only after close/drop, no cross-talk (every byte encodes stream tag, direction, offset)",
  "yamux runs use a 4 MiB pipe (the external yamux 0.14 crate deadlocks when both send buffers are full while a Pong is pending; not /repo code); EOF after a *drop* is not demanded (mplex sends the Reset at the next opportunity only)", "5/C24")
BUILT["C25"] = ("E1", "fault_enumeration", "deterministic simulation: real mplex endpoint against a scripted raw peer with a reference codec; every split offset enumerated inside a run, hostile frames enumerated",
  "Outbound: each local operation must appear as the reference frame with the initiator flags; inbound: every frame kind x id magnitudes x sizes under all split offsets must have exactly its effect (role mirrored: receiver-flag frames reach locally opened streams, initiator-flag frames do not); hostile: length 1MiB+1 without payload, type 7, over-long varints must fail at once, 1 MiB exactly must not",
  "reference codec written from the mplex spec; effects observed through the public StreamMuxer/Substream API (no codec hook needed)", "5/C25")
BUILT["C26"] = ("E1", "exploration", "deterministic simulation: flooding raw peer, schedule-paused local readers, substreams closed from both sides while frames are buffered, both MaxBufferBehaviours, limits hit while the muxer's own writes are back-pressured; limit invariants after every step",
  "Invariant after every step: substreams handed out and not dropped <= max_substreams whatever the peer sends (incl. repeated Reset/Close); excess Opens answered by Reset; Block: at most max_buffer_len+1 frames taken for a paused reader and no frame lost or reordered after resume; ResetStream: overflowing stream reset and its reads end",
  "frames taken by the real side are measured as bytes consumed from the pipe with one frame delivered per quiescence point", "5/C26")
BUILT["C16"] = ("E1", "fault_enumeration", "deterministic simulation with adversary fault enumeration: frame-aware man-in-the-middle (every byte flip, truncation, drop, duplicate, cross-session replacement) and a byzantine endpoint running the real handshake with a spliced identity; ground-truth identity oracle",
  "Honest pairs over all 4 key types and schedules must report each other's true id; every single-byte flip of every handshake byte (exhaustive in-run), structural tampering of each of the 3 messages, prologue mismatches, and 7 identity splices x roles x key types: an honest side may return Ok(p) only for the identity that signed the static key of the session holder",
  "crypto primitives trusted; byzantine endpoint built through the cfg(libp2p_verif) facade (field assignment only)", "5/C16")
BUILT["C17"] = ("E1", "fault_enumeration", "deterministic simulation: honest sessions under chunking/readiness schedules with stream-equality oracle; man-in-the-middle flips / truncates the ciphertext at every offset (one fresh session per offset)",
  "Write sizes around the frame limit x flush patterns x chunkings: bytes read == bytes written; for recorded ciphertext streams every byte position (length prefix, body, tag) is flipped once and every cut point tried: reader output must be a prefix ending before the damaged frame, then error",
  "crypto primitives trusted; ed25519 identities (fixed layout) in the corruption scenarios", "5/C17")
BUILT["C19"] = ("E1", "exploration", "deterministic simulation: real plaintext / pnet upgrades over fault-injecting pipes (chunking, Pending, EINTR), scripted raw peer coalescing handshake and application bytes; plus a plain seeded-input rider for the key-file text format",
  "Seeded search over identities x payloads x chunkings x schedules: stream equality both ways, PeerIdMismatch for every id/key mismatch, follow-up bytes sent in the same write as the Exchange message are read first and completely; pnet with equal keys is transparent under partial writes and Interrupted errors; key-file rider: round-trip and no panic on arbitrary (incl. 64-byte non-ASCII) text",
  "plaintext Exchange is capped at 100 bytes by the code, so only ed25519/secp256k1 identities are used there; the key-file rider is input generation, not simulation, and is labelled so in evidence", "5/C19")
BUILT["C23"] = ("E1", "fault_enumeration", "deterministic simulation: real dns::Transport over a simulated resolver (record graphs with cycles/fan-out, injected resolver errors, empty and wrong-type answers, slow answers) and a recording inner transport with planned dial outcomes",
  "Seeded search over record graphs x dialled address shapes x resolver faults x dial outcome plans; oracle per dial: <=32 lookups, <=16 accepted inner dials, no DNS component reaches the inner transport, /dnsaddr results keep the original suffix, the future resolves and never panics",
  "resolver seam = the crate's own Resolver trait via the cfg(libp2p_verif) constructor; hickory Lookup values built by hand", "5/C23")
BUILT["C31"] = ("E1", "exploration", "deterministic simulation: real GossipsubCodec behind FramedRead over a chunking/coalescing pipe, RPC streams generated at limit-1/limit/limit+1 by a hand-written protobuf encoder",
  "Seeded search over limits x RPC streams x chunkings (everything-in-one-read, byte-by-byte, random): decoded sequence must equal the RPCs up to the first over-limit one (error there); an RPC within all limits is never rejected",
  "codec obtained through the cfg(libp2p_verif) facade constructor; ValidationMode::None so that only size limits decide", "5/C31")
BUILT["C49"] = ("E1", "exploration", "deterministic simulation with virtual clock: real relay CopyFuture between two fault-injecting duplexes, endpoints with drawn volumes and stalls; byte and time limits",
  "Seeded search over limits x volumes x stalls x chunkings x schedules with the virtual clock advanced past the deadline: prefix/equality of forwarded bytes, overshoot <= one 8 KiB buffer per direction, error after exceeding max_circuit_bytes, TimedOut when the deadline passes with nothing to forward, Ok and complete delivery within limits",
  "CopyFuture reached through the cfg(libp2p_verif) facade; time = patched futures-timer", "5/C49")
BUILT["C56"] = ("E1", "exploration", "deterministic simulation: pair of real webrtc-utils Streams over a clonable simulated data channel with a raw flag injector; operation histories checked against a reference half-close state machine",
  "exact scenario: every result of 10..60 drawn operations (read with small or large buffers/write/flush/close/close_read/inject FIN|STOP_SENDING|RESET alone or with a payload) equals the reference state machine fed with the same message sequence; interleaved scenario: half-done operations, dropped streams (DropListener), spurious Pending: no panic, ConnectionReset is sticky, data read is a prefix of data written",
  "frames written atomically into the simulated channel", "5/C56")
E2_NOTE = "stub stack: SimTransport hands (PeerId, SimMuxer) to the Swarm, so security/muxing are stubs here (real ones are covered by E1 checks); connection/listener ids come from the cfg(libp2p_verif) thread-local counters so that a run is a function of its seed"
BUILT["C01"] = ("E2", "exploration", "deterministic simulation: 2-5 real Swarms over a simulated transport/executor/clock, seeded operation + fault sequences (incl. identity faults of the stub handshake and muxer address changes), reference model folded from returned events, history check at quiescence",
  "Seeded search over workloads (dials with every PeerCondition, behaviour dials, closes, disconnects, resets, denials, refused/hanging/late dials, failing/hanging upgrades) and task interleavings; online: no double resolution, no ConnectionClosed without/after close, no establishment without a pending attempt; at the fault-free end: nothing unresolved, nothing left established, behaviour lifecycle sequence == SwarmEvent lifecycle sequence",
  E2_NOTE, "5/C01")
BUILT["C02"] = ("E2", "exploration", "deterministic simulation: invariant after every returned SwarmEvent and every Swarm::dial call against a reference count model",
  "Exact equality of the six counters, num_peers, connected_peers(), is_connected(p) and the num_established carried by events with the model, after every event of every node in every run, faults included",
  E2_NOTE, "5/C02")
BUILT["C06"] = ("E2", "fault_enumeration", "deterministic simulation with denial faults enumerated over (composition slot x decision point), probe behaviours inside a derived composite whose fields are a plain behaviour, one behind Toggle and one behind Either",
  "All 12 (slot, point) combinations across runs with 30-90% denial rates plus background denials: denied ids are never established/counted/used, exactly one Denied failure per field and one error event, muxer closed; no Denied error without a denial",
  E2_NOTE, "5/C06")
BUILT["C58"] = ("E2", "exploration", "deterministic simulation: every E2 run drives a #[derive(NetworkBehaviour)] composite of three probe fields (plain, behind Toggle, behind Either with a drawn side), muxer address changes; cross-field consistency oracles",
  "Identical FromSwarm sequences in all fields, handler events (Echo) return to the emitting field, denied iff some field denied, union of field addresses is what gets dialled (checked with C04)",
  E2_NOTE, "5/C58")
BUILT["C04"] = ("E2", "exploration", "deterministic simulation: real Swarm::dial against a recording transport; target peers moved through disconnected/dialing/connected states by histories; per-dial oracle evaluated on the reference model",
  "Generated DialOpts (all PeerConditions, duplicate / own-listen / foreign-/p2p addresses, per-field behaviour address books with and without extend) in every target state; rejected dials: DialPeerConditionFalse, one DialFailure per field, no transport call, no pending connection; accepted dials: exact ordered address list handed to the transport, NoAddresses when empty",
  E2_NOTE, "5/C04")
BUILT["C05"] = ("E2", "fault_enumeration", "deterministic simulation with identity faults enumerated: the stub transport authenticates each side of each connection as expected / other / local peer",
  "All 9 (dialer-side x listener-side) authentication combinations x (expected peer none / remote / own id / a third peer while a dial to the remote is pending) x (ordinary or role-override dial), interleaved with ordinary traffic: established only when the id matches the expectation and is not local, else WrongPeerId / LocalPeerId, and the refused muxer is closed via poll_close",
  E2_NOTE, "5/C05")
BUILT["C07"] = ("E2", "exploration", "deterministic simulation: numbered NotifyHandler::One/Any emissions from any composite field against starved connection tasks (back-pressure in both directions: echo bursts fill the handler-event channel too), racing closes and resets; history check at quiescence",
  "Targeting (connection and field), at-most-once, per-handler order, Any only to a connection established at emission (snapshot rebuilt from the event history), loss only when the target (some snapshot member for Any) was closed or commanded to close",
  E2_NOTE, "5/C07")
BUILT["C08"] = ("E2", "exploration", "deterministic simulation: every transport dial future completes only when the simulator says so, in a drawn order with drawn outcomes; in-flight counter checked after every scheduler step",
  "N in 1..12 addresses x factor 1..8 (config / override) x smart mode x completion orders: in-flight <= k at every step, one transport dial per address, success iff an attempted address succeeded, exact error accounting in DialError::Transport / concurrent_dial_errors",
  E2_NOTE + "; no hook needed (the property suggested one): the public Swarm path exercises ConcurrentDial/SmartDial unchanged", "5/C08")
BUILT["C09"] = ("E2", "exploration", "deterministic simulation with virtual clock: smart-dial start times observed on a recording transport whose dials all hang; reference group classifier",
  "Address multisets over private/public IPv4/IPv6, localhost and other DNS names, relay, QUIC/TCP/WebTransport/WebRTC-direct and ports; oracle on the virtual times at which each transport dial is first polled: complete permutation with finite delays, last group never strictly before an earlier group, QUIC no later than TCP within a group",
  E2_NOTE + "; observed through the public Swarm path and timers (no hook, rank_dials itself is not called by the harness)", "5/C09")
BUILT["C10"] = ("E2", "exploration", "deterministic simulation with virtual clock: keep-alive flips, held / half-closed / ignored / dropped streams and clock advances placed around the idle timeout; busy timeline reconstructed from the handlers' own logs",
  "At every KeepAliveTimeout close: side not busy at the close decision, decision no earlier than last-busy instant + idle_timeout (timeouts 0, 50 ms, 5 s, 60 s); liveness: once idle and past the timeout the connection is closed with KeepAliveTimeout",
  E2_NOTE, "5/C10")
BUILT["C11"] = ("E2", "exploration", "deterministic simulation: advertised-protocol list histories (duplicates across composite fields, invalid names) and overlapping remote add/remove reports; fold of notifications compared at quiescence points",
  "fold(LocalProtocolsChange) per field handler == valid names of the union of current lists; fold(RemoteProtocolsChange) == reports folded in the order the handlers handed them over; several changes may land in one connection poll pass",
  E2_NOTE, "5/C11")
BUILT["C12"] = ("E2", "exploration", "deterministic simulation: scripted transport listener events + application/behaviour external and peer address operations + real failing dials; reference fold after every step",
  "Swarm::listeners(), ListenerClosed.addresses, external_addresses() and the three helper structs (contents and 'changed' answers) equal the reference fold after every step",
  E2_NOTE, "5/C12")
BUILT["C52"] = ("E2", "exploration", "deterministic simulation: real connection-limits behaviour inside a derived composite on 3-5 Swarms; invariant checked between single scheduler steps against the reference connection model",
  "Small drawn limits for all six dimensions, fixed bypass sets, random dials/disconnects/resets/late and failing attempts: reference counts of non-bypassed pending/established connections never exceed the limits after any returned event",
  E2_NOTE, "5/C52")
BUILT["C53"] = ("E2", "exploration", "deterministic simulation: real allow/block-list behaviour in a derived composite; list changes interleaved with dials both ways; window oracle over the event history",
  "No ConnectionEstablished for a peer between the return of block_peer/disallow_peer and its reversal (event sequence numbers), and no connection to a restricted peer survives quiescence; both list variants",
  E2_NOTE, "5/C53")
BUILT["C54"] = ("E2", "exploration", "deterministic simulation: real peer-store behaviour in a derived composite with real dial failures and connection establishments; bounded-capacity regime and exact reference-model regime",
  "Capacities never exceeded after any step; without eviction: contents equal the reference map (automatic removal never touches explicitly added addresses) and the PeerAddressAdded/Removed event sequence equals the reference's",
  E2_NOTE, "5/C52-54")
BUILT["C03"] = ("E4", "exploration", "controlled thread scheduling: Miri's seeded scheduler (many-seeds, preemption rate) over the real process-wide AtomicUsize, ids obtained through the public DialOpts path from 2-4 threads",
  "One Miri seed = one exactly repeatable interleaving of the allocating threads; all ids (before, during, after the threads) must be pairwise distinct; a failing seed is the replay",
  "guard OFF (real atomic, no thread-local seam); Miri cannot cross FFI, so whole Swarms on several threads are not run under it - the allocation path is the same ConnectionId::next()", "5/C03")
E3_NOTE = "real gossipsub::Behaviour and real wire codec (frames cross the simulated network as bytes); the connection handler is a stub: the network moves RpcOut items drained from the behaviour's per-peer queues (cfg(libp2p_verif) facade) and delivers decoded RPCs as handler events; virtual clock drives heartbeats"
BUILT["C27"] = ("E3", "exploration", "deterministic simulation: 3-7 real gossipsub behaviours on a simulated lossy/partitioning network with per-link FIFO queues, seeded publish/subscribe/link operations; delivery-history oracles",
  "Per run: random topology, subscriptions, publishes (signed/author/anonymous modes, flood_publish on/off), link stalls, disconnects and heals, duplicated frames; oracles: no application-level duplicate delivery, never forwarded to propagation source or the original publisher, only subscribed topics delivered, and after faults stop every subscriber in the connected subscriber subgraph receives each surviving message within a bounded number of heartbeats",
  E3_NOTE, "5/C27")
E3S = "deterministic simulation: one real gossipsub Behaviour, scripted peers speaking wire frames through the real codec, virtual-clock heartbeats; seeded operation sequences; reference model compared after every step"
BUILT["C28"] = ("E3", "exploration", E3S,
  "Seeded sequences of connects (all protocol kinds, 1-2 connections), SUBSCRIBE/GRAFT/PRUNE RPCs, local subscribe/unsubscribe/publish, scores, explicit peers, heartbeats: every mesh member connected+gossipsub+tracked+not explicit; entering peers not backed off / negative / explicit; GRAFT to a full mesh, in backoff or with negative score refused with PRUNE",
  E3_NOTE, "5/C28")
BUILT["C29"] = ("E3", "exploration", E3S,
  "Same runs: JoinedMesh/LeftMesh notifications folded per connection; after every step some live connection believes 'in mesh' iff the peer is in at least one mesh (second connections, closing the notified connection, unsubscribe, prune, disconnect, heartbeat grafts)",
  E3_NOTE, "5/C29")
BUILT["C32"] = ("E3", "exploration", E3S + "; plus the real BackoffStorage alone under random update/heartbeat/late-heartbeat/time sequences",
  "Model expiry = max over all updates of now+duration (sent PRUNE backoff, received PRUNE backoff or default): nothing enters a mesh and no GRAFT is accepted before expiry, early GRAFTs are pruned and penalised, and every pair is forgotten after expiry + slack + one wheel rotation of heartbeats",
  E3_NOTE, "5/C32")
BUILT["C35"] = ("E3", "exploration", E3S,
  "Same runs with flood_publish off in 2/3: in every non-heartbeat step each fanout peer that is still connected, tracked as subscribed and scored >= 0 remains in the fanout set (publishing only adds)",
  E3_NOTE, "5/C35")
BUILT["C36"] = ("E3", "exploration", E3S,
  "AllowAll / Whitelist / MaxCount(AllowAll) / MaxCount(Whitelist) / Combined(Whitelist,Callback) filters with drawn limits: tracked topics always within the filter's allowed set and max_subscribed_topics; each SUBSCRIBE/UNSUBSCRIBE request applied exactly as the reference filter (rejected requests change nothing); GRAFT-implied subscriptions obey the filter",
  E3_NOTE, "5/C36")
BUILT["C30"] = ("E3", "exploration", "seeded generation + mutation of wire frames (independent protobuf encoder, three key types, post-signing mutations) decoded by the real codec in each validation mode; independent signature verifier as oracle",
  "Whatever Strict/Permissive/Anonymous surface as valid satisfies the mode's rule; untouched signed messages are accepted in Strict; mutated signed messages are reported invalid",
  "the decoding step is a function of the frame: the seeded search explores inputs (field presence, key kinds, mutations), there is no schedule or clock in this property; kept under the simulator for uniform replay/evidence", "5/C30")
BUILT["C33"] = ("E3", "exploration", "deterministic simulation over the virtual clock: the real DuplicateCache and MessageCache driven with seeded operation/time sequences against a reference model",
  "insert/contains/time jumps (ttl boundaries) resp. put/validate/shift/gossip/IWANT/remove sequences: seen exactly while now < first insertion + ttl; gossip ids and IWANT service confined to the documented windows; per-peer IWANT counts exact",
  "cache objects driven through the cfg(libp2p_verif) facade wrappers", "5/C33")
BUILT["C34"] = ("E3", "exploration", "seeded ConfigBuilder setter sequences; accepted configs checked against the documented inequalities and then run in a real Behaviour (peers, GRAFTs, disconnects, heartbeats on the virtual clock), panic = violation",
  "Default and per-topic mesh parameters 0..13, transmit sizes around 100, history windows 0..6; 0..24 peers; 2..8 heartbeats",
  E3_NOTE + "; one known finding (per-topic parameters without per-topic max_transmit_size are not validated; an existing unit test depends on it)", "5/C34")
E2P_NOTE = "stub stack below the protocol: SimTransport/SimMuxer (security and muxing are covered by E1); the behaviour under test, its handlers, the Swarm, the pool and multistream-select are real; counterpart peers are scripted (raw uvi-framed protobuf written by the harness) where the property quantifies over arbitrary/byzantine requests"
BUILT["C47"] = ("E2", "exploration", "deterministic simulation: real relay::Behaviour in a real Swarm, scripted hop/stop clients with several connections, virtual-clock expiry; client-side ground truth (accepted, unexpired reservations/circuits on open connections) and the relay's own event stream both checked against the limits",
  "Seeded limits (1..6 total, 1..3 per peer), RESERVE/CONNECT/close/time sequences incl. racing requests; invariants on reservations per peer/total and circuits per involved peer/total",
  E2P_NOTE, "5/C47")
BUILT["C48"] = ("E2", "exploration", "seeded timestamped request sequences against the real per-peer and per-IP limiter (built through relay::Config); sliding-window token-bucket oracle over every pair of accepted requests",
  "limit 1..5, intervals 1 ms..1 min, 3 peers x 3 IPs, steps at 0, interval fractions/multiples and idle gaps; window bound, idle-acceptance, per-IP identity",
  "the limiter takes the timestamp as an argument: the clock is the only nondeterminism and it is drawn by the simulator", "5/C48")
BUILT["C37"] = ("E3", "exploration", "deterministic simulation over the virtual clock: the real KBucketsTable (cfg facade) under seeded insert/update/remove/lookup/time sequences; reference model following the table's answers; structural invariants and pending-entry rules after every step",
  "bucket sizes 1..3, pending timeouts 1..60 s, 12..40 hashed peer ids; capacity, uniqueness, bucket index, local key, status/LRU ordering, content equality; applied pending entries: timeout elapsed, victim = least recently updated disconnected entry",
  "kad facade wrappers (cfg(libp2p_verif)) expose the crate-private table", "5/C37")
BUILT["C39"] = ("E3", "exploration", "deterministic simulation: the real closest / disjoint / fixed peer iterators driven by a simulated query pool over seeded peer graphs with seeded response orders, failures, silence and late answers on the virtual clock",
  "8..40 peers, parallelism 1..4, num_results 1..6: in-flight bounds, termination within a step budget once every request is resolved or timed out, results = responders only, sorted, bounded; fixed iterator over lists with repeated peers; on natural termination no learned closer peer uncontacted or waiting (plain iterator)",
  "the 'at most num_results' clause is judged for the plain iterator; the disjoint iterator documents that it returns the union of its paths' results (bound parallelism*num_results)", "5/C39")
BUILT["C41"] = ("E3", "exploration", "seeded operation sequences against the real MemoryStore compared with a reference map after every operation",
  "limits 1..4 records, 4..12 value bytes, 1..3 providers per key, 1..3 provided keys; put (fresh values and the stored value again with another publisher/expiry)/get (whole record compared)/remove/add_provider/remove_provider; provided() == local provider records",
  "no clock, schedule or fault in this store: operation-sequence (history) comparison only", "5/C41")
BUILT["C42"] = ("E2", "exploration", "deterministic simulation: real kad::Behaviour (server mode, MemoryStore) in a real Swarm, scripted peers sending PUT_VALUE/GET_VALUE frames, virtual time steps leaving sub-second lifetimes, answers held up (connection tasks frozen) between lookup and encoding while the record expires; the record store is read after every request",
  "record_ttl none or 3..60 s x sender ttl none/1..3/30/3600, fresh records and the already stored record sent again with another lifetime: stored expiry <= min of both, no expiry only if neither set; GET_VALUE answers for expiring records carry ttl > 0",
  E2P_NOTE, "5/C42")
BUILT["C43"] = ("E2", "exploration", "same simulation as C42 with ADD_PROVIDER and PUT_VALUE frames carrying arbitrary provider / publisher ids",
  "a provider appears in the store only if it is the sender and not the local node; PUT_VALUE with the local node as publisher leaves the record untouched",
  E2P_NOTE, "5/C43")
BUILT["C45"] = ("E2", "exploration", "deterministic simulation: 2..3 real Swarms with #[derive(NetworkBehaviour)]{request_response, gate}; seeded requests with per-request codec failure/stall plans, dials, closes, resets, substreams reset at open, gate denials, delayed/omitted responses, virtual time around the request timeout; exactly-once over the event history",
  "every OutboundRequestId has exactly one Response/OutboundFailure, every delivered inbound request exactly one ResponseSent/InboundFailure after all timers expired; ids unique; responses match their request",
  "both sides run the real behaviour and handler; the codec is the scripted part", "5/C45")
BUILT["C46"] = ("E2", "exploration", "deterministic simulation: real identify::Behaviour in a real Swarm; scripted peers answer identify requests and send pushes with honest, mismatched-key, foreign-record, tampered-record and foreign-/p2p messages; every Received event is attributed to its message by a serial",
  "reported key derives the connection's peer id; no listen address ending in a foreign /p2p; record addresses only from a valid record signed by the sender; mismatching messages never reported; attribution-independent: every reported signed record belongs to the connection's peer and contains the reported record-range addresses",
  E2P_NOTE, "5/C46")
BUILT["C50"] = ("E2", "exploration", "deterministic simulation: real AutoNAT v1 server in a real Swarm; scripted clients send dial requests with crafted address lists, the server application dials requesters on its own; oracle over the addresses the simulated transport is asked to dial and over the probe events",
  "throttle limits 1..3 per peer / 1..4 global, periods 10..70 s; honest, spoofed, multi-IP, DNS, relay and foreign-/p2p addresses; dial-back addresses carry only the observed IP, no relay hop, end in the requester's id; one probe per peer; throttling windows",
  E2P_NOTE, "5/C50")
BUILT["C51"] = ("E2", "exploration", "deterministic simulation: real rendezvous server in a real Swarm; scripted clients register (signed records with generation numbers), unregister, discover with cookies; virtual-clock expiry; reference map folded from the answers",
  "min_ttl 1..5, max_ttl 10..120, per-peer 1..3, total 2..6: TTL range, limits after every accepted REGISTER, refresh at the limit, discovery never returns expired/removed/superseded registrations, cookie chains return a registration at most once",
  E2P_NOTE, "5/C51")
NOT_YET = {}

def main():
    props = [json.loads(l) for l in open(os.path.join(HERE, "properties.jsonl"))]
    checks, na = [], []
    for p in props:
        i = p["id"]
        if i in BUILT:
            eng, level, tech, text, note, ref = BUILT[i]
            checks.append({
                "property_id": i,
                "quick_cmd": f"./check {i} --tier quick",
                "thorough_cmd": f"./check {i} --tier thorough",
                "evidence_file": f"/verif/evidence/{i}.json",
                "replay_cmd_template": "./check replay {path}",
                "engine": eng,
                "level_claimed": {"category": level, "text": text, "design_ref": f"DESIGN.md section {ref}"},
                "level_note": note,
                "technique": tech,
            })
        elif i in PURE:
            na.append({"property_id": i, "reason": PURE[i]})
        else:
            na.append({"property_id": i, "reason": NOT_YET.get(i, "designed in DESIGN.md section 5 but its simulation check is not built yet in this tree; not claimed until it runs clean and has shown sensitivity")})
    hooks_commits = []
    try:
        out = subprocess.check_output(["git", "-C", "/repo", "log", "--format=%H %s"], text=True)
        hooks_commits = [l.split()[0] for l in out.splitlines() if l.split(" ", 1)[1].startswith("verif-hook:")]
    except Exception:
        pass
    m = {
        "version": 1,
        "setup_cmd": "./check build",
        "hooks": {
            "guard": "cfg(libp2p_verif)",
            "enable": "RUSTFLAGS=--cfg libp2p_verif, set for the harness workspace only through /verif/sim/.cargo/config.toml ([build] rustflags); /repo's own builds never see it",
            "baseline_off_cmd": "cd /repo && cargo nextest run --workspace --no-fail-fast --test-threads 8 --offline || cargo test --workspace --no-fail-fast --offline",
            "source_commits": hooks_commits,
            "add_only": True,
        },
        "engines": [
            {"name": "E1", "path": "sim/e1", "serves_properties": [c["property_id"] for c in checks if c["engine"] == "E1"], "kind_free_text": "byte-stream simulator: real protocol futures over simkit::pipe duplexes under a seeded scheduler"},
            {"name": "E2", "path": "sim/e2", "serves_properties": [c["property_id"] for c in checks if c["engine"] == "E2"], "kind_free_text": "network of real Swarms over SimTransport/SimMuxer and SimExecutor, virtual clock"},
            {"name": "E3", "path": "sim/e3", "serves_properties": [c["property_id"] for c in checks if c["engine"] == "E3"], "kind_free_text": "single real NetworkBehaviour; simulator plays Swarm, peers and clock"},
            {"name": "E4", "path": "e4", "serves_properties": [c["property_id"] for c in checks if c["engine"] == "E4"], "kind_free_text": "Miri seeded thread scheduler over the real atomics"},
        ],
        "checks": checks,
        "not_applicable": na,
        "notes": "All checks are deterministic simulations driven by one seed (VERIF_SEED, default 1); see DESIGN.md. Exit 2 = harness/build error.",
    }
    json.dump(m, open(os.path.join(HERE, "MANIFEST.json"), "w"), indent=1)
    print(f"MANIFEST.json: {len(checks)} checks, {len(na)} not_applicable")

if __name__ == "__main__":
    main()
