#!/bin/bash
# usage: verify_mutant.sh <id> <crate> <demo test name> [extra cargo test args for existing tests]
# In the agent's scratch worktree /tmp/mut_<id>: existing tests pass WITH the change, the demo FAILS with it and PASSES without it.
id="$1"; crate="$2"; demo="$3"; shift 3
W=/tmp/mut_$id; O=/tmp/mut_${id}_out
export CARGO_NET_OFFLINE=true CARGO_TARGET_DIR=${MUT_TARGET:-$W/target}
cd $W || exit 2
# with a shared target dir another worktree of the same crate may have built more recently: force our sources to be newer
fresh() { git ls-files -m -o --exclude-standard | grep "\.rs$" | xargs -r touch; }
echo "== worktree status"; git status --short | head
echo "== existing tests with the change (excluding the demo)"
fresh
cargo test --offline -p "$crate" "$@" -- --skip __nothing__ 2>&1 | grep -E "^test result|FAILED|error\[" | head -20
echo "== demo with the change (expect FAIL)"
fresh
cargo test --offline -p "$crate" --test "$demo" 2>&1 | grep -E "^test result" | head -3
git apply -R "$O/patch.diff" || { echo "cannot reverse patch"; exit 2; }
echo "== demo without the change (expect ok)"
fresh; git diff --name-only HEAD | xargs -r touch; touch $(git apply --numstat "$O/patch.diff" | awk '{print $3}')
cargo test --offline -p "$crate" --test "$demo" 2>&1 | grep -E "^test result" | head -3
git apply "$O/patch.diff"
echo "== done"
