#!/usr/bin/env python3
"""Print the prompt handed to a fresh mutation sub-agent for one property.
The agent gets only the property record and a scratch worktree; nothing from /verif.
usage: mk_mutant_prompt.py <ID> [dir-suffix] [hint text]"""
import json, os, sys

HERE = os.path.dirname(os.path.dirname(os.path.abspath(__file__)))
pid = sys.argv[1]
suffix = sys.argv[2] if len(sys.argv) > 2 else ""
hint = sys.argv[3] if len(sys.argv) > 3 else ""
prop = None
for l in open(os.path.join(HERE, "properties.jsonl")):
    p = json.loads(l)
    if p["id"] == pid:
        prop = p
assert prop, pid
W = f"/tmp/mut_{pid}{suffix}"
O = W + "_out"
T = os.environ.get("MUT_TARGET", W + "/target")
print(f"""You are helping to evaluate a verification effort for rust-libp2p by playing the role of a developer who
introduces a realistic defect. Work ONLY inside the scratch git worktree {W} (a checkout of rust-libp2p)
and write your results to {O}/ (create it). Never touch /repo or /verif, never read /verif, there is no network
(always pass --offline to cargo and set CARGO_NET_OFFLINE=true; use CARGO_TARGET_DIR={T}; that directory may be shared with other people working on other copies, so builds can
wait for a lock - that is normal, do not delete or clean it).

The semantic property below is supposed to hold for rust-libp2p:

{json.dumps(prop, indent=1)}

Task: make ONE small, realistic change to the library source (non-test code, not under cfg(libp2p_verif), not in
any `verif` module) that BREAKS this property, of the kind a competent developer could introduce by accident
(a refactoring slip, a plausible "optimisation" or "clean-up", a wrong comparison, a forgotten branch, a state
update moved across an await, an off-by-one, a missed wake-up ...). Requirements:
 1. the workspace crate(s) you touched still compile without new warnings;
 2. the existing tests of the crate(s) you touched still pass, unedited (cargo test --offline -p <crate>);
    if an existing test fails, pick a different change;
 3. the defect should preferably need a particular schedule, interleaving, fault, timing or history to show up
    (that is why the unit tests miss it) - not fail on every trivial use;
 4. write a demonstration: a NEW test file (e.g. <crate>/tests/<name>.rs, or a new #[test] in a new file) that
    FAILS with your change and PASSES without it. Run it both ways yourself and keep the logs.
    Do NOT use `git stash` (the stash is shared between worktrees and other people use it); to run without
    your change use `git diff -- <source files> > {O}/patch.diff; git apply -R {O}/patch.diff; ...; git apply {O}/patch.diff`.
 5. deliver in {O}/: patch.diff (ONLY the library change, applies with `git apply` at the repo root),
    demo.diff (ONLY the new test file(s)), a copy of the test file, notes.md (what the change is, why it
    looks innocent, which property clause it breaks, exactly what is needed for it to manifest, and the
    commands you ran with their results), and leave the worktree with both change and demo applied.
{('Extra hint for this task: ' + hint) if hint else ''}
Report at the end: the crate(s) touched, the test name of the demo, and the cargo commands to reproduce.""")
