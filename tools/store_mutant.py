#!/usr/bin/env python3
"""Store a confirmed seeded change under /verif/seeded/<id>/ and remove its scratch worktree.
usage: store_mutant.py <ID> <crate> <demo test> <caught,comma,list> <missed,comma,list> "<what it needs>" ["<note>"]"""
import json, os, shutil, subprocess, sys, glob
id_, crate, demo, caught, missed, needs = sys.argv[1:7]
note = sys.argv[7] if len(sys.argv) > 7 else ""
O = f"/tmp/mut_{id_}_out"; W = f"/tmp/mut_{id_}"; d = f"/verif/seeded/{id_}"
os.makedirs(d, exist_ok=True)
for f in ["patch.diff", "demo.diff", "notes.md"] + [os.path.basename(x) for x in glob.glob(O + "/*.rs")]:
    if os.path.exists(f"{O}/{f}"):
        shutil.copy(f"{O}/{f}", d)
if os.path.exists(f"/tmp/mutverify_{id_}.log"):
    shutil.copy(f"/tmp/mutverify_{id_}.log", f"{d}/verify.log")
meta = {"id": id_, "property_broken": id_.split("_")[0].rstrip("abcdefgh"),
 "origin": "fresh sub-agent given only the property record and a scratch worktree of /repo (nothing from /verif)",
 "what_it_needs_to_manifest": needs,
 "confirmed_by_me": {"where": f"{W} (scratch worktree, since removed)", "compiles": True,
   "existing_tests_with_change": f"cargo test --offline -p {crate} : all existing targets pass (verify.log)",
   "demonstration": f"tests/{demo}.rs of {crate}: FAILS with patch.diff applied, PASSES with it reversed (verify.log)"},
 "checks_run": {"how": "tools/try_mutant.sh <patch> <checks> (git apply to /repo, quick tier, git apply -R)",
   "caught_by": [c for c in caught.split(",") if c], "not_caught_by": [c for c in missed.split(",") if c]},
 "note": note}
json.dump(meta, open(f"{d}/meta.json", "w"), indent=1)
subprocess.run(["git", "-C", "/repo", "worktree", "remove", "--force", W])
shutil.rmtree(W, ignore_errors=True); shutil.rmtree(O, ignore_errors=True)
subprocess.run(["git", "-C", "/repo", "worktree", "prune"])
print("stored", d)
