#!/bin/bash
# usage: try_mutant.sh <patch.diff> <check id>...   applies the patch to /repo, runs the checks (quick), reverts it
set -u
P="$1"; shift
cd /repo || exit 2
git apply --check "$P" || { echo "patch does not apply"; exit 2; }
git apply "$P"
for c in "$@"; do
  out="$(cd /verif && ./check "$c" --tier quick 2>&1)"; rc=$?
  echo "== $c exit=$rc"; echo "$out" | grep -E "violated|VIOLATION|KNOWN|done|error" | cut -c1-420
done
git apply -R "$P"
git status --short | grep -v '^??' | head -3
# replay files written while a mutant was applied are not evidence for the unchanged tree
